"""C20 — The XML writer always produces well-formed, lossless XML.

Proof: lean/GIVerif/Props/C20.lean over the model lean/GIVerif/Model/XmlWriter.lean, stated with the
XML reader of lean/GIVerif/Spec/Xml.lean.
Tie: (1) translators/gen_xmlwriter.py re-reads the replacement tables of the running CPython's
xml.sax.saxutils and the literals of /repo's giscanner/xmlwriter.py; (2) byte-for-byte comparison of
the model with the real escape / quoteattr / _calc_attrs_length / collect_attributes / build_xml_tag /
XMLWriter (get_xml, get_encoded_xml, tag stack, indent, propagating exception) on generated inputs;
(3) an oracle written from the property statement, evaluated on the REAL implementation's output for
every case: the output is parsed back with xml.parsers.expat and element structure, attribute names /
values and text are compared with what the operations wrote; (4) the specification reader the theorems
are stated with is itself compared with expat on the real output.
"""
import json
import os
import sys
import xml.parsers.expat as expat

from core import REPO, Counter


class Boom(Exception):
    """the exception raised by 'writing code that raises'"""


class Underflow(Exception):
    pass


class BoomBase(BaseException):
    """writing code may also be left by an exception that is not an `Exception` (SystemExit from a
    fatal message, KeyboardInterrupt, GeneratorExit): the elements must be closed all the same"""


RAISE_KINDS = (Boom, BoomBase, SystemExit, KeyboardInterrupt, GeneratorExit, Boom)


def impl_setup():
    if REPO not in sys.path:
        sys.path.insert(0, REPO)
    from giscanner import xmlwriter
    return xmlwriter


# ------------------------------------------------------------------ classification (the quantifier)
def is_xml_char(ch):
    o = ord(ch)
    return o in (0x9, 0xA, 0xD) or 0x20 <= o <= 0xD7FF or 0xE000 <= o <= 0xFFFD or 0x10000 <= o <= 0x10FFFF


def xml_str(s):
    return all(is_xml_char(c) for c in s)


NAME_START = set('abcdefghijklmnopqrstuvwxyzABCDEFGHIJKLMNOPQRSTUVWXYZ_:') | set('éßΩ中Жñключ')
NAME_CHARS = NAME_START | set('0123456789.-') | set('·')


def name_ok(n):
    """an XML Name in every edition of XML 1.0 (conservative alphabet: what both the 4th-edition
    tables of expat and the 5th-edition ranges of Spec/Xml.lean accept)"""
    return len(n) > 0 and n[0] in NAME_START and all(c in NAME_CHARS for c in n)


def attrs_inside(attrs):
    """None when the attribute list is outside the property's quantifier, else the (name, value)
    pairs the statement requires to come back (None-valued ones omitted)"""
    present = [(k, v) for k, v in attrs if v is not None]
    names = [k for k, _ in present]
    if len(set(names)) != len(names):
        return None
    for k, v in present:
        if not name_ok(k) or not xml_str(v):
            return None
    return present


def norm_cr(s):
    return s.replace('\r\n', '\n').replace('\r', '\n')


WS = ' \t\n\r'


def strip_all_ws(s):
    return ''.join(c for c in s if c not in WS)


# ------------------------------------------------------------------ parse-back with expat
def expat_events(data):
    """data: bytes (a complete document).  Returns (decl, events); raises expat.ExpatError"""
    p = expat.ParserCreate()
    p.ordered_attributes = True
    p.buffer_text = True
    ev = []
    decl = []

    def start(name, attrs):
        ev.append(('start', name, [(attrs[i], attrs[i + 1]) for i in range(0, len(attrs), 2)]))

    def end(name):
        ev.append(('end', name))

    def chars(s):
        if ev and ev[-1][0] == 'text':
            ev[-1] = ('text', ev[-1][1] + s)
        else:
            ev.append(('text', s))

    def comment(s):
        ev.append(('comment', s))

    def xmldecl(version, encoding, standalone):
        decl.append((version, encoding, standalone))

    p.StartElementHandler = start
    p.EndElementHandler = end
    p.CharacterDataHandler = chars
    p.CommentHandler = comment
    p.XmlDeclHandler = xmldecl
    p.Parse(data, True)
    return decl, ev


# ------------------------------------------------------------------ oracle (from the statement)
def spec_events(prog):
    """What the statement says must be in the document for this writing code: every element that
    was opened, with the attributes that have a value, closed in LIFO order (a `with tagcontext`
    block closes its element however the block is left), text and comments in between.
    Returns (events, open_stack, raised, outside_reason)."""
    ev = []
    stack = []
    outside = []

    def element(name, attrs):
        if not name_ok(name):
            outside.append('element name not an XML Name')
        a = attrs_inside(attrs)
        if a is None:
            outside.append('attribute list outside (duplicate / non-Name / non-Char)')
            a = []
        return a

    def run(body):
        for st in body:
            k = st[0]
            if k == 'push':
                ev.append(('start', st[1], element(st[1], st[2])))
                stack.append(st[1])
            elif k == 'pop':
                if not stack:
                    raise Underflow()
                ev.append(('end', stack.pop()))
            elif k == 'tag':
                ev.append(('start', st[1], element(st[1], st[2])))
                if st[3] is not None:
                    if not xml_str(st[3]):
                        outside.append('text with a non-Char')
                    ev.append(('text', st[3], 'exact'))
                ev.append(('end', st[1]))
            elif k == 'comment':
                if '--' in st[1] or not xml_str(st[1]):
                    outside.append('comment text with -- or a non-Char')
                ev.append(('comment', ' ' + st[1] + ' '))
            elif k == 'line':
                if not xml_str(st[1]):
                    outside.append('text with a non-Char')
                if not st[3] and ('<' in st[1] or '&' in st[1] or ']]>' in st[1]):
                    outside.append('raw markup written with do_escape=False')
                ev.append(('text', st[1], 'loose'))
            elif k == 'ws':
                pass
            elif k == 'raise':
                raise Boom()
            elif k == 'ctx':
                ev.append(('start', st[1], element(st[1], st[2])))
                stack.append(st[1])
                try:
                    run(st[3])
                finally:
                    if not stack:
                        raise Underflow()
                    ev.append(('end', stack.pop()))
            else:
                raise ValueError(k)
    raised = False
    try:
        run(prog)
    except Boom:
        raised = True
    except Underflow:
        raised = True
        outside.append('pop_tag on an empty stack')
    return ev, stack, raised, outside


def doc_shape(ev):
    """'document' when the events are Misc* element Misc* (one root, only comments / blank lines
    outside), 'fragment' when merely balanced, else 'unbalanced'"""
    depth = 0
    roots = 0
    toplevel_text = False
    for e in ev:
        if e[0] == 'start':
            if depth == 0:
                roots += 1
            depth += 1
        elif e[0] == 'end':
            depth -= 1
            if depth < 0:
                return 'unbalanced'
        elif e[0] == 'text' and depth == 0 and strip_all_ws(e[1]):
            toplevel_text = True
    if depth != 0:
        return 'unbalanced'
    if roots == 1 and not toplevel_text:
        return 'document'
    return 'fragment'


def canon(ev):
    """[(markup event | None-at-end, [text parts before it])] — text between two markup events"""
    out = []
    parts = []
    for e in ev:
        if e[0] == 'text':
            parts.append(e[1:])
        else:
            out.append((e, parts))
            parts = []
    out.append((None, parts))
    return out


def compare_events(want, got):
    """want: spec events (text parts carry 'exact' / 'loose'); got: expat events.  Returns None or
    a description of the first difference."""
    cw = canon(want)
    cg = canon([(e[0], e[1], None) if e[0] == 'text' else e for e in got])
    if len(cw) != len(cg):
        return 'markup event count %d, required %d: got %r' % (len(cg) - 1, len(cw) - 1,
                                                               [g[0] for g in cg][:40])
    for i, ((we, wparts), (ge, gparts)) in enumerate(zip(cw, cg)):
        gtext = ''.join(p[0] for p in gparts)
        if len(wparts) == 1 and wparts[0][1] == 'exact':
            w = wparts[0][0]
            if '\r' in w:       # carriage returns in element text are excepted by the statement
                ok = norm_cr(w) == norm_cr(gtext)
            else:
                ok = w == gtext
            if not ok:
                return 'element text before markup event #%d is %r, written %r' % (i, gtext, w)
        else:
            w = ''.join(p[0] for p in wparts)
            if strip_all_ws(w) != strip_all_ws(gtext):
                return 'text before markup event #%d is %r, written %r' % (i, gtext, w)
        if we is None:
            continue
        if we[0] != ge[0] or (we[0] != 'comment' and we[1] != ge[1]):
            return 'markup event #%d is %r, required %r' % (i, ge, we)
        if we[0] == 'start' and list(we[2]) != list(ge[2]):
            return 'attributes of <%s> (event #%d) are %r, required %r' % (we[1], i, ge[2], we[2])
        if we[0] == 'comment' and norm_cr(we[1]) != norm_cr(ge[1]):
            return 'comment #%d is %r, written %r' % (i, ge[1], we[1])
    return None


WRAP = 'giverif-wrap'


def oracle_prog(ctx, prog, impl, cnt=None, driver_reads=None):
    """The statement on the real writer's output for one piece of writing code."""
    want, open_stack, raised, outside = spec_events(prog)
    if outside:
        return 'outside'
    key = 'prog:' + json.dumps(prog, sort_keys=True)

    def fail(what):
        ctx.report_failure(key, what + '; writing code=%s' % json.dumps(prog)[:700],
                           {'kind': 'prog', 'prog': prog})
        return 'FAIL'
    shape = doc_shape(want)
    if impl.get('error'):
        return fail('the writer raised on input inside the quantifier: %s' % impl['error'])
    if impl['stack'] is not None and list(impl['stack']) != list(open_stack):
        return fail('open-element stack after the run is %r, required %r' % (impl['stack'], open_stack))
    if impl['raised'] != raised:
        return fail('exception propagating=%r, required %r' % (impl['raised'], raised))
    xml_b = bytes.fromhex(impl['utf8'])
    try:
        if xml_b.decode('utf-8') != impl['xml']:
            return fail('get_encoded_xml() is not the UTF-8 encoding of get_xml()')
    except UnicodeDecodeError as e:
        return fail('get_encoded_xml() is not UTF-8: %s' % e)
    text = impl['xml']
    if shape == 'unbalanced':
        # elements left open by the caller (push_tag without pop_tag): judge the document completed by
        # popping them; what was written so far is a prefix of it
        if 'closed' not in impl or not impl['closed'].startswith(text):
            return fail('elements are left open and pop_tag does not close them')
        text = impl['closed']
        want = want + [('end', n) for n in reversed(open_stack)]
        shape = doc_shape(want)
        if shape == 'unbalanced':
            return fail('still unbalanced after closing the open elements')
        shape = 'completed-' + shape
    if shape == 'document':
        data = xml_b
    else:
        # several top-level elements / top-level text: judge it as the content of one wrapper element
        if not text.startswith('<?xml') or '?>' not in text:
            return fail('output does not start with an XML declaration: %r' % text[:60])
        cut = text.index('?>') + 2
        data = (text[:cut] + '<%s>' % WRAP + text[cut:] + '</%s>' % WRAP).encode('utf-8')
        want = [('start', WRAP, [])] + want + [('end', WRAP)]
    try:
        decl, got = expat_events(data)
    except expat.ExpatError as e:
        return fail('output is not well-formed XML (%s): %r' % (e, impl['xml'][:400]))
    if not decl or decl[0][0] != '1.0' or (decl[0][1] or 'utf-8').lower() != 'utf-8':
        return fail('XML declaration %r is not version 1.0 / UTF-8' % (decl,))
    diff = compare_events(want, got)
    if diff:
        return fail('parse-back differs: ' + diff)
    if driver_reads is not None and shape == 'document':
        driver_reads.append((impl['xml'], got))
    return shape


def oracle_build(ctx, case, out):
    """build_xml_tag: the returned element parses back to name, valued attributes, data"""
    present = attrs_inside(case['attrs'])
    if present is None or not name_ok(case['tag']) or (case['data'] is not None and not xml_str(case['data'])):
        return 'outside'
    key = 'build:' + json.dumps(case, sort_keys=True)

    def fail(what):
        ctx.report_failure(key, 'build_xml_tag(%r, %r, %r, %r, %r) = %r: %s'
                           % (case['tag'], case['attrs'], case['data'], case['self_indent'], case['indent_char'],
                              out, what), {'kind': 'build', 'case': case})
        return 'FAIL'
    if not isinstance(out, str):
        return fail('the real function failed on input inside the quantifier')
    try:
        _decl, got = expat_events(out.encode('utf-8'))
    except expat.ExpatError as e:
        return fail('not well-formed (%s)' % e)
    want = [('start', case['tag'], present)]
    if case['data'] is not None:
        want.append(('text', case['data'], 'exact'))
    want.append(('end', case['tag']))
    diff = compare_events(want, got)
    if diff:
        return fail(diff)
    return 'wrapped' if '\n ' in out.replace('&#10;', '') and len(present) > 1 and '\n' in out.split('>')[0] else 'flat'


# ------------------------------------------------------------------ generators
GIR_NAMES = ['repository', 'namespace', 'class', 'method', 'parameters', 'parameter', 'type', 'return-value',
             'doc', 'member', 'enumeration', 'field', 'array', 'c:include', 'glib:signal', 'a', 'x', 'record',
             'constructor', 'function', 'callback', 'union', 'bitfield', 'alias', 'constant', 'property',
             'instance-parameter', 'varargs', 'implements', 'prerequisite', 'package', 'include', 'élément',
             'Ω', '_', ':', 'a.b-c', 'n0', 'very-long-element-name-that-takes-space']
GIR_ATTRS = ['name', 'c:type', 'c:identifier', 'glib:nick', 'value', 'version', 'shared-library',
             'c:identifier-prefixes', 'c:symbol-prefixes', 'transfer-ownership', 'direction', 'caller-allocates',
             'nullable', 'allow-none', 'scope', 'closure', 'destroy', 'introspectable', 'deprecated',
             'deprecated-version', 'glib:type-name', 'glib:get-type', 'parent', 'glib:type-struct', 'abstract',
             'writable', 'readable', 'construct', 'construct-only', 'when', 'throws', 'moved-to', 'shadows',
             'shadowed-by', 'zero-terminated', 'fixed-size', 'length', 'xml:space', 'filename', 'line', 'column',
             'stability', 'private', 'bits', 'disguised', 'foreign', 'glib:is-gtype-struct-for', 'a', 'b',
             'ключ', 'é', 'x1', 'x2', 'x3']
BAD_NAMES = ['', 'a b', 'a=b', 'a>b', 'a/b', '1a', '-a', 'a"b', "a'b", 'a<b', 'a&b', 'a\tb', 'a\nb', '.x', 'a\x0bb']
PIECES = ['"', "'", '&', '<', '>', '\n', '\t', '\r', '\r\n', ' ', '  ', '&amp;', '&lt;', '&#10;', '&#x41;', '&quot;',
          ']]>', '<![CDATA[', '-->', '--', '<!--', '</', '/>', '=', '%s', '%', '\\', '\\n', 'é', 'ü', '中文', '😀',
          '\U0001F600', '\U00010000', '\U0010FFFD', '�', '퟿', '', '\x7f', '\x85', ' ', '\xa0',
          'const GSList*', 'GLib.SList', 'utf8', 'gint', 'gtk_widget_show', 'a', 'b', 'foo', 'bar', '0', '1',
          'none', 'full', 'GTK_ANCHOR_WEST', 'the quick brown fox ', 'x' * 10, '-', '- ', ' -', '?>', '<?', '<?xml',
          '"\'', '\'"', '""', "''", '\n\n', '\t\t', ' \n ']
NONXML = ['\x00', '\x01', '\x04', '\x08', '\x0b', '\x0c', '\x0e', '\x1c', '\x1f', '￾', '￿']


def gen_string(rng, allow_nonxml=True):
    r = rng.random()
    if r < 0.08:
        return ''
    if r < 0.3:
        return rng.choice(PIECES)
    n = rng.choice([1, 2, 2, 3, 3, 4, 5, 6, 8, 12])
    parts = [rng.choice(PIECES) for _ in range(n)]
    if allow_nonxml and getattr(rng, 'dirty', True) and rng.random() < 0.15:
        parts.insert(rng.randint(0, len(parts)), rng.choice(NONXML))
    return ''.join(parts)


def gen_name(rng, pool):
    r = rng.random()
    if r < 0.9:
        return rng.choice(pool)
    if r < 0.97 or not getattr(rng, 'dirty', True):
        return rng.choice('abcXYZ_:éΩ') + ''.join(rng.choice('abcXYZ_:-.09éΩ') for _ in range(rng.randint(0, 7)))
    return rng.choice(BAD_NAMES + ['-a.b', '9', '.'])


def quoted_len(v):
    from xml.sax.saxutils import quoteattr
    return len(quoteattr(v))


def gen_attrs(rng, maxn=40, straddle=None):
    """straddle = (fixed, self_indent): tune the last value so that _calc_attrs_length lands on
    78..81 (around the 79-column rule)"""
    r = rng.random()
    if r < 0.12:
        n = 0
    elif r < 0.75:
        n = rng.randint(1, 5)
    elif r < 0.95:
        n = rng.randint(6, 15)
    else:
        n = rng.randint(16, max(16, maxn))
    n = min(n, maxn)
    names = list(GIR_ATTRS)
    rng.shuffle(names)
    attrs = []
    for i in range(n):
        k = names[i % len(names)] if rng.random() < 0.97 else gen_name(rng, GIR_ATTRS)
        if i >= len(names):
            k = k + str(i)
        if rng.random() < 0.1:
            v = None
        else:
            v = gen_string(rng)
        attrs.append([k, v])
    if getattr(rng, 'dirty', True) and rng.random() < 0.1 and attrs:
        attrs.append(list(rng.choice(attrs)))         # duplicate name: outside, still compared with the model
    if straddle is not None and attrs and rng.random() < 0.6:
        fixed, self_indent = straddle
        target = rng.choice([77, 78, 79, 79, 80, 80, 81])
        idx = max(i for i in range(len(attrs)))
        others = sum(2 + len(k) + quoted_len(v) for i, (k, v) in enumerate(attrs) if v is not None and i != idx)
        k = attrs[idx][0]
        room = target - fixed - self_indent - others - 2 - len(k) - 2
        if room >= 0:
            attrs[idx][1] = ''.join(rng.choice('abcdefgh .*_') for _ in range(room))
    return attrs


def gen_stmt_tag(rng, indent):
    name = gen_name(rng, GIR_NAMES)
    data = None if rng.random() < 0.5 else gen_string(rng)
    fixed = 1 + len(name) + (2 if data is None else 0)
    if data is not None:
        from xml.sax.saxutils import escape
        fixed = 1 + len(name) + 1 + len(escape(data)) + 2 + len(name) + 1
    attrs = gen_attrs(rng, straddle=(fixed, indent))
    return ['tag', name, attrs, data]


def gen_body(rng, depth, maxdepth, structured):
    """statements of one block at nesting `depth` (indent = 2*depth while the code is balanced)"""
    stmts = []
    n = rng.choice([0, 1, 1, 2, 2, 3, 4, 6])
    for _ in range(n):
        r = rng.random()
        if r < 0.38:
            stmts.append(gen_stmt_tag(rng, 2 * depth))
        elif r < 0.62 and depth < maxdepth:
            name = gen_name(rng, GIR_NAMES)
            attrs = gen_attrs(rng, straddle=(len(name) + 2, 2 * depth))
            stmts.append(['ctx', name, attrs, gen_body(rng, depth + 1, maxdepth, structured)])
        elif r < 0.72 and depth < maxdepth:
            name = gen_name(rng, GIR_NAMES)
            attrs = gen_attrs(rng, straddle=(len(name) + 2, 2 * depth))
            stmts.append(['push', name, attrs])
            stmts.extend(gen_body(rng, depth + 1, maxdepth, structured))
            stmts.append(['pop'])
        elif r < 0.80:
            t = gen_string(rng)
            if not rng.dirty or rng.random() < 0.5:
                t = t.replace('--', '- -')
            stmts.append(['comment', t])
        elif r < 0.87:
            t, esc = gen_string(rng), rng.random() < 0.85
            if not esc and not rng.dirty:
                t = t.replace('<', '(').replace('&', '+').replace(']]>', ']]')
            stmts.append(['line', t, rng.random() < 0.8, esc])
        elif r < 0.91:
            stmts.append(['ws', rng.random() < 0.5])
        elif r < 0.95:
            if depth > 0 or rng.random() < 0.3:
                stmts.append(['raise'])
        elif not structured:
            stmts.append(rng.choice([['pop'], ['push', gen_name(rng, GIR_NAMES), gen_attrs(rng, 4)]]))
    return stmts


def gen_spine(rng, depth, inner):
    """`depth` nested blocks around `inner`, some as tagcontext, some as push/pop"""
    body = inner
    for d in range(depth, 0, -1):
        name = gen_name(rng, GIR_NAMES[:31])
        attrs = gen_attrs(rng, 12, straddle=(len(name) + 2, 2 * (d - 1)))
        pre = [gen_stmt_tag(rng, 2 * d)] if rng.random() < 0.3 else []
        if rng.random() < 0.7:
            body = [['ctx', name, attrs, pre + body]]
        else:
            body = [['push', name, attrs]] + pre + body + [['pop']]
    return body


def gen_prog(rng):
    r = rng.random()
    rng.dirty = rng.random() < 0.12        # 12% of the cases may step outside the quantifier
    structured = rng.random() < 0.9
    maxdepth = rng.choice([1, 2, 3, 4, 6, 12])
    if r < 0.15:
        depth = rng.randint(3, 12)
        inner = gen_body(rng, depth, depth + 1, structured)
        if rng.random() < 0.4:
            inner.append(['raise'])
        body = gen_spine(rng, depth, inner)
    elif r < 0.8:
        root = gen_name(rng, GIR_NAMES[:31])
        body = [['ctx', root, gen_attrs(rng, straddle=(len(root) + 2, 0)), gen_body(rng, 1, maxdepth, structured)]]
        if rng.random() < 0.3:
            body = [['comment', 'generated ' + gen_string(rng, False).replace('--', '')]] + body
        if rng.random() < 0.1:
            body.append(['comment', 'end'])
    elif r < 0.88:
        body = [gen_stmt_tag(rng, 0)]
    else:
        body = gen_body(rng, 0, maxdepth, structured)
    if rng.random() < 0.12:
        body = [['ws', False]] + body
    return body


def gen_build_case(rng):
    rng.dirty = rng.random() < 0.12
    name = gen_name(rng, GIR_NAMES)
    data = None if rng.random() < 0.5 else gen_string(rng)
    self_indent = rng.choice([0, 0, 2, 4, 6, 8, 12, 16, 24, 40, 70, 78, 79, 80, 100])
    if rng.random() < 0.03:
        self_indent = rng.choice([-1, -2, -5, -len(name) - 1, -len(name) - 2])
    from xml.sax.saxutils import escape
    fixed = 1 + len(name) + (2 if data is None else 1 + len(escape(data)) + 2 + len(name) + 1)
    attrs = gen_attrs(rng, straddle=(fixed, self_indent))
    ic = rng.choice([' ', ' ', ' ', '', '\t', '  '])
    return {'tag': name, 'attrs': attrs, 'data': data, 'self_indent': self_indent, 'indent_char': ic}


# ------------------------------------------------------------------ running the real code
def impl_exec(w, body, boom=Boom):
    for st in body:
        k = st[0]
        if k == 'push':
            w.push_tag(st[1], [tuple(a) for a in st[2]])
        elif k == 'pop':
            w.pop_tag()
        elif k == 'tag':
            w.write_tag(st[1], [tuple(a) for a in st[2]], st[3])
        elif k == 'comment':
            w.write_comment(st[1])
        elif k == 'line':
            w.write_line(st[1], st[2], st[3])
        elif k == 'ws':
            if st[1]:
                w.enable_whitespace()
            else:
                w.disable_whitespace()
        elif k == 'raise':
            raise boom()
        elif k == 'ctx':
            with w.tagcontext(st[1], [tuple(a) for a in st[2]]):
                impl_exec(w, st[3], boom)
        else:
            raise ValueError(k)


PRIVATE_MISSING = []      # private attributes of /repo's XMLWriter the harness could not use (reported once)


def _private(w, attr):
    """read a PRIVATE attribute of the real writer; None (and a note) when it no longer exists"""
    try:
        return getattr(w, attr)
    except AttributeError:
        if attr not in PRIVATE_MISSING:
            PRIVATE_MISSING.append(attr)
        return None


def impl_run(xw, prog):
    """Run the writing code against the real XMLWriter through its PUBLIC methods.  The private
    `_tag_stack` / `_indent` are read for the correspondence only, guarded."""
    try:
        w = xw.XMLWriter()
    except Exception as e:  # noqa
        return {'error': 'XMLWriter() raised %r' % (e,), 'xml': '', 'stack': None, 'indent': None, 'raised': True,
                'utf8': ''}
    raised = False
    error = None
    # which kind of exception the writing code raises varies with the program (deterministically)
    boom = RAISE_KINDS[len(json.dumps(prog)) % len(RAISE_KINDS)]
    try:
        impl_exec(w, prog, boom)
    except (Boom, BoomBase, SystemExit, KeyboardInterrupt, GeneratorExit, IndexError):
        raised = True
    except Exception as e:  # noqa  -- the writer itself failed on this input
        raised = True
        error = '%s: %s' % (type(e).__name__, e)
    stack = _private(w, '_tag_stack')
    res = {'xml': w.get_xml(), 'stack': None if stack is None else list(stack), 'indent': _private(w, '_indent'),
           'raised': raised}
    try:
        res['utf8'] = w.get_encoded_xml().hex()
    except Exception as e:  # noqa
        res['utf8'] = ''
        error = error or 'get_encoded_xml raised %s: %s' % (type(e).__name__, e)
    if error:
        res['error'] = error
        return res
    # elements the caller left open (push_tag without pop_tag): for the parse-back oracle only, finish the
    # document the way the caller has to (public pop_tag until the stack is empty)
    before = res['xml']
    try:
        for _ in range(10000):
            if stack is not None and not stack:
                break
            w.pop_tag()
    except IndexError:
        pass
    except Exception as e:  # noqa
        res['error'] = 'pop_tag raised %s: %s' % (type(e).__name__, e)
    after = w.get_xml()
    if after != before:
        res['closed'] = after
    return res


def impl_build(xw, c, rng=None):
    data = c['data']
    if rng is not None and data is not None and rng.random() < 0.05:
        data = data.encode('utf-8')          # bytes are accepted and decoded as UTF-8
    try:
        return xw.build_xml_tag(c['tag'], [tuple(a) for a in c['attrs']], data, c['self_indent'], c['indent_char'])
    except Exception as e:  # noqa
        return ImplError('build_xml_tag raised %s: %s' % (type(e).__name__, e))


class ImplError(object):
    """the real function raised / no longer exists: never equal to a model answer"""

    def __init__(self, what):
        self.what = what

    def __repr__(self):
        return '<%s>' % self.what

    def __eq__(self, other):
        return False

    def __ne__(self, other):
        return True

    __hash__ = None


def guarded(ctx, opname, xw, fname, *args):
    """call a module-level function of /repo's xmlwriter for the correspondence; a function that no
    longer exists or whose signature changed is reported in ctx.broken (once), never a harness error"""
    f = getattr(xw, fname, None)
    if f is None:
        msg = 'correspondence %s: %s no longer exists in giscanner/xmlwriter.py' % (opname, fname)
        if msg not in ctx.broken:
            ctx.broken.append(msg)
        return ImplError(fname + ' missing')
    try:
        return f(*args)
    except TypeError as e:
        msg = 'correspondence %s: %s has changed (%s)' % (opname, fname, e)
        if not any(b.startswith('correspondence %s: %s has changed' % (opname, fname)) for b in ctx.broken):
            ctx.broken.append(msg)
        return ImplError('%s: %s' % (fname, e))
    except Exception as e:  # noqa
        return ImplError('%s raised %s: %s' % (fname, type(e).__name__, e))


def prog_mutants(prog, rng):
    """one-edit neighbours: a statement dropped (at any depth), an attribute dropped"""
    out = []

    def walk(body, rebuild):
        for i, st in enumerate(body):
            out.append(rebuild(body[:i] + body[i + 1:]))
            if st[0] in ('push', 'tag', 'ctx'):
                for j in range(len(st[2])):
                    st2 = list(st)
                    st2[2] = st[2][:j] + st[2][j + 1:]
                    out.append(rebuild(body[:i] + [st2] + body[i + 1:]))
            if st[0] == 'ctx':
                def rb(nb, i=i, st=st, body=body, rebuild=rebuild):
                    return rebuild(body[:i] + [[st[0], st[1], st[2], nb]] + body[i + 1:])
                walk(st[3], rb)
    walk(prog, lambda b: b)
    rng.shuffle(out)
    return out[:150]


def count_stmts(prog):
    n = 0
    depth = 0
    for st in prog:
        n += 1
        if st[0] == 'ctx':
            m, d = count_stmts(st[3])
            n += m
            depth = max(depth, d + 1)
    return n, depth


def load_corpus():
    corpus = []
    cpath = os.path.join(os.path.dirname(os.path.dirname(os.path.abspath(__file__))), 'corpus', 'C20')
    if os.path.isdir(cpath):
        for fn in sorted(os.listdir(cpath)):
            if fn.endswith('.json'):
                with open(os.path.join(cpath, fn), encoding='utf-8') as f:
                    corpus.extend(json.load(f))
    return corpus


def expat_to_items(got):
    """expat events in the shape of the driver's c20.read answer"""
    out = []
    i = 0
    while i < len(got):
        e = got[i]
        if e[0] == 'start':
            if i + 1 < len(got) and got[i + 1] == ('end', e[1]):
                out.append(['element', e[1], [list(p) for p in e[2]]])
                i += 2
                continue
            out.append(['start', e[1], [list(p) for p in e[2]]])
        elif e[0] == 'end':
            out.append(['close', e[1]])
        elif e[0] == 'text':
            out.append(['text', e[1]])
        else:
            out.append(['comment', e[1]])
        i += 1
    return out


def spec_items_norm(items):
    """driver items: `<a/>` and `<a></a>` are the same element for expat"""
    out = []
    i = 0
    depth = 0
    while i < len(items):
        e = items[i]
        if e[0] == 'empty':
            out.append(['element', e[1], e[2]])
        elif e[0] == 'start' and i + 1 < len(items) and items[i + 1] == ['close', e[1]]:
            out.append(['element', e[1], e[2]])
            i += 1
        elif e[0] == 'text' and depth == 0 and not strip_all_ws(e[1]):
            pass                                   # white space outside the root element is not reported by expat
        else:
            if e[0] == 'start':
                depth += 1
            elif e[0] == 'close':
                depth -= 1
            out.append(e)
        i += 1
    return out


# ------------------------------------------------------------------ the check
def run(ctx):
    cnt = Counter()
    ctx.prove(['gen_xmlwriter'], ['GIVerif.Props.C20'], 'GIVerif.Props.C20')
    try:
        xw = impl_setup()
    except Exception as e:  # noqa  -- the module under verification cannot even be imported
        ctx.report_failure('import:giscanner.xmlwriter', 'giscanner/xmlwriter.py cannot be imported (%s: %s): no document '
                           'can be written at all' % (type(e).__name__, e), {'kind': 'import'})
        ctx.coverage.update({'evaluations': 1, 'distinct_nontrivial': 0, 'samples': [{'op': 'import'}],
                             'rule': 'import of giscanner.xmlwriter failed; nothing else could be run'})
        return
    from xml.sax import saxutils
    rng = ctx.rng
    corpus = load_corpus()
    samples = []
    CHUNK = 4000
    nbroken = {'n': 0}

    def broken(msg):
        """at most 3 messages per kind (the kind is the text up to the first ':')"""
        kind = msg.split(':', 1)[0]
        nbroken[kind] = nbroken.get(kind, 0) + 1
        if nbroken[kind] <= 3:
            ctx.broken.append(msg)

    # ---- (a) escape / quoteattr
    def phase_strings(strings):
        m_esc = ctx.driver.batch([{'op': 'c20.escape', 's': s} for s in strings])
        m_qa = ctx.driver.batch([{'op': 'c20.quoteattr', 's': s} for s in strings])
        m_rd = ctx.driver.batch([{'op': 'c20.readattr', 'xml': saxutils.quoteattr(s) + '>rest'} for s in strings])
        for s, me, mq, mr in zip(strings, m_esc, m_qa, m_rd):
            ie, iq = saxutils.escape(s), saxutils.quoteattr(s)
            cnt.case(['s', s], nontrivial=any(c in s for c in '"\'&<>\n\t\r'))
            cnt.hit('quoteattr:' + ('both' if '"' in s and "'" in s else 'dq' if '"' in s else 'plain'))
            if ie != me or iq != mq:
                broken('correspondence c20.escape/quoteattr differs: s=%r impl=%r/%r model=%r/%r' % (s, ie, iq, me, mq))
            # oracle: an attribute written with quoteattr parses back to the value (expat, independent of the model)
            if xml_str(s):
                try:
                    _d, got = expat_events(('<a v=%s>%s</a>' % (iq, ie)).encode('utf-8'))
                    want = [('start', 'a', [('v', s)]), ('text', s, 'exact'), ('end', 'a')]
                    diff = compare_events(want, got)
                except expat.ExpatError as e:
                    diff = 'not well-formed: %s' % e
                if diff:
                    ctx.report_failure('string:' + json.dumps(s), 'escape/quoteattr of %r does not parse back: %s'
                                       % (s, diff), {'kind': 'string', 's': s})
                # the specification reader agrees with expat on the real quoteattr output
                if mr is None or mr['value'] != s or mr['rest'] != '>rest':
                    broken('Spec reader c20.readattr on real quoteattr(%r) gives: %r' % (s, mr))
            else:
                cnt.hit('string:outside')

    n_str = ctx.n(4000, 150000)
    strings = [c['s'] for c in corpus if c.get('kind') == 'string']
    rng.dirty = True
    done = 0
    while done < n_str:
        while len(strings) < min(CHUNK, n_str - done):
            strings.append(gen_string(rng))
        phase_strings(strings)
        done += len(strings)
        last_string = strings[-1]
        strings = []
    n_str = done
    samples.append({'op': 'quoteattr', 's': last_string})
    ctx.log('strings done: %d' % n_str)

    # ---- (b) _calc_attrs_length / collect_attributes / build_xml_tag
    bad_builds = []

    def phase_builds(builds):
        reqs = []
        for c in builds:
            pre = 1 + len(c['tag'])
            reqs.append({'op': 'c20.build', **c})
            reqs.append({'op': 'c20.collect', 'tag': c['tag'], 'attrs': c['attrs'], 'self_indent': c['self_indent'],
                         'indent_char': c['indent_char'], 'indent': pre + 2})
            reqs.append({'op': 'c20.collect', 'tag': c['tag'], 'attrs': c['attrs'], 'self_indent': c['self_indent'],
                         'indent_char': c['indent_char'], 'indent': -1})
            reqs.append({'op': 'c20.calc', 'attrs': c['attrs'], 'self_indent': c['self_indent'], 'indent': pre + 2})
        res = ctx.driver.batch(reqs)
        readtag_reqs = []
        readtag_cases = []
        for i, c in enumerate(builds):
            mb, mc, mc1, ml = res[4 * i:4 * i + 4]
            at = [tuple(a) for a in c['attrs']]
            pre = 1 + len(c['tag'])
            ib = impl_build(xw, c, rng)
            ic = guarded(ctx, 'c20.collect', xw, 'collect_attributes', c['tag'], at, c['self_indent'], c['indent_char'],
                         pre + 2)
            ic1 = guarded(ctx, 'c20.collect', xw, 'collect_attributes', c['tag'], at, c['self_indent'],
                          c['indent_char'])
            il = guarded(ctx, 'c20.calc', xw, '_calc_attrs_length', at, pre + 2, c['self_indent'])
            if (ib, ic, ic1, il) != (mb, mc, mc1, ml):
                bad_builds.append(c)
                broken('correspondence c20.build/collect/calc differs: case=%r impl=%r model=%r'
                       % (c, (ib, ic, ic1, il), (mb, mc, mc1, ml)))
            v = oracle_build(ctx, c, ib)
            cnt.hit('build:' + v)
            if isinstance(il, int):
                cnt.hit('build:len%s79' % ('>' if il > 79 else '=' if il == 79 else '<'))
            cnt.hit('build:nattrs=%s' % (len(at) if len(at) < 6 else '6-15' if len(at) < 16 else '16+'))
            if any(v is None for _k, v in at):
                cnt.hit('build:has-None')
            cnt.case(['b', c], nontrivial=bool(at))
            if v in ('flat', 'wrapped') and isinstance(ib, str):
                readtag_reqs.append({'op': 'c20.readtag', 'xml': ib + '<next/>'})
                readtag_cases.append((c, ib))
        # the specification reader on the real build_xml_tag output (inside the quantifier): the statement's answer
        for (c, ib), mr in zip(readtag_cases, ctx.driver.batch(readtag_reqs)):
            want_attrs = [[k, v] for k, v in c['attrs'] if v is not None]
            data = c['data']
            ok = mr is not None and mr['name'] == c['tag'] and mr['attrs'] == want_attrs and mr['rest'] == '<next/>' \
                and (mr['data'] == data or (data is not None and '\r' in data and mr['data'] == norm_cr(data)))
            if not ok:
                broken('Spec reader c20.readtag on real build_xml_tag output %r gives: %r' % (ib, mr))

    n_build = ctx.n(5000, 200000)
    builds = [c['case'] for c in corpus if c.get('kind') == 'build']
    done = 0
    while done < n_build:
        while len(builds) < min(CHUNK, n_build - done):
            builds.append(gen_build_case(rng))
        phase_builds(builds)
        done += len(builds)
        last_build = builds[-1]
        builds = []
    n_build = done
    samples.append({'op': 'build', 'case': last_build})
    ctx.log('build_xml_tag cases done: %d' % n_build)
    for c in bad_builds[:5]:                     # failing-input search around a disagreement
        for j in range(len(c['attrs'])):
            c2 = dict(c, attrs=c['attrs'][:j] + c['attrs'][j + 1:])
            oracle_build(ctx, c2, impl_build(xw, c2))
            cnt.hit('search:mutant')
        for si in (0, 2, 20, 60, 78):
            c2 = dict(c, self_indent=si)
            oracle_build(ctx, c2, impl_build(xw, c2))
            cnt.hit('search:mutant')

    # ---- (c) writing code against XMLWriter
    disagree = []
    stats = {'maxdepth': 0}

    def phase_progs(progs):
        model = ctx.driver.batch([{'op': 'c20.run', 'prog': p} for p in progs])
        reads = []
        for p, m in zip(progs, model):
            impl = impl_run(xw, p)
            m2 = {k: m[k] for k in ('xml', 'stack', 'indent', 'raised', 'utf8')
                  if not (k in ('stack', 'indent') and impl[k] is None and not impl.get('error'))}
            if {k: impl[k] for k in m2} != m2 or impl.get('error'):
                disagree.append(p)
                diffk = [k for k in m2 if impl[k] != m2[k]]
                broken('correspondence c20.run differs in %s: prog=%s impl=%r model=%r'
                       % (diffk, json.dumps(p)[:500], {k: impl[k] for k in diffk + ['error'] if k != 'utf8' and k in impl},
                          {k: m2[k] for k in diffk if k != 'utf8'}))
            v = oracle_prog(ctx, p, impl, cnt, reads)
            nst, d = count_stmts(p)
            stats['maxdepth'] = max(stats['maxdepth'], d)
            cnt.hit('prog:' + v)
            cnt.hit('prog:raised=%s' % impl['raised'])
            cnt.hit('prog:depth=%s' % (d if d < 4 else '4-7' if d < 8 else '8+'))
            if '\n ' not in impl['xml'] and len(impl['xml']) > 60:
                cnt.hit('prog:whitespace-off')
            cnt.case(['p', p], nontrivial=nst >= 2)
        # the specification reader vs expat on the real documents
        rd = ctx.driver.batch([{'op': 'c20.read', 'xml': x} for x, _g in reads])
        for (x, got), r in zip(reads, rd):
            if r is None or not r['wf'] or spec_items_norm(r['items']) != expat_to_items(got):
                broken('Spec reader c20.read disagrees with expat on real output: %r: %r vs %r'
                       % (x[:300], r and spec_items_norm(r['items'])[:12], expat_to_items(got)[:12]))
            cnt.hit('specreader-vs-expat')

    n_prog = ctx.n(3000, 120000)
    progs = [c['prog'] for c in corpus if c.get('kind') == 'prog']
    done = 0
    while done < n_prog:
        while len(progs) < min(CHUNK, n_prog - done):
            progs.append(gen_prog(rng))
        phase_progs(progs)
        done += len(progs)
        last_prog = progs[-1]
        progs = []
    n_prog = done
    maxdepth = stats['maxdepth']
    samples.append({'op': 'run', 'prog': last_prog})
    ctx.log('writing-code cases done: %d' % n_prog)
    for attr in PRIVATE_MISSING:
        ctx.broken.append('correspondence c20.run: private attribute XMLWriter.%s no longer exists; compared through '
                          'get_xml()/get_encoded_xml() and the propagating exception only' % attr)
    del PRIVATE_MISSING[:]
    for p in disagree[:5]:                       # failing-input search around a disagreement
        for mp in prog_mutants(p, rng):
            oracle_prog(ctx, mp, impl_run(xw, mp))
            cnt.hit('search:mutant')

    ctx.coverage.update({
        'evaluations': n_str + n_build + n_prog + cnt.counts.get('search:mutant', 0),
        'distinct_nontrivial': cnt.n_distinct(),
        'rule': 'seeded generators: strings assembled from quotes, & < >, newline/tab/CR, entity look-alikes, ]]>, --, '
                'non-BMP and boundary code points (12%% of the cases may contain non-XML characters, non-Names, duplicate attribute names, "--" in comments or raw markup: classified outside); attribute lists of '
                '0..40 pairs from the GIR attribute vocabulary with None values, the last value padded so that '
                '_calc_attrs_length lands on 77..81; build_xml_tag at self_indent 0..100 (and negative) with indent '
                'chars " ", "", tab; writing code = nested tagcontext / push..pop / write_tag / comment / write_line / '
                'whitespace toggles / raise, depth up to 12 (max seen %d), 10%% with stray push/pop. non-trivial = string '
                'has a character that needs escaping / attribute list non-empty / at least 2 statements; distinct by '
                'content hash. Every case: model vs real code byte for byte, and the statement oracle (expat parse-back '
                'of the real output compared with what was written).' % maxdepth,
        'samples': samples,
        'distribution': cnt.counts,
        'corpus_cases': len(corpus),
        'exhaustive': False,
    })
    ctx.assumptions.extend([
        'XML names are judged on a conservative alphabet accepted by both expat (XML 1.0 4th edition tables) and the '
        '5th-edition ranges of Spec/Xml.lean; other names are classified outside and only compared with the model',
        'characters outside the XML 1.0 Char production, duplicate attribute names, comment text containing "--", raw '
        'markup passed with do_escape=False and pop_tag on an empty stack are outside the quantifier (not judged)',
        'free-standing write_line text is compared modulo white space (the writer indents it by design); element text '
        'of write_tag is compared exactly, carriage returns excepted as in the statement',
        'bytes arguments (decoded as UTF-8 by the real code) are passed to the real code only; the model takes str',
        'the specification reader of Spec/Xml.lean is compared with expat on every in-quantifier real output',
    ])


def replay(ctx, rep):
    try:
        xw = impl_setup()
    except Exception as e:  # noqa
        print('FAILS: giscanner/xmlwriter.py cannot be imported: %r' % (e,))
        return 1
    r = rep['replay']
    if r['kind'] == 'prog':
        impl = impl_run(xw, r['prog'])
        print('real output: %r' % impl['xml'])
        print('verdict: %s' % oracle_prog(ctx, r['prog'], impl))
    elif r['kind'] == 'build':
        out = impl_build(xw, r['case'])
        print('real output: %r' % out)
        print('verdict: %s' % oracle_build(ctx, r['case'], out))
    elif r['kind'] == 'string':
        from xml.sax import saxutils
        print('escape=%r quoteattr=%r' % (saxutils.escape(r['s']), saxutils.quoteattr(r['s'])))
        try:
            _d, got = expat_events(('<a v=%s>%s</a>' % (saxutils.quoteattr(r['s']), saxutils.escape(r['s']))).encode('utf-8'))
            diff = compare_events([('start', 'a', [('v', r['s'])]), ('text', r['s'], 'exact'), ('end', 'a')], got)
        except expat.ExpatError as e:
            diff = str(e)
        if diff:
            ctx.report_failure('string:' + json.dumps(r['s']), diff, r)
    elif r['kind'] == 'import':
        print('import of giscanner.xmlwriter: ok')
    else:
        return 2
    for v in ctx.violations:
        print('FAILS: ' + v['what'][:500])
    return 1 if ctx.violations else 0
