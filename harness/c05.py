"""C05 — Everything left introspectable is bindable and every reference resolves.

Proof: lean/GIVerif/Props/C05.lean over the model lean/GIVerif/Model/Introspectable.lean
(IntrospectablePass.validate with its fixed-point loop, the writer's index computations);
the property itself is the executable `girWellFormed` of lean/GIVerif/Spec/GirWF.lean.

Tie / search:
 (1) generated namespaces (unresolved, foreign, skipped, exotic types; reference chains through
     aliases / callbacks / record fields in all declaration orders; callbacks with and without
     scope; lists / arrays with and without element types; rename-to pairs; classes with type
     structs, vfuncs, invokers and property accessors from a supplied dump) run through the REAL
     pipeline (scanpipe); the emitted GIR is converted 1:1 to a tree and `girWellFormed` is
     evaluated on it by the Lean driver: THAT is the property check.  The real introspectable /
     skip flags, the accessor names left by the property analysis and the number of loop rounds
     are compared with the pass model (correspondence).
 (2) `girWellFormed` on every GIR file shipped or expected in the repository.
 (3) the writer's closure / destroy / length indices against the model (public GIRWriter only).
"""
import copy
import glob
import hashlib
import itertools
import json
import os
import re
import sys
import time
from xml.etree import ElementTree as ET

from core import REPO, Counter, VERIF
import scanpipe
from scanpipe import T, P

# Genuine defects of the unchanged tree found by this check and not (yet) repaired; each is routed
# through ctx.report_failure with exactly this key (any other failure is still a VIOLATION).
#
# The findings this check produced were all repaired in /repo and pass without
# suppression (re-validated against HEAD through the corpus witnesses, which run first):
#   gen:varargs:skipped-parameter                                   1110ea5  corpus varargs-skip
#   gen:field-callback-non-introspectable:skip-propagated-callback  efccda4  corpus field-callback-skip-propagated
#   gen:shadowed-by-not-mutual:rename-to-chain                      9b2e314  corpus rename-to-chain
#   gen:get-property-mismatch:several-getter-candidates             a10e011  corpus class-two-getter-candidates
#   shipped:gir/freetype2-2.0.gir:...alias[Int32]...                e90adbd  (shipped files are all judged)
#   gen:getter-mismatch:getter-claimed-for-another-property /
#   gen:get-property-mismatch:getter-of-another-property           9e81059  corpus property-is-active-before-active
#   gen:invoker-not-a-method:virtual-annotation-on-constructor-or-function
#                                                                   9b727dd  corpus virtual-annotation-on-constructor-and-static-function
# The keys above are still what `classify` produces should one of them come back.
PENDING_FINDINGS = {}

EXEMPT = ('GLib.DestroyNotify', 'Gio.AsyncReadyCallback')

# ------------------------------------------------------------------ include stubs
_HDR = ('<?xml version="1.0"?>\n<repository version="1.2" xmlns="http://www.gtk.org/introspection/core/1.0" '
        'xmlns:c="http://www.gtk.org/introspection/c/1.0" xmlns:glib="http://www.gtk.org/introspection/glib/1.0">\n')
_VOIDRET = '<return-value transfer-ownership="none"><type name="none" c:type="void"/></return-value>'
STUBS = {
    'GLib-2.0.gir': _HDR + '''<namespace name="GLib" version="2.0" c:identifier-prefixes="G" c:symbol-prefixes="g,glib">
<alias name="Quark" c:type="GQuark"><type name="guint32" c:type="guint32"/></alias>
<callback name="DestroyNotify" c:type="GDestroyNotify">%(v)s<parameters><parameter name="data" transfer-ownership="none" nullable="1" allow-none="1"><type name="gpointer" c:type="gpointer"/></parameter></parameters></callback>
<callback name="Func" c:type="GFunc">%(v)s<parameters><parameter name="data" transfer-ownership="none"><type name="gpointer" c:type="gpointer"/></parameter><parameter name="user_data" transfer-ownership="none" closure="1"><type name="gpointer" c:type="gpointer"/></parameter></parameters></callback>
<record name="List" c:type="GList"/>
<record name="SList" c:type="GSList"/>
<record name="HashTable" c:type="GHashTable" glib:type-name="GHashTable" glib:get-type="g_hash_table_get_type" c:symbol-prefix="hash_table"/>
<record name="Error" c:type="GError" glib:type-name="GError" glib:get-type="g_error_get_type" c:symbol-prefix="error"/>
<record name="Bytes" c:type="GBytes" glib:type-name="GBytes" glib:get-type="g_bytes_get_type" c:symbol-prefix="bytes"/>
<record name="Variant" c:type="GVariant"/>
</namespace></repository>''' % {'v': _VOIDRET},
    'GObject-2.0.gir': _HDR + '''<include name="GLib" version="2.0"/>
<namespace name="GObject" version="2.0" c:identifier-prefixes="G" c:symbol-prefixes="g">
<callback name="Callback" c:type="GCallback">%(v)s</callback>
<class name="Object" c:symbol-prefix="object" c:type="GObject" glib:type-name="GObject" glib:get-type="g_object_get_type" glib:type-struct="ObjectClass"/>
<record name="ObjectClass" c:type="GObjectClass" glib:is-gtype-struct-for="Object"/>
<class name="InitiallyUnowned" c:symbol-prefix="initially_unowned" c:type="GInitiallyUnowned" parent="Object" glib:type-name="GInitiallyUnowned" glib:get-type="g_initially_unowned_get_type"/>
<record name="TypeInterface" c:type="GTypeInterface"/>
<record name="Value" c:type="GValue" glib:type-name="GValue" glib:get-type="g_value_get_type" c:symbol-prefix="value"/>
</namespace></repository>''' % {'v': _VOIDRET},
    'Gio-2.0.gir': _HDR + '''<include name="GObject" version="2.0"/>
<namespace name="Gio" version="2.0" c:identifier-prefixes="G" c:symbol-prefixes="g">
<interface name="AsyncResult" c:symbol-prefix="async_result" c:type="GAsyncResult" glib:type-name="GAsyncResult" glib:get-type="g_async_result_get_type"/>
<class name="Cancellable" c:symbol-prefix="cancellable" c:type="GCancellable" parent="GObject.Object" glib:type-name="GCancellable" glib:get-type="g_cancellable_get_type"/>
<callback name="AsyncReadyCallback" c:type="GAsyncReadyCallback">%(v)s<parameters><parameter name="source_object" transfer-ownership="none" nullable="1" allow-none="1"><type name="GObject.Object" c:type="GObject*"/></parameter><parameter name="res" transfer-ownership="none"><type name="AsyncResult" c:type="GAsyncResult*"/></parameter><parameter name="data" transfer-ownership="none" nullable="1" allow-none="1" closure="2"><type name="gpointer" c:type="gpointer"/></parameter></parameters></callback>
</namespace></repository>''' % {'v': _VOIDRET},
    'Inc-1.0.gir': _HDR + '''<include name="Gio" version="2.0"/>
<namespace name="Inc" version="1.0" c:identifier-prefixes="Inc" c:symbol-prefixes="inc">
<alias name="Al" c:type="IncAl"><type name="Cb" c:type="IncCb"/></alias>
<alias name="HAl" c:type="IncHAl" introspectable="0"><type name="HCb" c:type="IncHCb"/></alias>
<alias name="Dn" c:type="IncDn"><type name="GLib.DestroyNotify" c:type="GDestroyNotify"/></alias>
<alias name="Int" c:type="IncInt"><type name="gint" c:type="gint"/></alias>
<callback name="Cb" c:type="IncCb">%(v)s<parameters><parameter name="x" transfer-ownership="none"><type name="gint" c:type="gint"/></parameter></parameters></callback>
<callback name="HCb" c:type="IncHCb" introspectable="0">%(v)s</callback>
<record name="Rec" c:type="IncRec"/>
<record name="Boxed" c:type="IncBoxed" glib:type-name="IncBoxed" glib:get-type="inc_boxed_get_type" c:symbol-prefix="boxed"/>
<record name="Hidden" c:type="IncHidden" introspectable="0"/>
<enumeration name="En" c:type="IncEn"><member name="a" value="0" c:identifier="INC_EN_A"/></enumeration>
</namespace></repository>''' % {'v': _VOIDRET},
}

_PFX = {'http://www.gtk.org/introspection/core/1.0': '', 'http://www.gtk.org/introspection/c/1.0': 'c:',
        'http://www.gtk.org/introspection/glib/1.0': 'glib:', 'http://www.gtk.org/introspection/doc/1.0': 'doc:',
        'http://www.w3.org/XML/1998/namespace': 'xml:'}


def _qn(t):
    if t.startswith('{'):
        u, n = t[1:].split('}', 1)
        return _PFX.get(u, '{%s}' % u) + n
    return t


def xml_to_tree(elem):
    """XML element -> the tree format of Spec/GirWF.lean: 1:1, text dropped, conventional prefixes"""
    return {'t': _qn(elem.tag), 'a': [[_qn(k), v] for k, v in elem.attrib.items()],
            'c': [xml_to_tree(k) for k in elem if isinstance(k.tag, str)]}


def gir_text_to_tree(text):
    return xml_to_tree(ET.fromstring(text.encode('utf-8')))


def write_stubs(d):
    os.makedirs(d, exist_ok=True)
    for k, v in STUBS.items():
        with open(os.path.join(d, k), 'w') as f:
            f.write(v)
    return {k: gir_text_to_tree(v) for k, v in STUBS.items()}


# ------------------------------------------------------------------ generator of declarations
def fn(ret, params):
    return {'k': 'func', 'ret': ret, 'params': params}


GOOD = [lambda: T('int'), lambda: T('guint'), lambda: T('gboolean'), lambda: T('double'), lambda: T('gsize'),
        lambda: P(T('char')), lambda: P(T('char', q=2)), lambda: T('gpointer'), lambda: T('GType'),
        lambda: T('gint64'), lambda: T('float'), lambda: T('unsigned int')]
EXOTIC = [lambda: T('long long'), lambda: T('unsigned long long'), lambda: T('long double'), lambda: T('va_list')]
UNRESOLVED = [lambda: P(T('Unknown')), lambda: T('OtherThing'), lambda: P(T('FooMissing')), lambda: P(T('XyzQ'), 2)]
INC_GOOD = [lambda: P(T('IncRec')), lambda: P(T('IncBoxed')), lambda: T('IncEn'), lambda: T('IncInt'),
            lambda: P(T('GObject')), lambda: P(T('GCancellable')), lambda: P(T('GBytes')), lambda: T('GQuark')]
INC_HIDDEN = [lambda: P(T('IncHidden')), lambda: T('IncHAl'), lambda: T('IncHCb')]
EXT_CB = [lambda: T('IncCb'), lambda: T('IncAl'), lambda: T('GCallback'), lambda: T('GFunc')]
EXT_CB_EXEMPT = [lambda: T('GDestroyNotify'), lambda: T('GAsyncReadyCallback'), lambda: T('IncDn')]
ELEMS = ['utf8', 'gint', 'Inc.Rec', 'gpointer', 'Unknown', 'Inc.Hidden', 'guint8', 'filename', 'Inc.Nope', 'Foo.Nope']
# (type ...) annotations naming something that does not exist (here, in an included namespace, in a
# namespace that is not included) or that exists
TYPE_ANN = ['Inc.Nope', 'Foo.Nope', 'Bar.Baz', 'Inc.Rec', 'Inc.Hidden', 'GLib.Nope']


class B(object):
    """accumulates declarations, comment blocks and dump entries of one generated namespace"""

    def __init__(self, rng):
        self.rng = rng
        self.units = []          # list of lists of decls (a unit stays together when shuffling)
        self.blocks = {}         # block name -> (annotation list on the identifier line, {param: [ann]}, returns ann or None)
        self.dump = []
        self.records = []        # C names of local record types
        self.callbacks = []
        self.aliases = []
        self.enums = []
        self.skipped = []
        self.n = 0
        self.features = set()

    def fresh(self, p):
        self.n += 1
        return '%s%d' % (p, self.n)

    def block(self, name, ann=None, params=None, ret=None):
        b = self.blocks.setdefault(name, [[], {}, None])
        if ann:
            b[0].extend(ann)
        for k, v in (params or {}).items():
            b[1].setdefault(k, []).extend(v)
        if ret is not None:
            b[2] = (b[2] or []) + ret

    def comments(self):
        out = []
        line = 1
        for name in sorted(self.blocks):
            ann, params, ret = self.blocks[name]
            txt = ['/**', ' * %s:%s' % (name, ''.join(' (%s)' % a for a in ann) + (':' if ann else ''))]
            for p in params:
                a = ''.join(' (%s)' % x for x in params[p])
                txt.append(' * @%s:%s a parameter' % (p, a + ':' if a else ''))
            txt.append(' *')
            txt.append(' * Text.')
            if ret is not None:
                a = ''.join(' (%s)' % x for x in ret)
                txt.append(' *')
                txt.append(' * Returns:%s a value' % (a + ':' if a else ''))
            txt.append(' */')
            out.append(['\n'.join(txt), '/src/foo.c', line])
            line += len(txt) + 2
        return out

    # ---- type choice --------------------------------------------------
    def local_type(self):
        """a reference to some local node (may be a callback / alias of one): (ctype, kind)"""
        rng = self.rng
        pools = []
        if self.records:
            pools.append(('rec', self.records))
        if self.callbacks:
            pools.append(('cb', self.callbacks))
        if self.aliases:
            pools.append(('al', self.aliases))
        if self.enums:
            pools.append(('en', self.enums))
        if not pools:
            return None
        k, pool = rng.choice(pools)
        n = rng.choice(pool)
        if k == 'rec':
            return P(T(n)), k
        return T(n), k

    def pick(self, role):
        """role: 'param' | 'ret' | 'field' | 'alias' | 'cbparam'.  Returns (ctype json, [annotations], tag)"""
        rng = self.rng
        r = rng.random()
        if r < 0.30:
            return rng.choice(GOOD)(), [], 'good'
        if r < 0.42:
            lt = self.local_type()
            if lt:
                ann = []
                if lt[1] in ('cb', 'al') and role == 'param' and rng.random() < 0.7:
                    ann.append('scope ' + rng.choice(['call', 'async', 'forever']))
                self.features.add('local:' + lt[1])
                return lt[0], ann, 'local:' + lt[1]
        if r < 0.50:
            self.features.add('exotic')
            return rng.choice(EXOTIC)(), [], 'exotic'
        if r < 0.58:
            if role in ('param', 'ret', 'field') and rng.random() < 0.3:
                self.features.add('type-annotation')
                return T('gpointer'), ['type ' + rng.choice(TYPE_ANN)], 'typeann'
            self.features.add('unresolved')
            return rng.choice(UNRESOLVED)(), [], 'unresolved'
        if r < 0.68:
            self.features.add('included')
            return rng.choice(INC_GOOD)(), (['transfer none'] if role == 'ret' and rng.random() < 0.6 else []), 'inc'
        if r < 0.73:
            self.features.add('included-hidden')
            return rng.choice(INC_HIDDEN)(), [], 'inchidden'
        if r < 0.80 and role in ('param', 'field', 'alias', 'cbparam'):
            self.features.add('ext-callback')
            ann = []
            if role == 'param' and rng.random() < 0.6:
                ann.append('scope ' + rng.choice(['call', 'async', 'forever', 'notified']))
            return rng.choice(EXT_CB)(), ann, 'extcb'
        if r < 0.84 and role in ('param', 'field', 'alias'):
            self.features.add('exempt-callback')
            return rng.choice(EXT_CB_EXEMPT)(), [], 'exemptcb'
        if r < 0.93:
            # lists / arrays, with and without element type
            self.features.add('container')
            c = rng.choice(['GList', 'GSList', 'GHashTable', 'array', 'strv', 'GPtrArray', 'GArray'])
            ann = []
            if role == 'ret' and rng.random() < 0.7:
                ann.append('transfer ' + rng.choice(['none', 'full', 'container']))
            if c in ('GList', 'GSList', 'GPtrArray', 'GArray'):
                if rng.random() < 0.65:
                    ann.append('element-type ' + rng.choice(ELEMS))
                    self.features.add('element-type')
                else:
                    self.features.add('no-element-type')
                return P(T(c)), ann, 'list'
            if c == 'GHashTable':
                if rng.random() < 0.6:
                    ann.append('element-type %s %s' % (rng.choice(ELEMS), rng.choice(ELEMS)))
                return P(T(c)), ann, 'map'
            if c == 'strv':
                if rng.random() < 0.7:
                    ann.append('array zero-terminated=1')
                return P(P(T('char'))), ann, 'array'
            base = rng.choice([T('int'), T('guint8'), T('gpointer'), P(T('Unknown')), T('long long')])
            ann.append(rng.choice(['array fixed-size=4', 'array', 'array zero-terminated=1']))
            return P(base), ann, 'array'
        return rng.choice(GOOD)(), [], 'good'

    # ---- nodes -------------------------------------------------------
    def add_enum(self):
        n = self.fresh('FooE')
        self.units.append([{'d': 'typedef', 'name': n, 'type': {'k': 'enum', 'n': None, 'members': [
            {'name': 'FOO_%s_A' % n[3:].upper(), 'value': 0}, {'name': 'FOO_%s_B' % n[3:].upper(), 'value': 1}]}}])
        self.enums.append(n)

    def add_record(self, union=False):
        rng = self.rng
        n = self.fresh('FooR')
        fields = []
        fann = {}
        for i in range(rng.randint(0, 4)):
            fname = 'f%d' % i
            r = rng.random()
            if r < 0.2:
                # anonymous callback field
                ps = [{'name': 'a%d' % j, 'type': self.pick('cbparam')[0]} for j in range(rng.randint(0, 2))]
                rt = rng.choice([T('void'), T('int'), self.pick('ret')[0]])
                if rng.random() < 0.2:
                    fname = '_' + fname
                fields.append({'name': fname, 'type': P(fn(rt, ps))})
                self.features.add('anon-callback-field')
            elif r < 0.27:
                # nested anonymous struct / union, possibly holding a function pointer itself
                inner = []
                for j in range(rng.randint(1, 2)):
                    if rng.random() < 0.5:
                        ps = [{'name': 'b%d' % q, 'type': self.pick('cbparam')[0]} for q in range(rng.randint(0, 2))]
                        inner.append({'name': 'g%d' % j, 'type': P(fn(rng.choice([T('void'), T('int')]), ps))})
                    else:
                        inner.append({'name': 'g%d' % j, 'type': self.pick('field')[0]})
                fields.append({'name': fname, 'type': {'k': rng.choice(['struct', 'union']), 'n': None, 'fields': inner}})
                self.features.add('nested-anonymous-compound')
            elif r < 0.36 and i > 0:
                fields.append({'name': fname, 'type': P(T('int'))})
                tgt = rng.choice([f['name'] for f in fields[:-1]] + ['nosuch'])
                fann[fname] = ['array length=%s' % tgt]
                self.features.add('field-array-length')
            else:
                t, ann, _ = self.pick('field')
                fields.append({'name': fname, 'type': t})
                ann = [a for a in ann if not a.startswith(('scope', 'transfer'))]
                if ann:
                    fann[fname] = ann
        kind = 'union' if union else 'struct'
        unit = [{'d': kind, 'name': '_' + n, 'fields': fields},
                {'d': 'typedef', 'name': n, 'type': {'k': kind, 'n': '_' + n}}]
        if rng.random() < 0.3:
            self.units.append([unit[1]])
            self.units.append([unit[0]])
        else:
            self.units.append(unit)
        ann = []
        r = rng.random()
        if r < 0.12:
            ann.append('skip')
            self.skipped.append(n)
            self.features.add('skipped-record')
        elif r < 0.18:
            ann.append('foreign')
            self.features.add('foreign-record')
        if rng.random() < 0.35:
            cf = rng.choice(['c', 'f', 'cf', 'cf'])
            if 'c' in cf:
                ann.append('copy-func %s_copy' % uscore(n))
            if 'f' in cf:
                ann.append('free-func %s_free' % uscore(n))
            self.features.add('copy-free-' + cf)
        if ann or fann:
            self.block(n, ann, fann)
        self.records.append(n)
        return n

    def add_callback(self, params=None, ret=None, skip=None):
        rng = self.rng
        n = self.fresh('FooC')
        if params is None:
            params = []
            pann = {}
            for j in range(rng.randint(0, 3)):
                t, ann, _ = self.pick('cbparam')
                params.append({'name': 'a%d' % j, 'type': t})
                ann = [a for a in ann if not a.startswith('scope')]
                if ann:
                    pann[params[-1]['name']] = ann
            if rng.random() < 0.3:
                params.append({'name': 'user_data', 'type': T('gpointer')})
                if rng.random() < 0.5:
                    pann['user_data'] = ['closure']
        else:
            pann = {}
        if ret is None:
            ret = rng.choice([T('void'), T('void'), T('gboolean'), self.pick('ret')[0]])
        self.units.append([{'d': 'typedef', 'name': n, 'type': P(fn(ret, params))}])
        ann = []
        if skip is None:
            skip = rng.random() < 0.08
        if skip:
            ann.append('skip')
            self.skipped.append(n)
            self.features.add('skipped-callback')
        if ann or pann:
            self.block(n, ann, pann)
        self.callbacks.append(n)
        return n

    def add_alias(self, target=None):
        n = self.fresh('FooA')
        if target is None:
            t, _, tag = self.pick('alias')
        else:
            t = target
        self.units.append([{'d': 'typedef', 'name': n, 'type': t}])
        if self.rng.random() < 0.05:
            self.block(n, ['skip'])
            self.skipped.append(n)
        self.aliases.append(n)
        return n

    def add_function(self, owner=None, name=None):
        """a function; with `owner` (record / class C name) a method of it"""
        rng = self.rng
        if name is None:
            name = self.fresh('foo_f') if owner is None else '%s_%s' % (uscore(owner), self.fresh('m'))
        params = []
        pann = {}
        if owner is not None:
            params.append({'name': 'self', 'type': P(T(owner))})
        np = rng.randint(0, 4)
        for j in range(np):
            pname = 'p%d' % j
            t, ann, tag = self.pick('param')
            params.append({'name': pname, 'type': t})
            if tag in ('extcb', 'local:cb', 'local:al') and rng.random() < 0.5:
                # user data (and sometimes a destroy notify) after a callback
                params.append({'name': rng.choice(['user_data', 'data', 'ud']), 'type': T('gpointer')})
                r = rng.random()
                if r < 0.3:
                    ann.append('closure ' + params[-1]['name'])
                    self.features.add('closure-annotation')
                elif r < 0.36:
                    ann.append('closure nosuch')
                    self.features.add('closure-annotation-bad')
                elif r < 0.42 and owner is not None:
                    ann.append('closure self')
                    self.features.add('closure-annotation-instance')
                if rng.random() < 0.3:
                    params.append({'name': 'notify', 'type': T('GDestroyNotify')})
                    if rng.random() < 0.5:
                        ann.append('destroy notify')
                        self.features.add('destroy-annotation')
            if tag == 'array' and rng.random() < 0.5:
                params.append({'name': 'n_' + pname, 'type': T('int')})
                ann = [a for a in ann if not a.startswith('array')] + [
                    'array length=%s' % rng.choice(['n_' + pname] * 6 + ['nosuch', 'self'])]
                self.features.add('array-length')
            if rng.random() < 0.06:
                ann.append('skip')
                self.features.add('skip-parameter')
            if rng.random() < 0.08:
                ann.append(rng.choice(['out', 'inout', 'out caller-allocates', 'nullable', 'optional']))
            if ann:
                pann[pname] = ann
        if self.records and rng.random() < 0.06:
            # a local structure handed out through an (out) parameter, with and without (transfer)
            rec = rng.choice(self.records)
            ca = rng.random() < 0.3
            params.append({'name': 'o', 'type': P(T(rec)) if ca else P(T(rec), 2)})
            pann['o'] = ['out caller-allocates' if ca else 'out'] + \
                ([] if rng.random() < 0.5 else ['transfer ' + rng.choice(['none', 'full'])])
            self.features.add('out-local-record')
        if rng.random() < 0.08:
            params.append({'ellipsis': True})
            self.features.add('varargs')
            if rng.random() < 0.35:
                pann['...'] = ['skip']
                self.features.add('varargs-skip')
        if rng.random() < 0.1:
            params.append({'name': 'error', 'type': P(T('GError'), 2)})
        if self.records and rng.random() < 0.12:
            rt, rann, rtag = P(T(rng.choice(self.records))), [], 'local:rec'
            self.features.add('return-local-record')
        else:
            rt, rann, rtag = self.pick('ret') if rng.random() < 0.5 else (T('void'), [], 'void')
        if rtag in ('local:rec',) and rng.random() < 0.6:
            rann = rann + ['transfer ' + rng.choice(['none', 'full'])]
        if rtag != 'void' and rng.random() < 0.05:
            rann = rann + ['skip']
        d = {'d': 'function', 'name': name, 'ret': rt, 'params': params}
        if rng.random() < 0.03:
            d['inline'] = True
        self.units.append([d])
        ann = []
        if rng.random() < 0.04:
            ann.append('skip')
        if ann or pann or rann:
            self.block(name, ann, pann, rann if rann else None)
        return name

    def add_rename_pair(self, owner=None, chain=False):
        a = self.add_function(owner)
        b = self.add_function(owner)
        self.block(b, ['rename-to ' + a])
        self.features.add('rename-to')
        if chain:
            c = self.add_function(owner)
            self.block(c, ['rename-to ' + b])
            self.features.add('rename-to-chain')

    def add_class(self):
        rng = self.rng
        n = self.fresh('FooO')
        us = uscore(n)
        cfields = [{'name': 'parent_class', 'type': T('GObjectClass')}]
        vf = []
        for j in range(rng.randint(0, 3)):
            vname = 'v%d' % j
            ps = [{'name': 'self', 'type': P(T(n))}]
            for q in range(rng.randint(0, 2)):
                ps.append({'name': 'a%d' % q, 'type': self.pick('cbparam')[0]})
            rt = rng.choice([T('void'), T('int'), T('gboolean')])
            cfields.append({'name': vname, 'type': P(fn(rt, ps))})
            vf.append((vname, rt, ps))
        self.units.append([{'d': 'function', 'name': us + '_get_type', 'ret': T('GType'), 'params': []}])
        ifields = [{'name': 'parent_instance', 'type': T('GObject')}]
        if rng.random() < 0.5:
            t, ann, _ = self.pick('field')
            ifields.append({'name': 'x', 'type': t})
        self.units.append([{'d': 'struct', 'name': '_' + n, 'fields': ifields},
                           {'d': 'typedef', 'name': n, 'type': {'k': 'struct', 'n': '_' + n}}])
        self.units.append([{'d': 'struct', 'name': '_' + n + 'Class', 'fields': cfields},
                           {'d': 'typedef', 'name': n + 'Class', 'type': {'k': 'struct', 'n': '_' + n + 'Class'}}])
        # invokers: same name + signature as a vfunc, or via (virtual)
        for (vname, rt, ps) in vf:
            r = rng.random()
            if r < 0.5:
                self.units.append([{'d': 'function', 'name': '%s_%s' % (us, vname), 'ret': copy.deepcopy(rt),
                                    'params': copy.deepcopy(ps)}])
                self.features.add('invoker-by-name')
            elif r < 0.7:
                fnm = '%s_call_%s' % (us, vname)
                self.units.append([{'d': 'function', 'name': fnm, 'ret': copy.deepcopy(rt),
                                    'params': copy.deepcopy(ps)}])
                self.block(fnm, ['virtual ' + vname])
                self.features.add('invoker-by-annotation')
        self.units.append([{'d': 'function', 'name': us + '_new', 'ret': P(T(n)), 'params': []}])
        if vf and rng.random() < 0.06:
            # (virtual) annotation on something that is not a method
            if rng.random() < 0.5:
                self.block(us + '_new', ['virtual ' + vf[0][0]])
                self.features.add('virtual-annotation-on-constructor')
            else:
                self.units.append([{'d': 'function', 'name': us + '_stat', 'ret': T('void'),
                                    'params': [{'name': 'x', 'type': T('int')}]}])
                self.block(us + '_stat', ['virtual ' + vf[0][0]])
                self.features.add('virtual-annotation-on-static-function')
        props = []
        for j in range(rng.randint(0, 3)):
            pn = rng.choice(['title', 'count', 'active', 'peer', 'hid', 'long-name', 'is-active', 'active'])
            if pn in [p[0] for p in props]:
                continue
            ptype = {'title': 'gchararray', 'count': 'gint', 'active': 'gboolean', 'peer': 'GObject',
                     'hid': 'IncHidden', 'long-name': 'gchararray', 'is-active': 'gboolean'}[pn]
            flags = rng.choice([1, 2, 3, 3, 3, 7, 11])
            if pn == 'is-active' and rng.random() < 0.6:
                flags = 1       # read-only boolean: the plain name is_active is a getter candidate
            props.append((pn, ptype, flags))
            un = pn.replace('-', '_')
            ctype = {'gchararray': P(T('char')), 'gint': T('int'), 'gboolean': T('gboolean'),
                     'GObject': P(T('GObject')), 'IncHidden': P(T('IncHidden'))}[ptype]
            if rng.random() < 0.7:
                self.units.append([{'d': 'function', 'name': '%s_set_%s' % (us, un), 'ret': T('void'),
                                    'params': [{'name': 'self', 'type': P(T(n))}, {'name': 'v', 'type': ctype}]}])
                self.features.add('setter')
            if rng.random() < 0.7:
                self.units.append([{'d': 'function', 'name': '%s_get_%s' % (us, un), 'ret': copy.deepcopy(ctype),
                                    'params': [{'name': 'self', 'type': P(T(n))}]}])
                if ptype in ('gchararray', 'GObject'):
                    self.block('%s_get_%s' % (us, un), None, None, ['transfer none'])
                self.features.add('getter')
            if pn == 'is-active':
                if rng.random() < 0.7 and (us + '_is_active') not in [d['name'] for u in self.units for d in u]:
                    self.units.append([{'d': 'function', 'name': us + '_is_active', 'ret': T('gboolean'),
                                        'params': [{'name': 'self', 'type': P(T(n))}]}])
                self.features.add('property-is-active')
                continue
            if ptype == 'gboolean' and rng.random() < 0.4 and \
                    ('%s_is_%s' % (us, un)) not in [d['name'] for u in self.units for d in u]:
                self.units.append([{'d': 'function', 'name': '%s_is_%s' % (us, un), 'ret': T('gboolean'),
                                    'params': [{'name': 'self', 'type': P(T(n))}]}])
                self.features.add('getter-is')
        sigs = []
        for j in range(rng.randint(0, 2)):
            sigs.append(('sig%d' % j, rng.choice(['void', 'gboolean', 'gint']),
                         [rng.choice(['gint', 'gchararray', 'GObject', 'IncHidden', 'gpointer', n])
                          for _ in range(rng.randint(0, 2))]))
        x = ['<class name="%s" get-type="%s_get_type" parents="GObject">' % (n, us)]
        for pn, ptype, flags in props:
            x.append('<property name="%s" type="%s" flags="%d"/>' % (pn, ptype, flags))
        for sn, sr, sp in sigs:
            x.append('<signal name="%s" return="%s">%s</signal>' % (sn, sr, ''.join('<param type="%s"/>' % t for t in sp)))
        x.append('</class>')
        self.dump.append(''.join(x))
        self.records.append(n)        # usable as a type elsewhere (pointer)
        self.features.add('class')
        for j in range(rng.randint(0, 2)):
            self.add_function(n)
        if rng.random() < 0.3:
            self.add_rename_pair(n, chain=rng.random() < 0.3)
        return n

    def cfg(self, order=None):
        units = list(self.units)
        if order is None:
            self.rng.shuffle(units)
        else:
            units = [units[i] for i in order]
        decls = [d for u in units for d in u]
        for i, d in enumerate(decls):
            d['line'] = 10 + i
        cfg = {'namespace': 'Foo', 'decls': decls, 'comments': self.comments()}
        if self.dump:
            cfg['dump'] = '<?xml version="1.0"?><dump>%s</dump>' % ''.join(self.dump)
        return cfg


def uscore(cname):
    """FooR12 -> foo_r12 (what to_underscores gives for our generated names)"""
    return re.sub(r'(?<=[a-z0-9])(?=[A-Z])', '_', cname).lower()


def gen_random(rng):
    b = B(rng)
    n = rng.randint(2, 9)
    for _ in range(n):
        r = rng.random()
        if r < 0.17:
            b.add_record(union=rng.random() < 0.15)
        elif r < 0.34:
            b.add_callback()
        elif r < 0.52:
            b.add_alias()
        elif r < 0.57:
            b.add_enum()
        elif r < 0.82:
            owner = rng.choice(b.records) if b.records and rng.random() < 0.4 else None
            b.add_function(owner)
        elif r < 0.88:
            b.add_rename_pair(rng.choice(b.records) if b.records and rng.random() < 0.5 else None,
                              chain=rng.random() < 0.25)
        else:
            b.add_class()
    return b.cfg(), sorted(b.features)


BASES = {
    'unknown': lambda: P(T('Unknown')),
    'exotic': lambda: T('long long'),
    'hidden': lambda: P(T('IncHidden')),
    'good': lambda: T('int'),
    'incgood': lambda: P(T('IncRec')),
}


def build_chain(rng, kinds, base, order=None, use='function'):
    """base type <- node_1 <- ... <- node_L <- user.  kinds[i] in 'a' (alias), 'c' (callback taking
    the previous as a parameter), 'r' (record with a field of the previous type).
    The user is a function taking the head (with (scope call) so that only the chain decides)."""
    b = B(rng)
    cur = BASES[base]()
    cur_is_ptr_rec = False
    for k in kinds:
        if k == 'a':
            n = b.fresh('FooA')
            b.units.append([{'d': 'typedef', 'name': n, 'type': cur}])
            cur = T(n)
        elif k == 'c':
            n = b.fresh('FooC')
            b.units.append([{'d': 'typedef', 'name': n, 'type': P(fn(T('void'), [{'name': 'x', 'type': cur}]))}])
            cur = T(n)
        else:
            n = b.fresh('FooR')
            b.units.append([{'d': 'struct', 'name': '_' + n, 'fields': [{'name': 'f', 'type': cur}]},
                            {'d': 'typedef', 'name': n, 'type': {'k': 'struct', 'n': '_' + n}}])
            cur = P(T(n))
    if use == 'function':
        b.units.append([{'d': 'function', 'name': 'foo_use', 'ret': T('void'), 'params': [{'name': 'x', 'type': cur}]}])
        b.block('foo_use', None, {'x': ['scope call']})
    elif use == 'method':
        r = b.fresh('FooR')
        b.units.append([{'d': 'struct', 'name': '_' + r, 'fields': [{'name': 'g', 'type': copy.deepcopy(cur)}]},
                        {'d': 'typedef', 'name': r, 'type': {'k': 'struct', 'n': '_' + r}}])
        b.units.append([{'d': 'function', 'name': uscore(r) + '_use', 'ret': T('void'),
                         'params': [{'name': 'self', 'type': P(T(r))}, {'name': 'x', 'type': cur}]}])
        b.block(uscore(r) + '_use', None, {'x': ['scope call']})
    else:   # returned from a function
        b.units.append([{'d': 'function', 'name': 'foo_use', 'ret': cur, 'params': []}])
        b.block('foo_use', None, None, ['transfer none'])
    return b, len(b.units)


def gen_chain(rng):
    L = rng.randint(1, 6)
    kinds = ''.join(rng.choice('aaacr') for _ in range(L))
    base = rng.choice(['unknown', 'unknown', 'exotic', 'hidden', 'good', 'incgood'])
    b, n = build_chain(rng, kinds, base, use=rng.choice(['function', 'function', 'method', 'return']))
    return b.cfg(), ['chain:%s:%s' % (kinds, base)]


BARE_KINDS = ('struct', 'union')
BARE_CF = ('', 'c', 'f', 'cf')
BARE_FLAVOURS = ('plain', 'foreign', 'skip', 'boxed')
BARE_USES = ('fret', 'mret', 'fout', 'mout', 'fcout')
BARE_TRANSFERS = (None, 'none', 'full')


def build_bare(rng, kind, cf, flavour, depth, use, transfer):
    """An unregistered / foreign / skipped / registered structure or union with a (copy-func) and / or a
    (free-func) or neither, handed out by a function or method: returned by pointer, or through an (out) /
    (out caller-allocates) parameter, directly or through `depth` typedefs, with and without (transfer)."""
    b = B(rng)
    n = 'FooP'
    b.units.append([{'d': kind, 'name': '_' + n, 'fields': [{'name': 'x', 'type': T('int')}]},
                    {'d': 'typedef', 'name': n, 'type': {'k': kind, 'n': '_' + n}}])
    ann = []
    if 'c' in cf:
        ann.append('copy-func foo_p_copy')
    if 'f' in cf:
        ann.append('free-func foo_p_free')
    if flavour == 'foreign':
        ann.append('foreign')
    elif flavour == 'skip':
        ann.append('skip')
    elif flavour == 'boxed':
        b.units.append([{'d': 'function', 'name': 'foo_p_get_type', 'ret': T('GType'), 'params': []}])
        b.dump.append('<boxed name="FooP" get-type="foo_p_get_type"/>')
    if ann:
        b.block(n, ann)
    tn = n
    for d in range(depth):
        an = 'FooPA%d' % d
        b.units.append([{'d': 'typedef', 'name': an, 'type': T(tn)}])
        tn = an
    params = [{'name': 'self', 'type': P(T(n))}] if use[0] == 'm' else []
    name = 'foo_p_next' if use[0] == 'm' else 'foo_make'
    tann = ['transfer ' + transfer] if transfer else []
    if use.endswith('ret'):
        b.units.append([{'d': 'function', 'name': name, 'ret': P(T(tn)), 'params': params}])
        b.block(name, None, None, tann)
    else:
        ca = use.endswith('cout')
        params.append({'name': 'o', 'type': P(T(tn)) if ca else P(T(tn), 2)})
        b.units.append([{'d': 'function', 'name': name, 'ret': T('void'), 'params': params}])
        b.block(name, None, {'o': ['out caller-allocates' if ca else 'out'] + tann})
    return b


def all_bare():
    for spec in itertools.product(BARE_KINDS, BARE_CF, BARE_FLAVOURS, (0, 1, 2), BARE_USES, BARE_TRANSFERS):
        yield spec


def bare_case(rng, spec):
    b = build_bare(rng, *spec)
    tag = 'bare:%s:%s:%s:%d:%s:%s' % (spec[0], spec[1] or '-', spec[2], spec[3], spec[4], spec[5] or '-')
    return b.cfg(), ['bare-handed-out', 'bare-cf-' + (spec[1] or 'none'), 'bare-' + spec[2], 'bare-use-' + spec[4],
                     'bare-transfer-' + (spec[5] or 'unstated')], tag


def all_chains(maxlen):
    """thorough tier: every chain of length <= maxlen over 3 node kinds, two bases, all declaration orders"""
    for L in range(1, maxlen + 1):
        for kinds in itertools.product('acr', repeat=L):
            for base in ('unknown', 'good'):
                for order in itertools.permutations(range(L + 1)):
                    yield ''.join(kinds), base, order


# ------------------------------------------------------------------ real pipeline + model input
class Layout(object):
    """which real objects stand behind the positions of the model's flag lists"""

    def __init__(self):
        self.tops = []      # (node, [sub nodes], [fields], [props])


def _ty(m, tr, ns, t):
    ast = m.ast
    if t is None:
        return None
    if isinstance(t, ast.TypeUnknown):
        return {'k': 'unresolved'}
    if isinstance(t, ast.Varargs):
        return {'k': 'varargs'}
    if isinstance(t, ast.Array):
        return {'k': 'array', 'e': _ty(m, tr, ns, t.element_type)}
    if isinstance(t, ast.List):
        return {'k': 'list', 'e': _ty(m, tr, ns, t.element_type)}
    if isinstance(t, ast.Map):
        return {'k': 'map', 'key': _ty(m, tr, ns, t.key_type), 'val': _ty(m, tr, ns, t.value_type)}
    if not t.resolved:
        return {'k': 'unresolved'}
    if t.target_foreign:
        return {'k': 'foreign'}
    if t.target_fundamental:
        return {'k': 'fund', 'n': t.target_fundamental}
    gi = t.target_giname
    try:
        node = tr.lookup_giname(gi)
    except KeyError:
        node = None
    nsn, name = gi.split('.', 1)
    if node is not None and node.namespace is ns:
        return {'k': 'ref', 'n': node.name}
    if node is None:
        if nsn == ns.name:
            return {'k': 'ref', 'n': name}
        return {'k': 'ext', 'intro': False, 'skip': False, 'tk': 'other'}
    tgt = tr.resolve_aliases(node)
    tk = 'other'
    if isinstance(tgt, ast.Callback):
        tk = 'cbx' if tgt.gi_name in EXEMPT else 'cb'
    elif (isinstance(tgt, (ast.Record, ast.Union)) and tgt.get_type is None
          and (tgt.copy_func is None or tgt.free_func is None) and not tgt.foreign):
        tk = 'bare'
    return {'k': 'ext', 'intro': bool(node.introspectable), 'skip': bool(node.skip), 'tk': tk}


def _param(m, tr, ns, p):
    return {'ty': _ty(m, tr, ns, p.type), 'skip': bool(p.skip), 'scope': getattr(p, 'scope', None) is not None,
            'transfer': p.transfer is not None, 'tnone': p.transfer == m.ast.PARAM_TRANSFER_NONE}


def _sig(m, tr, ns, c):
    ast = m.ast
    return {'params': [_param(m, tr, ns, p) for p in c.parameters], 'ret': _param(m, tr, ns, c.retval),
            'cb': isinstance(c, ast.Callback), 'inline': isinstance(c, ast.Function) and bool(c.is_inline),
            'signal': isinstance(c, ast.Signal)}


def _walk_children(m, node):
    """the nested nodes Node._walk visits, in its order (callables only are kept by the caller;
    anonymous records / unions are descended into)"""
    ast = m.ast
    out = []
    if isinstance(node, ast.Compound):
        seq = list(node.constructors) + list(node.methods) + list(node.static_methods)
        anon = [f.anonymous_node for f in node.fields if f.anonymous_node is not None]
        seq += anon
    elif isinstance(node, ast.Class):
        seq = list(node.methods) + list(node.virtual_methods) + list(node.static_methods) + list(node.constructors)
        seq += [f.anonymous_node for f in node.fields if f.anonymous_node]
        seq += list(node.signals)
    elif isinstance(node, ast.Interface):
        seq = list(node.methods) + list(node.static_methods) + list(node.virtual_methods)
        seq += [f.anonymous_node for f in node.fields if f.anonymous_node]
        seq += list(node.signals)
    elif isinstance(node, (ast.Enum, ast.Bitfield)):
        seq = list(node.static_methods)
    elif isinstance(node, (ast.Boxed, ast.Pointer)):
        seq = list(node.constructors) + list(node.methods) + list(node.static_methods)
    else:
        seq = []
    for ch in seq:
        if isinstance(ch, ast.Callable):
            out.append(ch)
        else:
            out.extend(_walk_children(m, ch))
    return out


def _all_fields(m, node):
    ast = m.ast
    out = []
    for f in getattr(node, 'fields', []) or []:
        out.append(f)
        if f.anonymous_node is not None and isinstance(f.anonymous_node, (ast.Record, ast.Union)):
            out.extend(_all_fields(m, f.anonymous_node))
    return out


def namespace_to_model(m, tr, ns):
    """model input (JSON for c05.validate) + layout, from the live namespace BEFORE validate()"""
    ast = m.ast
    lay = Layout()
    tops = []
    for node in ns.values():
        top = {'name': node.name or '', 'skip': bool(node.skip), 'intro': bool(node.introspectable)}
        subs, fields, props = [], [], []
        if isinstance(node, ast.Alias):
            top['body'] = {'k': 'alias', 'target': _ty(m, tr, ns, node.target)}
        elif isinstance(node, ast.Callable):
            top['body'] = {'k': 'callable', 'sig': _sig(m, tr, ns, node)}
        elif isinstance(node, (ast.Compound, ast.Class, ast.Interface, ast.Enum, ast.Bitfield, ast.Boxed, ast.Pointer)):
            subs = _walk_children(m, node)
            idx = {id(s): i for i, s in enumerate(subs)}
            fields = _all_fields(m, node)
            props = list(getattr(node, 'properties', []) or [])
            bare = (isinstance(node, (ast.Record, ast.Union)) and node.get_type is None
                    and (node.copy_func is None or node.free_func is None) and not node.foreign)
            fj = []
            for f in fields:
                an = f.anonymous_node
                fj.append({'name': f.name or '', 'intro': bool(f.introspectable),
                           'ty': _ty(m, tr, ns, f.type) if (f.type is not None and an is None) else None,
                           'anon': idx.get(id(an)) if isinstance(an, ast.Callback) else None})
            meths = set(id(x) for x in (getattr(node, 'methods', None) or []))
            top['body'] = {'k': 'compound', 'bare': bool(bare), 'fields': fj,
                           'props': [{'name': p.name, 'intro': bool(p.introspectable), 'ty': _ty(m, tr, ns, p.type),
                                      'setter': getattr(p, 'setter', None), 'getter': getattr(p, 'getter', None)}
                                     for p in props],
                           'subs': [{'name': s.name or '', 'skip': bool(s.skip), 'intro': bool(s.introspectable),
                                     'sig': _sig(m, tr, ns, s), 'method': id(s) in meths,
                                     'setp': getattr(s, 'set_property', None), 'getp': getattr(s, 'get_property', None)}
                                    for s in subs]}
        else:
            top['body'] = {'k': 'other'}
        tops.append(top)
        lay.tops.append((node, subs, fields, props))
    return {'name': ns.name, 'tops': tops}, lay


def real_flags(lay):
    return {'tf': [bool(n.introspectable) for n, _s, _f, _p in lay.tops],
            'sf': [[bool(x.introspectable) for x in s] for _n, s, _f, _p in lay.tops],
            'ff': [[bool(x.introspectable) for x in f] for _n, _s, f, _p in lay.tops],
            'pf': [[bool(x.introspectable) for x in p] for _n, _s, _f, p in lay.tops],
            'tskip': [bool(n.skip) for n, _s, _f, _p in lay.tops],
            'sskip': [[bool(x.skip) for x in s] for _n, s, _f, _p in lay.tops],
            # accessor names after _introspectable_property_analysis (public attributes of the AST)
            'pacc': [[[getattr(x, 'setter', None), getattr(x, 'getter', None)] for x in p] for _n, _s, _f, p in lay.tops],
            'macc': [[[getattr(x, 'set_property', None), getattr(x, 'get_property', None)] for x in s]
                     for _n, s, _f, _p in lay.tops]}


ALLOWED_RAISES = (
    ('ValueError', 'get_parameter_index'), ('ValueError', 'get_field_index'), ('ValueError', 'get_parameter'),
    ('AssertionError', '_write_type'),
)


def run_real(cfg, incdir, want_model=True):
    """Run the real pipeline on cfg.  Returns dict: gir (text or None), raised ((type, where, text) or
    None), model (ns json) / lay / flags / rounds when the transformer stages succeeded."""
    m = scanpipe.mods()
    out = {'gir': None, 'raised': None, 'model': None, 'flags': None, 'rounds': None, 'warnings': 0}
    c = dict(cfg)
    c['include_paths'] = [incdir]
    c['includes'] = [os.path.join(incdir, 'Inc-1.0.gir')]
    c['stop_after'] = 'main'
    try:
        r = scanpipe.scan(c)
        tr, ns, blocks = r['transformer'], r['namespace'], r['blocks']
        out['warnings'] = len(r.get('warnings', []))
        lay = None
        if want_model:
            out['model'], lay = namespace_to_model(m, tr, ns)
        final = m.introspectablepass.IntrospectablePass(tr, blocks)
        calls = [0]
        orig = getattr(final, '_count_introspectable', None)
        if orig is not None:
            def counting():
                calls[0] += 1
                return orig()
            final._count_introspectable = counting
        final.validate()
        if orig is not None:
            out['rounds'] = calls[0] // 2
        if lay is not None:
            out['flags'] = real_flags(lay)
        writer = m.girwriter.GIRWriter(ns, ['/src'])
        out['gir'] = writer.get_encoded_xml().decode('utf-8')
    except SystemExit as e:
        out['raised'] = ('SystemExit', 'message.fatal', str(e)[:200])
    except RecursionError as e:
        out['raised'] = ('RecursionError', '', str(e)[:200])
    except Exception as e:  # noqa
        import traceback
        tb = traceback.extract_tb(sys.exc_info()[2])
        where = tb[-1].name if tb else ''
        out['raised'] = (type(e).__name__, where, str(e)[:200])
    return out


def raise_allowed(raised):
    """SystemExit = the scanner refuses the input loudly (message.fatal); a ValueError from
    get_parameter_index / get_field_index or the AssertionError of _write_type is the writer (or
    MainTransformer) refusing a closure / destroy / length name that does not exist: the
    property allows 'in range or raises'."""
    if raised[0] == 'SystemExit':
        return True
    return (raised[0], raised[1]) in ALLOWED_RAISES


# ------------------------------------------------------------------ oracle on a GIR tree
def skip_propagated_fields(real):
    """(container name, field name) of fields that stay introspectable while their anonymous callback is only
    marked because _propagate_callable_skips set its `skip` (its `introspectable` is still true)"""
    out = set()
    if not real or real.get('model') is None or real.get('flags') is None:
        return out
    fl = real['flags']
    for i, t in enumerate(real['model']['tops']):
        if t['body']['k'] != 'compound':
            continue
        for k, f in enumerate(t['body']['fields']):
            j = f.get('anon')
            if j is not None and fl['ff'][i][k] and fl['sf'][i][j] and fl['sskip'][i][j]:
                out.add((t['name'], f['name']))
    return out


def classify(tree, finding, real=None):
    """stable key for a finding of a GENERATED namespace (names are random): code + context"""
    code = finding['code']
    path = finding['path']
    if code == 'field-callback-non-introspectable':
        names = re.findall(r'\[(.*?)\]', path)
        if len(names) >= 2 and (names[-2], names[-1]) in skip_propagated_fields(real):
            return 'gen:field-callback-non-introspectable:skip-propagated-callback'
        return 'gen:field-callback-non-introspectable:other'
    if code == 'varargs':
        # is the <parameter> holding the <varargs/> marked skip="1"?
        node = _find_path(tree, path)
        if node is not None and node[1] is not None and dict(map(tuple, node[1]['a'])).get('skip') == '1':
            return 'gen:varargs:skipped-parameter'
        return 'gen:varargs:plain'
    if code in ('shadowed-by-not-mutual', 'shadows-not-mutual'):
        # g <- y : y exists among the siblings and is itself shadowed by a third function = a chain of (rename-to)
        node = _find_path(tree, path)
        m = re.match(r'(.*)(<-|->)(.*)$', finding['detail'])
        if node is not None and m:
            sib = [k for k in node[0]['c'] if dict(map(tuple, k['a'])).get('name') == m.group(3)]
            if code == 'shadowed-by-not-mutual' and sib and 'shadowed-by' in dict(map(tuple, sib[0]['a'])):
                return 'gen:shadowed-by-not-mutual:rename-to-chain'
            if code == 'shadows-not-mutual' and not sib:
                # m -> t_f : no sibling is called t_f, but a sibling <function> (a static function that
                # _pair_static_method COPIED into this record/union/interface/boxed/enum, leaving the original
                # `t_f` with moved-to= in the namespace) has the C symbol <ns prefix>_t_f: (rename-to) found the
                # namespace-level original, so the method's shadows= names a function outside its container
                # (and nothing at all when the original was pruned as non-introspectable)
                tgt = m.group(3)
                for k in node[0]['c']:
                    ka = dict(map(tuple, k['a']))
                    if k['t'] == 'function' and (ka.get('c:identifier') or '').endswith('_' + tgt) \
                            and ka.get('name') != tgt and tgt.endswith('_' + (ka.get('name') or '\0')):
                        return 'gen:shadows-not-mutual:rename-to-static-function-copied-into-type'
            if code == 'shadowed-by-not-mutual' and not sib:
                # the other half of the same situation: the namespace-level original (moved-to=Type.f) is written
                # shadowed-by=<a method of Type>, which is not among ITS siblings
                me = [dict(map(tuple, k['a'])) for k in node[0]['c']
                      if dict(map(tuple, k['a'])).get('name') == m.group(1)]
                if me and me[0].get('moved-to'):
                    return 'gen:shadows-not-mutual:rename-to-static-function-copied-into-type'
        return 'gen:%s:other' % code
    if code == 'invoker-not-a-method':
        # v -> m : m is a <constructor> or a <function> of the same type
        node = _find_path(tree, path)
        m = re.match(r'(.*)->(.*)$', finding['detail'])
        if node is not None and m:
            kids = [(k['t'], dict(map(tuple, k['a']))) for k in node[0]['c']]
            if any(t in ('constructor', 'function') and a.get('name') == m.group(2) for t, a in kids):
                return 'gen:invoker-not-a-method:virtual-annotation-on-constructor-or-function'
        return 'gen:invoker-not-a-method:other'
    if code == 'getter-mismatch':
        # p -> m : method m exists, but claims glib:get-property of ANOTHER existing property
        node = _find_path(tree, path)
        m = re.match(r'(.*)->(.*)$', finding['detail'])
        if node is not None and m:
            kids = [(k['t'], dict(map(tuple, k['a']))) for k in node[0]['c']]
            meth = [a for t, a in kids if t == 'method' and a.get('name') == m.group(2)]
            pnames = [a.get('name') for t, a in kids if t == 'property']
            if meth and meth[0].get('glib:get-property') not in (None, m.group(1)) \
                    and meth[0]['glib:get-property'] in pnames:
                return 'gen:getter-mismatch:getter-claimed-for-another-property'
        return 'gen:getter-mismatch:other'
    if code == 'get-property-mismatch':
        # m -> p : p's getter is ANOTHER method that also claims glib:get-property=p (several heuristic candidates)
        node = _find_path(tree, path)
        m = re.match(r'(.*)->(.*)$', finding['detail'])
        if node is not None and m:
            kids = [(k['t'], dict(map(tuple, k['a']))) for k in node[0]['c']]
            if any(t == 'property' and a.get('name') != m.group(2) and a.get('getter') == m.group(1) for t, a in kids):
                return 'gen:get-property-mismatch:getter-of-another-property'
            prop = [a for t, a in kids if t == 'property' and a.get('name') == m.group(2)]
            if prop and prop[0].get('getter') and prop[0]['getter'] != m.group(1):
                other = [a for t, a in kids if t == 'method' and a.get('name') == prop[0]['getter']]
                if other and other[0].get('glib:get-property') == m.group(2):
                    return 'gen:get-property-mismatch:several-getter-candidates'
        return 'gen:get-property-mismatch:other'
    segs = [re.sub(r'\[.*?\]', '', s) for s in path.split('/') if s]
    ctx = [s for s in segs if s in ('function', 'method', 'constructor', 'callback', 'virtual-method', 'glib:signal',
                                    'field', 'property', 'alias', 'return-value', 'parameter', 'instance-parameter')]
    return 'gen:%s:%s' % (code, '/'.join(ctx[-3:]))


def _find_path(tree, path):
    """(element, parent) for a path produced by GirWF.seg"""
    def seg(e):
        a = dict(map(tuple, e['a']))
        n = a.get('name', a.get('glib:name'))
        return '/%s[%s]' % (e['t'], n) if n is not None else '/' + e['t']

    def rec(e, parent, prefix):
        p = prefix + seg(e)
        if p == path:
            return (e, parent)
        if not path.startswith(p):
            return None
        for k in e['c']:
            r = rec(k, e, p)
            if r is not None:
                return r
        return None
    return rec(tree, None, '')


def marked_paths(tree):
    """for the evidence: how many elements are marked / unmarked per tag"""
    cnt = {}

    def rec(e, dead):
        a = dict(map(tuple, e['a']))
        d = dead or a.get('introspectable') == '0'
        if e['t'] in ('function', 'method', 'constructor', 'callback', 'virtual-method', 'glib:signal', 'field',
                      'property', 'alias'):
            k = '%s:%s' % (e['t'], 'marked' if d else 'kept')
            cnt[k] = cnt.get(k, 0) + 1
        for c in e['c']:
            rec(c, d)
    rec(tree, False)
    return cnt


# ------------------------------------------------------------------ writer index correspondence
def writer_index_cases(rng, n):
    pool = ['cb', 'data', 'user_data', 'notify', 'n', 'len', 'self', 'x', None]
    cases = []
    for _ in range(n):
        k = rng.randint(0, 5)
        names = [rng.choice(pool) for _ in range(k)]
        present = [x for x in names if x]

        def pick():
            r = rng.random()
            if r < 0.35:
                return None
            if r < 0.8 and present:
                return rng.choice(present)
            return rng.choice([p for p in pool if p] + ['nosuch'])
        cases.append({'names': names, 'closure': pick(), 'destroy': pick(), 'length': pick(),
                      'instance': rng.choice([None, 'self']), 'at': rng.randint(0, max(0, k - 1))})
    return cases


def real_writer_index(case):
    """Build an ast.Function by hand and let the public GIRWriter write it; read the indices back."""
    m = scanpipe.mods()
    ast = m.ast
    ns = ast.Namespace('Foo', '1.0')
    params = []
    for i, nm in enumerate(case['names']):
        params.append(ast.Parameter(nm, ast.TYPE_INT.clone() if hasattr(ast.TYPE_INT, 'clone') else ast.TYPE_INT,
                                    transfer='none'))
    if not params:
        return None
    p = params[case['at']]
    p.closure_name = case['closure']
    p.destroy_name = case['destroy']
    if case['length'] is not None:
        arr = ast.Array(None, ast.TYPE_INT, ctype='int*')
        arr.length_param_name = case['length']
        arr.zeroterminated = False
        p.type = arr
    f = ast.Function('f', ast.Return(ast.TYPE_NONE, transfer='none'), params, False, 'foo_f')
    if case['instance']:
        f.instance_parameter = ast.Parameter(case['instance'], ast.TYPE_ANY, transfer='none')
    ns.append(f)
    try:
        xml = m.girwriter.GIRWriter(ns).get_encoded_xml().decode('utf-8')
    except ValueError:
        return {'err': 'value'}
    except AssertionError:
        return {'err': 'assert'}
    root = ET.fromstring(xml.encode('utf-8'))
    pe = root.findall('.//' + scanpipe.q('parameter'))[case['at']]
    arr = pe.find(scanpipe.q('array'))

    def num(v):
        return int(v) if v is not None else None
    return {'ok': [num(pe.get('closure')), num(pe.get('destroy')), num(arr.get('length')) if arr is not None else None]}


def real_field_length(case):
    m = scanpipe.mods()
    ast = m.ast
    ns = ast.Namespace('Foo', '1.0')
    rec = ast.Record('R', ctype='FooR') if case['parent'] == 'compound' else \
        ast.Class('R', None, ctype='FooR', gtype_name='FooR', get_type='foo_r_get_type', c_symbol_prefix='r')
    for nm in case['names']:
        rec.fields.append(ast.Field(nm, ast.TYPE_INT, True, False))
    arr = ast.Array(None, ast.TYPE_INT, ctype='int*')
    arr.length_param_name = case['length']
    arr.zeroterminated = False
    rec.fields.append(ast.Field('arr', arr, True, False))
    ns.append(rec)
    try:
        xml = m.girwriter.GIRWriter(ns).get_encoded_xml().decode('utf-8')
    except ValueError:
        return {'err': 'value'}
    except AssertionError:
        return {'err': 'assert'}
    root = ET.fromstring(xml.encode('utf-8'))
    a = root.find('.//' + scanpipe.q('array'))
    v = a.get('length')
    return {'ok': int(v) if v is not None else None}


# ------------------------------------------------------------------ the run
def load_corpus():
    out = []
    cpath = os.path.join(VERIF, 'corpus', 'C05')
    if os.path.isdir(cpath):
        for fnm in sorted(os.listdir(cpath)):
            if fnm.endswith('.json'):
                with open(os.path.join(cpath, fnm)) as f:
                    j = json.load(f)
                for c in (j if isinstance(j, list) else [j]):
                    c.setdefault('origin', fnm)
                    out.append(c)
    return out


def shipped_files():
    files = sorted(glob.glob(os.path.join(REPO, 'gir', '*.gir')) +
                   glob.glob(os.path.join(REPO, 'tests', 'scanner', '*-expected.gir')))
    return files


def check_shipped(ctx, cnt, samples):
    files = shipped_files()
    trees = {}
    for f in files:
        try:
            trees[f] = xml_to_tree(ET.parse(f).getroot())
        except ET.ParseError as e:
            ctx.report_failure('shipped:%s:parse' % os.path.relpath(f, REPO), 'not well-formed XML: %s' % e,
                               {'kind': 'shipped', 'file': os.path.relpath(f, REPO)})
    reqs = [{'op': 'c05.wf', 'main': trees[f], 'others': [trees[g] for g in trees if g != f]} for f in trees]
    res = ctx.driver.batch(reqs)
    summary = []
    for f, r in zip(trees, res):
        rel = os.path.relpath(f, REPO)
        issues = [x for x in r['findings'] if x['kind'] == 'issue']
        unav = [x for x in r['findings'] if x['kind'] == 'unavail']
        cnt.hit('shipped:files')
        cnt.hit('shipped:judged-callables', r['stats'][1])
        cnt.hit('shipped:judged-values', r['stats'][2])
        cnt.hit('shipped:judged-types', r['stats'][3])
        cnt.hit('shipped:unresolvable-include', len(unav))
        cnt.case(['shipped', rel], nontrivial=r['stats'][3] > 0)
        summary.append({'file': rel, 'well_formed': r['ok'], 'elements': r['stats'][0], 'callables_judged': r['stats'][1],
                        'values_judged': r['stats'][2], 'types_judged': r['stats'][3],
                        'unresolvable_include_refs': len(unav),
                        'unresolvable_namespaces': sorted(set(x['detail'].split('.')[0] for x in unav))})
        for x in issues:
            key = 'shipped:%s:%s:%s' % (rel, x['path'], x['code'])
            ctx.report_failure(key, '%s: element %s: %s %s' % (rel, x['path'], x['code'], x['detail']),
                               {'kind': 'shipped', 'file': rel, 'path': x['path'], 'code': x['code'],
                                'detail': x['detail']})
    samples.append({'kind': 'shipped', 'summary': summary[-3:]})
    return summary


def compare_flags(ctx, cnt, cfg, real, modelres, ndis):
    """correspondence: real flags / skips / rounds vs the pass model"""
    cur = modelres['cur']
    if cur is None:
        ctx.broken.append('correspondence c05.validate: the model ran out of fuel on %s' % json.dumps(cfg)[:300])
        return False
    ok = True
    for k in ('tf', 'sf', 'ff', 'pf', 'tskip', 'sskip', 'pacc', 'macc'):
        if cur[k] != real['flags'][k]:
            ok = False
            ndis[0] += 1
            if ndis[0] <= 3:
                ctx.broken.append('correspondence c05.validate differs in %s: real=%s model=%s decls=%s'
                                  % (k, json.dumps(real['flags'][k]), json.dumps(cur[k]), json.dumps(cfg)[:1500]))
            break
    if ok and real['rounds'] is not None and real['rounds'] != cur['rounds']:
        ok = False
        ndis[0] += 1
        if ndis[0] <= 3:
            ctx.broken.append('correspondence c05.validate differs in loop rounds: real=%s model=%s decls=%s'
                              % (real['rounds'], cur['rounds'], json.dumps(cfg)[:1500]))
    if ok and not cur['closed']:
        # the model's own closure clause fails although the theorem says it cannot: proof/model drift
        ctx.broken.append('model closure clause false after validate (contradicts C05_closure): %s' % json.dumps(cfg)[:600])
    cnt.hit('model:rounds=%s' % min(cur['rounds'], 6))
    # how often the property analysis has accessor names to clear / to keep
    for before, after in zip(real['model']['tops'], cur['pacc']):
        for pb, pa in zip(before['body'].get('props', []), after):
            if pb.get('setter') or pb.get('getter'):
                cnt.hit('model:accessor:%s' % ('kept' if (pa[0] or pa[1]) else 'cleared'))
    if modelres['old']['tf'] != cur['tf'] or modelres['old']['sf'] != cur['sf']:
        cnt.hit('model:old-order-differs')
        if not modelres['old']['closed']:
            cnt.hit('model:old-order-ill-formed')
    return ok


def judge_gir(ctx, cnt, cfg, tree, wf, origin, real=None):
    """the property check on real output"""
    issues = [x for x in wf['findings'] if x['kind'] == 'issue']
    for x in wf['findings']:
        if x['kind'] != 'issue':
            cnt.hit('oracle:%s:%s' % (x['kind'], x['code']))
    cnt.hit('oracle:judged-callables', wf['stats'][1])
    cnt.hit('oracle:judged-values', wf['stats'][2])
    cnt.hit('oracle:judged-types', wf['stats'][3])
    if not issues:
        cnt.hit('oracle:well-formed')
        return True
    cnt.hit('oracle:ill-formed')
    seen = set()
    for x in issues:
        key = classify(tree, x, real)
        if key in seen:
            continue
        seen.add(key)
        ctx.report_failure(key, 'emitted GIR is not well-formed: %s at %s %s (input: %s)'
                           % (x['code'], x['path'], x['detail'], origin),
                           {'kind': 'scan', 'cfg': cfg, 'finding': x})
    return False


def neighbours(cfg, limit=40):
    """shrunk variants of a case: one declaration dropped, one comment block dropped"""
    out = []
    for i in range(len(cfg['decls'])):
        c = dict(cfg, decls=[copy.deepcopy(d) for k, d in enumerate(cfg['decls']) if k != i])
        out.append(c)
    for i in range(len(cfg.get('comments', []))):
        out.append(dict(cfg, decls=copy.deepcopy(cfg['decls']),
                        comments=[x for k, x in enumerate(cfg['comments']) if k != i]))
    return out[:limit]


def process_batch(ctx, cnt, stubs, incdir, batch, ndis, samples, state, search=True):
    """batch: list of (cfg, features, origin).  Runs real pipeline, model, oracle.  Around the first
    disagreements / unknown failures the shrunk neighbourhood is explored as well."""
    reals = []
    for cfg, feats, origin in batch:
        r = run_real(cfg, incdir, want_model=state['model_ok'])
        if r['raised'] is not None and r['raised'][0] in ('AttributeError', 'TypeError') and state['model_ok'] \
                and r['raised'][1] in ('namespace_to_model', '_ty', '_sig', '_param', '_walk_children', '_all_fields'):
            # the converter no longer fits the AST: keep the oracle running without the model
            ctx.broken.append('correspondence c05.validate: AST no longer has the shape the converter reads: %s'
                              % (r['raised'], ))
            state['model_ok'] = False
            r = run_real(cfg, incdir, want_model=False)
        reals.append(r)
    mreqs, midx = [], []
    wreqs, widx = [], []
    trees = {}
    for i, ((cfg, feats, origin), r) in enumerate(zip(batch, reals)):
        for f in feats:
            cnt.hit('gen:' + f.split(':')[0] if f.startswith('chain:') else 'gen:' + f)
        if r['raised'] is not None:
            cnt.hit('real:raised:%s:%s' % (r['raised'][0], r['raised'][1]))
            if not raise_allowed(r['raised']) and search:
                # (shrunk neighbours may be inconsistent, e.g. a dump naming a get_type function that was
                # dropped: their crashes are counted, not judged)
                ctx.report_failure('gen:crash:%s:%s' % (r['raised'][0], r['raised'][1]),
                                   'the scanner pipeline raised %s in %s: %s' % r['raised'],
                                   {'kind': 'scan', 'cfg': cfg, 'raised': list(r['raised'])})
            # model correspondence of the pass is still possible when only the writer raised
        if r['model'] is not None and r['flags'] is not None:
            mreqs.append({'op': 'c05.validate', 'ns': r['model']})
            midx.append(i)
        if r['gir'] is not None:
            trees[i] = gir_text_to_tree(r['gir'])
            wreqs.append({'op': 'c05.wf', 'main': trees[i], 'others': list(stubs.values())})
            widx.append(i)
    mres = ctx.driver.batch(mreqs)
    wres = ctx.driver.batch(wreqs)
    todo_neigh = []
    nviol_before = len(ctx.violations)
    for i, res in zip(midx, mres):
        ok = compare_flags(ctx, cnt, batch[i][0], reals[i], res, ndis)
        cnt.hit('corr:flags:%s' % ('agree' if ok else 'DIFFER'))
        if not ok and search and state['neigh'] < 4:
            state['neigh'] += 1
            todo_neigh.append(batch[i])
        state['nodes'] += sum(1 + len(t['body'].get('subs', [])) for t in reals[i]['model']['tops'])
    for i, res in zip(widx, wres):
        cfg, feats, origin = batch[i]
        good = judge_gir(ctx, cnt, cfg, trees[i], res, origin, reals[i])
        for k, v in marked_paths(trees[i]).items():
            cnt.hit('out:' + k, v)
        nontrivial = res['stats'][3] > 0 and any(k.endswith(':marked') for k in marked_paths(trees[i]))
        cnt.case(['scan', cfg['decls'], cfg.get('comments')], nontrivial=nontrivial)
        state['evaluated'] += 1
        if not good and search and len(ctx.violations) > nviol_before and state['neigh'] < 4:
            state['neigh'] += 1
            todo_neigh.append(batch[i])
    if todo_neigh:
        nb = []
        for cfg, feats, origin in todo_neigh:
            nb.extend((c, ['neighbour'], 'neighbour-of:' + origin) for c in neighbours(cfg))
        cnt.hit('search:neighbours', len(nb))
        process_batch(ctx, cnt, stubs, incdir, nb, ndis, samples, state, search=False)
    if batch and len(samples) < 6:
        cfg, feats, origin = batch[-1]
        samples.append({'kind': 'scan', 'origin': origin, 'features': feats,
                        'decls': cfg['decls'][:6], 'comments': [c[0] for c in cfg.get('comments', [])][:3],
                        'raised': reals[-1]['raised']})


def oracle_selftest(ctx, cnt, stubs, corpus):
    """corpus GIR snippets with a known verdict: the oracle must (still) flag / accept them"""
    reqs, exp = [], []
    for c in corpus:
        if c.get('kind') != 'gir':
            continue
        reqs.append({'op': 'c05.wf', 'main': gir_text_to_tree(c['gir']), 'others': list(stubs.values())})
        exp.append(c)
    res = ctx.driver.batch(reqs)
    for c, r in zip(exp, res):
        codes = sorted(set(x['code'] for x in r['findings'] if x['kind'] == 'issue'))
        cnt.hit('selftest:gir')
        if codes != sorted(c['expect']):
            ctx.broken.append('oracle self-test %s: girWellFormed reports %s, expected %s' % (c.get('name'), codes, c['expect']))


def run(ctx):
    cnt = Counter()
    for key, what in PENDING_FINDINGS.items():
        ctx.known.append({'property': 'C05', 'status': 'known', 'key': key, 'what': what})
    ctx.prove(['gen_typenames'], ['GIVerif.Props.C05'], 'GIVerif.Props.C05')
    t1 = time.time()      # the search budget starts after the (possibly contended) Lean build + audit
    ctx.log('proofs rebuilt and audited')
    rng = ctx.rng
    incdir = os.path.join(ctx.scratch, 'inc')
    stubs = write_stubs(incdir)
    samples = []
    corpus = load_corpus()
    ndis = [0]
    state = {'model_ok': True, 'evaluated': 0, 'neigh': 0, 'nodes': 0}
    scanpipe.mods()

    # ---- oracle self-test + shipped files
    oracle_selftest(ctx, cnt, stubs, corpus)
    shipped = check_shipped(ctx, cnt, samples)
    ctx.log('shipped files judged: %d' % len(shipped))

    # ---- corpus declarations first
    batch = [(c['cfg'], c.get('features', ['corpus']), 'corpus:' + c.get('name', c['origin']))
             for c in corpus if c.get('kind') == 'scan']
    process_batch(ctx, cnt, stubs, incdir, batch, ndis, samples, state)
    for c, (cfg, _f, origin) in zip([c for c in corpus if c.get('kind') == 'scan'], batch):
        pass

    # ---- generated namespaces
    n_total = ctx.n(300, 10000)
    deadline = t1 + (50 if ctx.quick() else 700)
    done = 0
    while done < n_total and time.time() < deadline:
        batch = []
        for _ in range(min(100, n_total - done)):
            if rng.random() < 0.35:
                cfg, feats = gen_chain(rng)
                batch.append((cfg, feats, 'chain'))
            else:
                cfg, feats = gen_random(rng)
                batch.append((cfg, feats, 'random'))
        process_batch(ctx, cnt, stubs, incdir, batch, ndis, samples, state)
        done += len(batch)
    ctx.log('generated namespaces: %d' % done)

    # ---- structures / unions handed out by pointer: copy-func / free-func x foreign / skipped / registered x
    #      return / out parameter x typedef depth x (transfer): all of them (thorough), a sample (quick)
    specs = list(all_bare())
    if ctx.quick():
        specs = rng.sample(specs, 150)
    batch = []
    for spec in specs:
        batch.append(bare_case(rng, spec))
        if len(batch) >= 200:
            process_batch(ctx, cnt, stubs, incdir, batch, ndis, samples, state)
            batch = []
    process_batch(ctx, cnt, stubs, incdir, batch, ndis, samples, state)
    ctx.log('bare structures handed out: %d of %d' % (len(specs), len(list(all_bare()))))

    # ---- exhaustive chains (thorough) / a slice of them (quick)
    exhaustive = False
    chains = 0
    if ctx.tier == 'thorough':
        todo = all_chains(4)
    else:
        todo = all_chains(2)
    batch = []
    complete = True
    for kinds, base, order in todo:
        if time.time() > t1 + (60 if ctx.quick() else 800):
            complete = False
            break
        b, n = build_chain(rng, kinds, base)
        cfg = b.cfg(order=list(order) + list(range(len(order), n)))
        batch.append((cfg, ['chain:%s:%s' % (kinds, base)], 'exhaustive-chain:%s:%s:%s' % (kinds, base, ''.join(map(str, order)))))
        chains += 1
        if len(batch) >= 200:
            process_batch(ctx, cnt, stubs, incdir, batch, ndis, samples, state)
            batch = []
    process_batch(ctx, cnt, stubs, incdir, batch, ndis, samples, state)
    exhaustive = complete
    ctx.log('exhaustive chains: %d (complete=%s)' % (chains, complete))

    # ---- writer indices
    wcases = writer_index_cases(rng, ctx.n(300, 4000))
    mres = ctx.driver.batch([{'op': 'c05.index', 'names': c['names'], 'closure': c['closure'],
                              'destroy': c['destroy'], 'length': c['length']} for c in wcases])
    nwd = 0
    for c, mr in zip(wcases, mres):
        try:
            real = real_writer_index(c)
        except (AttributeError, TypeError) as e:
            ctx.broken.append('correspondence c05.index: the ast / GIRWriter API used to build the case has changed: %r' % e)
            break
        if real is None:
            continue
        cnt.hit('index:%s' % ('ok' if 'ok' in real else real['err']))
        if real != mr:
            nwd += 1
            if nwd <= 3:
                ctx.broken.append('correspondence c05.index differs: case=%s real=%s model=%s' % (json.dumps(c), real, mr))
        if 'ok' in real:
            for v in real['ok']:
                if v is not None and not (0 <= v < len(c['names'])):
                    ctx.report_failure('index:out-of-range:' + json.dumps(c, sort_keys=True),
                                       'GIRWriter wrote index %s for %d parameters' % (v, len(c['names'])),
                                       {'kind': 'index', 'case': c, 'real': real})
    fcases = []
    for _ in range(ctx.n(100, 1000)):
        k = rng.randint(0, 4)
        fcases.append({'names': [rng.choice(['n', 'len', 'a', 'b']) for _ in range(k)],
                       'length': rng.choice(['n', 'len', 'nosuch', 'arr']), 'parent': rng.choice(['compound', 'compound', 'other'])})
    mres = ctx.driver.batch([dict(op='c05.flength', **dict(c, names=c['names'] + ['arr'])) for c in fcases])
    for c, mr in zip(fcases, mres):
        try:
            real = real_field_length(c)
        except (AttributeError, TypeError) as e:
            ctx.broken.append('correspondence c05.flength: the ast / GIRWriter API used to build the case has changed: %r' % e)
            break
        cnt.hit('flength:%s' % ('ok' if 'ok' in real else real['err']))
        if real != mr:
            nwd += 1
            if nwd <= 3:
                ctx.broken.append('correspondence c05.flength differs: case=%s real=%s model=%s' % (json.dumps(c), real, mr))

    ctx.coverage.update({
        'evaluations': state['evaluated'] + len(shipped) + len(wcases) + len(fcases),
        'distinct_nontrivial': cnt.n_distinct(),
        'rule': 'generated API descriptions (records and unions — also skipped, foreign, with function-pointer fields '
                'and nested anonymous structs / unions —, callbacks, aliases, enums, functions, methods, classes '
                'with a supplied dump, rename-to pairs and chains) over pools of fundamental, exotic, unresolved, '
                'included, included-but-marked, callback and container types with and without scope / transfer / '
                'element-type / closure / destroy / length annotations, declaration units shuffled; explicit reference '
                'chains base <- alias|callback|record-field ... <- user of depth 1-6; the family of structures / unions '
                'with copy-func / free-func / both / neither x plain / foreign / skipped / registered, handed out by '
                'functions and methods as return value, (out) or (out caller-allocates) parameter, directly or '
                'through 1-2 typedefs, with (transfer none|full) or without (all 1440 in thorough, 150 sampled in '
                'quick); the exhaustive chain family '
                '(every kind sequence x 2 bases x all declaration orders); plus every GIR file shipped or expected '
                'in the repository. Every namespace goes through the REAL pipeline; girWellFormed (Lean) is evaluated '
                'on the emitted GIR; real flags / skips / accessor names / loop rounds are compared with the pass model. non-trivial = '
                'the GIR has at least one judged type and at least one element marked introspectable="0" (scan) or at '
                'least one judged type (shipped); distinct by content hash of declarations + comments.',
        'samples': samples,
        'distribution': cnt.counts,
        'corpus_cases': len(corpus),
        'shipped_files': shipped,
        'model_nodes_compared': state['nodes'],
        'exhaustive': False,
        'exhaustive_chains': {'complete': exhaustive, 'max_len': 4 if ctx.tier == 'thorough' else 2, 'cases': chains},
    })
    ctx.assumptions.extend([
        'the C lexer/parser is not built: inputs start at the symbol stream (scanpipe)',
        'included namespaces GLib/GObject/Gio/Inc are small hand-written GIR stubs (harness/c05.py STUBS)',
        'an element below an element marked introspectable="0" is not judged (girparser.c drops the subtree)',
        'parameters / return values marked skip="1" are exempt from the transfer / scope / element-type clauses '
        '(counted under oracle:skipex:*), not from the type clauses',
        'a list/array "states an element type" when it has a child type; for the outermost list/array of a parameter '
        'or return value the placeholder gpointer child the writer emits for a missing annotation counts as not stated',
        'a reference into a namespace whose GIR is not in the tree (GLib, GObject, Gio, cairo for the shipped files) is '
        'counted as unresolvable-include and not judged',
        'SystemExit (message.fatal), ValueError from get_parameter_index/get_field_index/get_parameter and the '
        'AssertionError of _write_type are the "or raises" of the index clause; any other exception is reported',
        'model: the looked-up node of a reference into an included namespace (flags, kind after alias resolution) is '
        'input data of the model (Ty.ext); nested anonymous records are flattened into their parent',
    ])


def replay(ctx, rep):
    for key, what in PENDING_FINDINGS.items():
        ctx.known.append({'property': 'C05', 'status': 'known', 'key': key, 'what': what})
    r = rep['replay']
    cnt = Counter()
    incdir = os.path.join(ctx.scratch, 'inc')
    stubs = write_stubs(incdir)
    if r['kind'] == 'scan':
        real = run_real(r['cfg'], incdir, want_model=False)
        print('raised=%r' % (real['raised'], ))
        if real['gir'] is None:
            return 0 if (real['raised'] and raise_allowed(real['raised'])) else 1
        tree = gir_text_to_tree(real['gir'])
        wf = ctx.driver.call('c05.wf', main=tree, others=list(stubs.values()))
        for x in wf['findings']:
            if x['kind'] == 'issue':
                print('ISSUE %s %s %s' % (x['code'], x['path'], x['detail']))
        print(real['gir'])
        return 0 if wf['ok'] else 1
    if r['kind'] == 'shipped':
        summary = check_shipped(ctx, cnt, [])
        bad = [s for s in summary if s['file'] == r['file'] and not s['well_formed']]
        print(json.dumps(bad, indent=1))
        return 1 if bad else 0
    if r['kind'] == 'index':
        real = real_writer_index(r['case'])
        print(real)
        return 0
    return 2
