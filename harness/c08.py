"""C08 — Record and union layout stored in typelibs equals the platform C ABI.

Proof: lean/GIVerif/Props/C08.lean over lean/GIVerif/Model/Offsets.lean (giroffsets.c) and the
declarative System V rule lean/GIVerif/Spec/CLayout.lean.
Tie: (1) translators/gen_ffisizes.py re-measures the ffi sizes returned by the real
gi_type_tag_get_ffi_type, the probe enums of giroffsets.c and re-reads the formula shapes;
(2) every generated declaration goes three ways:
      (a) GIR -> the real g-ir-compiler (built this run from /repo) -> typelib ->
          cdrivers/c08_layout (public repository API) -> size / alignment / offsets / enum storage
      (b) the Lean driver: model of giroffsets.c (+ the blob truncations of girnode.c) and the
          declarative Spec evaluated on the same declaration tree
      (c) a C translation unit compiled with gcc printing sizeof / _Alignof / offsetof.
    (a) vs (c) is the STATEMENT ORACLE (failing-input search); (a) vs (b) the model
    correspondence; Spec(b) vs (c) validates the one unprovable step "Spec.cLayout is what the
    C compiler does".
"""
import concurrent.futures
import itertools
import json
import os
import re
import subprocess

from core import REPO, VERIF, Counter, HarnessError

UNKNOWN_SIZE = 0xFFFFFFFF
UNKNOWN_ALIGN = 63
UNKNOWN_OFF = 0xFFFF
INT32_MIN, INT32_MAX, UINT32_MAX = -2 ** 31, 2 ** 31 - 1, 2 ** 32 - 1

# Confirmed defects of the unchanged tree, reported to the integrator (see the final report of
# this work package).  Each key names the input CLASS; a failure is attributed to a class only
# when the declaration is in the class AND the real code's output is exactly what the model of
# the defect predicts — anything else is still reported as a violation.
PENDING_FINDINGS = [
    {'key': 'non-introspectable-by-value-field:sized-as-pointer',
     'what': 'a field marked introspectable="0" whose C type is not pointer-sized (e.g. `long double`, as '
             'g-ir-scanner writes it) is laid out as a gpointer: wrong positive size/offsets instead of '
             '"unknown" (girparser.c start_field replaces the type by gpointer)'},
]
(K_NONINTRO,) = [p['key'] for p in PENDING_FINDINGS]
# repaired in /repo: 260587f (field offsets that do not fit 16 bits are stored as unknown), 1fcf299 (an enum with a
# negative member and a member above G_MAXINT gets gint64), b00e44e (a function pointer member of a union / boxed
# is a gpointer field instead of killing the compiler), 30f920b (a flexible array member is not a pointer: the
# structure is recorded unknown).  Their witnesses stay in corpus/C08 as regressions and are judged like everything
# else, with no suppression.  5a4179a (b00e44e left ctx->current_typed dangling: the <method> / <callback> after such a
# field was taken as the field's callback; found by this check's thorough tier): regression batch KCbThenMethod.

# ---------------------------------------------------------------------------------------------
# vocabulary: GIR basic type name -> C spelling used in the gcc translation unit.  The C side is
# written from first principles (stdint / the C types GLib documents for x86-64 Linux), NOT from
# the shim headers, so that it is an independent statement of "the same declaration".
C_PRELUDE = r'''
#include <stdio.h>
#include <stddef.h>
#include <stdint.h>
#include <sys/types.h>
#include <sys/socket.h>
#include <time.h>
typedef int8_t gint8; typedef uint8_t guint8; typedef int16_t gint16; typedef uint16_t guint16;
typedef int32_t gint32; typedef uint32_t guint32; typedef int64_t gint64; typedef uint64_t guint64;
typedef char gchar; typedef unsigned char guchar; typedef short gshort; typedef unsigned short gushort;
typedef int gint; typedef unsigned int guint; typedef long glong; typedef unsigned long gulong;
typedef signed long gssize; typedef unsigned long gsize; typedef long gintptr; typedef unsigned long guintptr;
typedef int gboolean; typedef float gfloat; typedef double gdouble; typedef gsize GType; typedef guint32 gunichar;
typedef void *gpointer; typedef const void *gconstpointer;
'''
BASIC_VALUE = ['gint8', 'guint8', 'gint16', 'guint16', 'gint32', 'guint32', 'gint64', 'guint64',
               'gchar', 'guchar', 'gshort', 'gushort', 'gint', 'guint', 'glong', 'gulong', 'gssize', 'gsize',
               'gintptr', 'guintptr', 'gboolean', 'gfloat', 'gdouble', 'GType', 'gunichar',
               'time_t', 'off_t', 'pid_t', 'uid_t', 'gid_t', 'dev_t', 'socklen_t']
# (signed, bytes) of girparser.c's integer_aliases on this platform (sizeof / signedness there)
ALIAS_INT = {'gchar': (1, 1), 'guchar': (0, 1), 'gshort': (1, 2), 'gushort': (0, 2), 'gint': (1, 4), 'guint': (0, 4),
             'glong': (1, 8), 'gulong': (0, 8), 'gssize': (1, 8), 'gsize': (0, 8), 'gintptr': (1, 8),
             'guintptr': (0, 8), 'off_t': (1, 8), 'time_t': (1, 8), 'dev_t': (0, 8), 'gid_t': (0, 4),
             'pid_t': (1, 4), 'socklen_t': (0, 4), 'uid_t': (0, 4)}
FIXED_TAG = {(1, 1): 'gint8', (0, 1): 'guint8', (1, 2): 'gint16', (0, 2): 'guint16', (1, 4): 'gint32',
             (0, 4): 'guint32', (1, 8): 'gint64', (0, 8): 'guint64'}
FALLBACK_BASIC = {'none': (0, 0), 'gpointer': (0, 1), 'gboolean': (1, 0), 'gint8': (2, 0), 'guint8': (3, 0),
                  'gint16': (4, 0), 'guint16': (5, 0), 'gint32': (6, 0), 'guint32': (7, 0), 'gint64': (8, 0),
                  'guint64': (9, 0), 'gfloat': (10, 0), 'gdouble': (11, 0), 'GType': (12, 0), 'utf8': (13, 1),
                  'filename': (14, 1), 'gunichar': (21, 0)}


def read_basic_types(ctx):
    """girparser.c's basic_types[] table (name -> (tag number, pointer)), re-read from the source;
    tag numbers from gitypes.h.  Falls back to the values the model was written for."""
    try:
        with open(os.path.join(REPO, 'girepository', 'gitypes.h')) as f:
            tags = dict((m.group(1), int(m.group(2)))
                        for m in re.finditer(r'GI_TYPE_TAG_(\w+)\s*=\s*(\d+)', f.read()))
        with open(os.path.join(REPO, 'girepository', 'girparser.c')) as f:
            src = f.read()
        body = re.search(r'static BasicTypeInfo basic_types\[\] = \{(.*?)\n\};', src, re.S).group(1)
        out = {}
        for m in re.finditer(r'\{\s*"(\w+)",\s*GI_TYPE_TAG_(\w+),\s*(\d)\s*\}', body):
            out[m.group(1)] = (tags[m.group(2)], int(m.group(3)))
        if len(out) < 10:
            raise ValueError('only %d entries' % len(out))
        return out
    except Exception as e:  # noqa
        ctx.broken.append('correspondence c08.layout: girparser.c basic_types[] could not be re-read (%r); '
                          'using the table the model was written for' % (e,))
        return dict(FALLBACK_BASIC)


# ---------------------------------------------------------------------------------------------
# declarations.  A batch is a list of type definitions of one namespace:
#   {'d':'enum'|'flags', 'name', 'values':[int]}
#   {'d':'struct'|'union'|'boxed'|'object', 'name', 'members':[{'name', 't':T}]}
#   {'d':'callback', 'name'}       {'d':'alias', 'name', 'target': basic name | type name}
# member type T:
#   {'k':'basic','n'}  {'k':'ptr','to': 'void'|'utf8'|'filename'|'basic:<n>'|'type:<name>'|'glist'}
#   {'k':'array','n':int,'of':T}  {'k':'iface','name'}  {'k':'cb'}  {'k':'bits','n','bits'}
#       array option 'ct': how the <array> element spells its c:type — absent/'elem' = the element's C name
#       (no `*`), 'none' = no c:type at all (what g-ir-scanner writes for an array FIELD), 'ptr' = the
#       decayed pointer type ending in `*` (`gchar**`; other producers, and the scanner for parameters)
#   {'k':'lenarray','of':basic name}       unsized <array> with pointer c:type  (a pointer)
#   {'k':'flex','of':basic name}           unsized <array>, no c:type  (`T f[];`): not a pointer, unknown size
#   {'k':'strv'}                           unsized <array c:type="gchar**"> without length  (a pointer)
#   {'k':'nonintro','c': C type}           introspectable="0" field, C type given
#   {'k':'barecb'}                         <callback> directly inside the record (old GIR style)
#   {'k':'method'}                         a <method> of the type between its fields (no layout, no FieldBlob)
#   {'k':'void'} / {'k':'self'} / {'k':'unresolved'}   fields that make g-ir-compiler stop
class Batch(object):
    def __init__(self, ns, decls):
        self.ns = ns
        self.decls = decls
        self.by_name = dict((d['name'], d) for d in decls)

    def cname(self, name):
        return self.ns + name


def esc(s):
    return s.replace('&', '&amp;').replace('<', '&lt;').replace('"', '&quot;')


CB_BODY = '<return-value transfer-ownership="none"><type name="none" c:type="void"/></return-value>'


def gir_type(b, t):
    k = t['k']
    if k == 'basic':
        return '<type name="%s" c:type="%s"/>' % (t['n'], t['n'])
    if k == 'ptr':
        to = t['to']
        if to == 'void':
            return '<type name="gpointer" c:type="gpointer"/>'
        if to == 'utf8':
            return '<type name="utf8" c:type="gchar*"/>'
        if to == 'filename':
            return '<type name="filename" c:type="gchar*"/>'
        if to == 'glist':
            return '<type name="GLib.List" c:type="GList*"><type name="gpointer" c:type="gpointer"/></type>'
        kind, n = to.split(':', 1)
        if kind == 'basic':
            return '<type name="%s" c:type="%s*"/>' % (n, n)
        return '<type name="%s" c:type="%s*"/>' % (n, b.cname(n))
    if k == 'array':
        ct = t.get('ct', 'elem')
        attr = '' if ct == 'none' else ' c:type="%s"' % esc(c_elem_name(b, t) + ('*' if ct == 'ptr' else ''))
        return '<array zero-terminated="0" fixed-size="%d"%s>%s</array>' % (t['n'], attr, gir_type(b, t['of']))
    if k in ('iface', 'self'):
        return '<type name="%s" c:type="%s"/>' % (t['name'], b.cname(t['name']))
    if k == 'lenarray':
        return '<array length="0" zero-terminated="0" c:type="%s*"><type name="%s" c:type="%s"/></array>' % (
            t['of'], t['of'], t['of'])
    if k == 'flex':
        return '<array zero-terminated="0"><type name="%s" c:type="%s"/></array>' % (t['of'], t['of'])
    if k == 'strv':
        return '<array c:type="gchar**"><type name="utf8" c:type="gchar*"/></array>'
    if k == 'void':
        return '<type name="none" c:type="void"/>'
    if k == 'unresolved':
        return '<type name="NoSuchType" c:type="%sNoSuchType"/>' % b.ns
    raise HarnessError('gir_type: %r' % (t,))


def c_elem_name(b, t):
    while t['k'] == 'array':
        t = t['of']
    if t['k'] == 'basic':
        return t['n']
    if t['k'] in ('iface', 'self'):
        return b.cname(t['name'])
    if t['k'] == 'ptr' and t['to'] in ('utf8', 'filename'):
        return 'gchar*'
    return 'gpointer'


def gir_member(b, m):
    t = m['t']
    k = t['k']
    if k == 'cb':
        return '<field name="%s" writable="1"><callback name="%s">%s</callback></field>' % (m['name'], m['name'], CB_BODY)
    if k == 'barecb':
        return '<callback name="%s">%s</callback>' % (m['name'], CB_BODY)
    if k == 'method':
        return '<method name="%s" c:identifier="x_%s">%s</method>' % (m['name'], m['name'], CB_BODY)
    if k == 'bits':
        return '<field name="%s" writable="1" bits="%d"><type name="%s" c:type="%s"/></field>' % (
            m['name'], t['bits'], t['n'], t['n'])
    if k == 'nonintro':
        return '<field name="%s" introspectable="0" writable="1"><type c:type="%s"/></field>' % (m['name'], esc(t['c']))
    return '<field name="%s" writable="1">%s</field>' % (m['name'], gir_type(b, t))


def render_gir(b):
    out = ['<?xml version="1.0"?>',
           '<repository version="1.2" xmlns="http://www.gtk.org/introspection/core/1.0" '
           'xmlns:c="http://www.gtk.org/introspection/c/1.0" xmlns:glib="http://www.gtk.org/introspection/glib/1.0">',
           '<namespace name="%s" version="1.0" c:identifier-prefixes="%s" c:symbol-prefixes="%s">' % (
               b.ns, b.ns, b.ns.lower())]
    for d in b.decls:
        n, cn = d['name'], b.cname(d['name'])
        if d['d'] in ('enum', 'flags'):
            el = 'enumeration' if d['d'] == 'enum' else 'bitfield'
            out.append('<%s name="%s" c:type="%s">' % (el, n, cn))
            for i, v in enumerate(d['values']):
                out.append('<member name="v%d" value="%d" c:identifier="%s_V%d"/>' % (i, v, cn.upper(), i))
            out.append('</%s>' % el)
        elif d['d'] == 'callback':
            out.append('<callback name="%s" c:type="%s">%s</callback>' % (n, cn, CB_BODY))
        elif d['d'] == 'alias':
            out.append('<alias name="%s" c:type="%s"><type name="%s" c:type="%s"/></alias>' % (
                n, cn, d['target'], d['target'] if d['target'] in BASIC_VALUE else b.cname(d['target'])))
        elif d['d'] in ('struct', 'union'):
            el = 'record' if d['d'] == 'struct' else 'union'
            out.append('<%s name="%s" c:type="%s">' % (el, n, cn))
            out.extend(gir_member(b, m) for m in d['members'])
            out.append('</%s>' % el)
        elif d['d'] == 'boxed':
            out.append('<glib:boxed glib:name="%s" c:symbol-prefix="%s" glib:type-name="%s" glib:get-type="%s_get_type">'
                       % (n, n.lower(), cn, cn.lower()))
            out.extend(gir_member(b, m) for m in d['members'])
            out.append('</glib:boxed>')
        elif d['d'] == 'object':
            out.append('<class name="%s" c:symbol-prefix="%s" c:type="%s" glib:type-name="%s" glib:get-type="%s_get_type">'
                       % (n, n.lower(), cn, cn, cn.lower()))
            out.extend(gir_member(b, m) for m in d['members'])
            out.append('</class>')
        else:
            raise HarnessError('render_gir: %r' % (d,))
    out.append('</namespace></repository>')
    return '\n'.join(out) + '\n'


# ---- (b) the node description handed to the Lean model: mirrors girparser.c start_type/start_field
def resolve_alias(b, name):
    seen = set()
    while name in b.by_name and b.by_name[name]['d'] == 'alias' and name not in seen:
        seen.add(name)
        name = b.by_name[name]['target']
    return name


def model_basic(basic, name, ptr=False):
    if name in basic:
        tag, p = basic[name]
        return {'k': 'basic', 'tag': tag, 'ptr': bool(p) or ptr}
    if name in ALIAS_INT:
        tag, p = basic[FIXED_TAG[ALIAS_INT[name]]]
        return {'k': 'basic', 'tag': tag, 'ptr': bool(p) or ptr}
    return None


def model_named(b, basic, name, ptr):
    name = resolve_alias(b, name)
    mb = model_basic(basic, name, ptr)
    if mb is not None:
        return mb
    return {'k': 'iface', 'name': name, 'ptr': ptr}


def model_type(b, basic, t):
    k = t['k']
    if k == 'basic':
        return model_named(b, basic, t['n'], False)
    if k == 'ptr':
        to = t['to']
        if to == 'void':
            return model_basic(basic, 'gpointer')
        if to in ('utf8', 'filename'):
            return model_basic(basic, to)
        if to == 'glist':
            return {'k': 'basic', 'tag': 17, 'ptr': True}
        _kind, n = to.split(':', 1)
        return model_named(b, basic, n, True)
    # C array typed fields: the attributes start_type looks at (Model.fieldArrayTy decides is_pointer)
    if k == 'array':
        ct = t.get('ct', 'elem')
        ctype_ptr = ct == 'ptr' or (ct == 'elem' and c_elem_name(b, t).endswith('*'))
        return {'k': 'fieldarray', 'has_size': True, 'size': t['n'], 'has_length': False, 'ctype_ptr': ctype_ptr,
                'elem': model_type(b, basic, t['of'])}
    if k in ('lenarray', 'flex'):
        return {'k': 'fieldarray', 'has_size': False, 'size': -1, 'has_length': k == 'lenarray', 'ctype_ptr': k == 'lenarray',
                'elem': model_named(b, basic, t['of'], False)}
    if k == 'strv':
        return {'k': 'fieldarray', 'has_size': False, 'size': -1, 'has_length': False, 'ctype_ptr': True,
                'elem': model_basic(basic, 'utf8')}
    if k in ('iface', 'self'):
        return model_named(b, basic, t['name'], False)
    if k == 'void':
        return model_basic(basic, 'none')
    if k == 'unresolved':
        return {'k': 'iface', 'name': 'NoSuchType', 'ptr': False}
    if k == 'nonintro':
        return model_basic(basic, 'gpointer')
    if k == 'bits':
        return model_named(b, basic, t['n'], False)
    raise HarnessError('model_type: %r' % (t,))


def model_nodes(b, basic):
    nodes = []
    for d in b.decls:
        if d['d'] in ('enum', 'flags'):
            nodes.append({'name': d['name'], 'kind': d['d'], 'values': d['values']})
        elif d['d'] == 'callback':
            nodes.append({'name': d['name'], 'kind': 'callback'})
        elif d['d'] == 'alias':
            continue            # aliases are not module entries
        else:
            ms = []
            for m in d['members']:
                k = m['t']['k']
                if k == 'cb':
                    # <field><callback/></field>: Model.inlineCallbackField decides by the container
                    ms.append({'m': 'cbfield', 'name': m['name']})
                elif k == 'barecb':
                    ms.append({'m': 'callback', 'name': m['name']})
                elif k == 'method':
                    ms.append({'m': 'other'})
                else:
                    ms.append({'m': 'field', 'name': m['name'], 'cb': False, 'ty': model_type(b, basic, m['t'])})
            nodes.append({'name': d['name'], 'kind': d['d'], 'members': ms})
    return nodes


# ---- (c) the same declarations for gcc
def c_decl(b, t, fname):
    k = t['k']
    if k == 'basic':
        n = t['n']
        return '%s %s' % (n if n in BASIC_VALUE else b.cname(n), fname)
    if k == 'ptr':
        to = t['to']
        if to == 'void':
            return 'gpointer %s' % fname
        if to in ('utf8', 'filename'):
            return 'gchar *%s' % fname
        if to == 'glist':
            return 'struct _GList *%s' % fname
        kind, n = to.split(':', 1)
        return '%s *%s' % (n if kind == 'basic' else b.cname(n), fname)
    if k == 'array':
        dims = ''
        while t['k'] == 'array':
            dims += '[%d]' % t['n']
            t = t['of']
        return c_decl(b, t, fname + dims)
    if k in ('iface', 'self'):
        return '%s %s' % (b.cname(t['name']), fname)
    if k in ('cb', 'barecb'):
        return 'void (*%s)(void)' % fname
    if k == 'lenarray':
        return '%s *%s' % (t['of'], fname)
    if k == 'flex':
        return '%s %s[]' % (t['of'], fname)
    if k == 'strv':
        return 'gchar **%s' % fname
    if k == 'nonintro':
        c = t['c']
        if c.endswith('*'):
            return '%s%s' % (c, fname)
        return '%s %s' % (c, fname)
    if k == 'bits':
        return '%s %s : %d' % (t['n'], fname, t['bits'])
    raise HarnessError('c_decl: %r' % (t,))


def render_c(b, judged):
    """typedefs for the whole batch and a function printing the layout of the declarations in
    `judged` (names); declarations that are not valid C are never put in `judged`."""
    out = []
    for d in b.decls:
        cn = b.cname(d['name'])
        if d['d'] in ('struct', 'boxed', 'object'):
            out.append('typedef struct _%s %s;' % (cn, cn))
        elif d['d'] == 'union':
            out.append('typedef union _%s %s;' % (cn, cn))
    for d in b.decls:
        n, cn = d['name'], b.cname(d['name'])
        if d['d'] in ('enum', 'flags'):
            vals = ', '.join('%s_V%d = %s' % (cn.upper(), i, c_int(v)) for i, v in enumerate(d['values']))
            out.append('typedef enum { %s } %s;' % (vals, cn))
        elif d['d'] == 'callback':
            out.append('typedef void (*%s)(void);' % cn)
        elif d['d'] == 'alias':
            tgt = d['target']
            out.append('typedef %s %s;' % (tgt if tgt in BASIC_VALUE else b.cname(tgt), cn))
        elif n in judged:
            kw = 'union' if d['d'] == 'union' else 'struct'
            out.append('%s _%s { %s };' % (kw, cn, ' '.join(c_decl(b, m['t'], m['name']) + ';' for m in d['members']
                                                              if m['t']['k'] != 'method')))
    fn = ['static void dump_%s(void) {' % b.ns, '  printf("N %s\\n");' % b.ns]
    for d in b.decls:
        n, cn = d['name'], b.cname(d['name'])
        if n not in judged:
            continue
        if d['d'] in ('enum', 'flags'):
            fn.append('  printf("E %s %%zu %%d\\n", sizeof(%s), (int)(((%s)-1) < 0));' % (n, cn, cn))
        else:
            fn.append('  printf("%s %s %%zu %%zu\\n", sizeof(%s), _Alignof(%s));' % (
                'U' if d['d'] == 'union' else 'S', n, cn, cn))
            for m in d['members']:
                if m['t']['k'] not in ('bits', 'method'):
                    fn.append('  printf("F %s %%zu\\n", offsetof(%s, %s));' % (m['name'], cn, m['name']))
    fn.append('}')
    return '\n'.join(out + fn) + '\n'


def c_int(v):
    if v == -2 ** 63:
        return '(-9223372036854775807LL - 1)'
    if v < INT32_MIN or v > INT32_MAX:
        return '%dLL' % v if v < 2 ** 63 else '%dULL' % v
    if v == INT32_MIN:
        return '(-2147483647 - 1)'
    return '%d' % v


# ---------------------------------------------------------------------------------------------
# classification of a declaration against the property's quantifier
def member_flags(b, t, memo, depth=0):
    """set of flags of a member type, transitively through by-value nesting"""
    k = t['k']
    if k in ('basic',):
        n = t['n']
        if n in b.by_name:       # alias
            return decl_flags(b, resolve_alias(b, n), memo, depth + 1) if resolve_alias(b, n) in b.by_name else set()
        return set()
    if k in ('ptr', 'cb', 'lenarray', 'strv', 'method'):
        return set()
    if k == 'array':
        fl = set(member_flags(b, t['of'], memo, depth))
        if t['n'] >= 65536:
            fl.add('bigarray')
        return fl
    if k == 'iface':
        return decl_flags(b, resolve_alias(b, t['name']), memo, depth + 1)
    if k == 'flex':
        return {'flex'}
    if k == 'nonintro':
        return {'nonintro_ptr'} if t['c'].endswith('*') else {'nonintro_value'}
    if k == 'bits':
        return {'bits'}
    if k == 'barecb':
        return {'barecb'}
    if k in ('void', 'self', 'unresolved'):
        return {'abort'}
    raise HarnessError('member_flags: %r' % (t,))


def decl_flags(b, name, memo, depth=0):
    if name in memo:
        return memo[name]
    d = b.by_name.get(name)
    if d is None:
        return set()
    if depth > 12:
        return {'abort'}
    fl = set()
    if d['d'] in ('enum', 'flags'):
        vs = d['values'] or [0]
        mn, mx = min(min(vs), 0), max(max(vs), 0)
        if mn < INT32_MIN or mx > UINT32_MAX:
            fl.add('enum64')                  # outside the typelib format (ValueBlob is 32 bit)
        elif mn < 0 and mx > INT32_MAX:
            fl.add('enum33')                  # every member fits the blob, the range needs 33 bits
    elif d['d'] in ('struct', 'union', 'boxed', 'object'):
        for m in d['members']:
            fl |= member_flags(b, m['t'], memo, depth)
        if d['d'] == 'union' and any(m['t']['k'] == 'barecb' for m in d['members']):
            fl.add('barecb_union')
    memo[name] = fl
    return fl


# ---------------------------------------------------------------------------------------------
# generators
ENUM_CLASSES = ['small', 'u8', 'u16lo', 'u16', 'u31', 'u32', 'neg8', 'negm128', 'neg16', 'neg32', 'min32',
                'mixed33', 'big64', 'neg64', 'zero']


def gen_enum_values(rng, cls):
    r = rng.randint
    if cls == 'small':
        return [r(0, 127) for _ in range(r(1, 4))]
    if cls == 'u8':
        return [r(0, 127), r(128, 255)]
    if cls == 'u16lo':
        return [1, r(256, 32767)]
    if cls == 'u16':
        return [r(32768, 65535), 0]
    if cls == 'u31':
        return [r(65536, INT32_MAX), rng.choice([1, INT32_MAX])]
    if cls == 'u32':
        return [rng.choice([2 ** 31, UINT32_MAX, r(2 ** 31, UINT32_MAX)]), 1]
    if cls == 'neg8':
        return [r(-127, -1), r(0, 127)]
    if cls == 'negm128':
        return [-128, r(0, 127)]
    if cls == 'neg16':
        return [rng.choice([-129, -32768, r(-32768, -129)]), rng.choice([1, 32767, 200])]
    if cls == 'neg32':
        return [rng.choice([-32769, r(-2 ** 31, -32769), -1]), rng.choice([32768, INT32_MAX, 70000])]
    if cls == 'min32':
        return [INT32_MIN, rng.choice([0, INT32_MAX])]
    if cls == 'mixed33':
        return [rng.choice([-1, -128, INT32_MIN, r(INT32_MIN, -1)]), rng.choice([2 ** 31, UINT32_MAX, r(2 ** 31, UINT32_MAX)])]
    if cls == 'big64':
        return [rng.choice([2 ** 32, 2 ** 40 + 5, 2 ** 63 - 1]), 1]
    if cls == 'neg64':
        return [rng.choice([-2 ** 31 - 1, -2 ** 40, -2 ** 63]), 1]
    return [0]


class Gen(object):
    """builds one batch: enums of every range class, callbacks, aliases, then structs/unions bottom-up
    (level 0 = leaves only ... level 3 nest level-2 types: depth <= 4)"""

    def __init__(self, rng, ns, n_compound, weights=None):
        self.rng = rng
        self.ns = ns
        self.decls = []
        self.levels = {0: [], 1: [], 2: [], 3: []}    # name lists of struct/union by nesting level
        self.enums = []
        self.enum_pool = []
        self.n_compound = n_compound
        self.counter = 0
        self.weights = weights or {}

    def fresh(self, p):
        self.counter += 1
        return '%s%d' % (p, self.counter)

    def build(self):
        rng = self.rng
        for cls in ENUM_CLASSES:
            if cls in ('big64', 'neg64', 'zero') and rng.random() < 0.5:
                continue
            n = self.fresh('E')
            self.decls.append({'d': rng.choice(['enum', 'enum', 'flags']), 'name': n,
                               'values': gen_enum_values(rng, cls), 'cls': cls})
            self.enums.append(n)
            # as member types: mostly the in-format classes; the out-of-format 64-bit ranges are rarer so that
            # most structs stay fully judged
            self.enum_pool.extend([n] * (1 if cls in ('big64', 'neg64') else 6))
        self.decls.append({'d': 'callback', 'name': 'Cb'})
        self.decls.append({'d': 'alias', 'name': 'Al', 'target': rng.choice(['gint16', 'guint64', 'gdouble', 'gint'])})
        for i in range(self.n_compound):
            level = min(3, rng.choice([0, 0, 0, 1, 1, 2, 2, 3]))
            while level > 0 and not self.levels[level - 1]:
                level -= 1
            kind = rng.choice(['struct', 'struct', 'struct', 'union'])
            if rng.random() < 0.03:
                kind = rng.choice(['boxed', 'object'])
            name = self.fresh({'struct': 'S', 'union': 'U', 'boxed': 'B', 'object': 'O'}[kind])
            nm = rng.choice([0, 1, 1, 2, 2, 3, 3, 4, 5, 6, 8, 10, 12])
            members = []
            for j in range(nm):
                t = self.member_type(level, kind)
                members.append({'name': 'f%d' % j, 't': t})
            if rng.random() < 0.08:
                for _ in range(rng.randint(1, 2)):
                    members.insert(rng.randint(0, len(members)), {'name': 'mth%d' % len(members), 't': {'k': 'method'}})
            if level > 0 and members and not any(self.nests(m['t']) for m in members):
                members[rng.randrange(len(members))]['t'] = {'k': 'iface', 'name': rng.choice(self.levels[level - 1])}
            d = {'d': kind, 'name': name, 'members': members}
            if (kind in ('struct', 'object', 'boxed') and any(m['t']['k'] != 'method' for m in members)
                    and rng.random() < self.weights.get('flex', 0.02)):
                members.append({'name': 'tail', 't': {'k': 'flex', 'of': rng.choice(['gchar', 'gint32', 'guint64', 'gdouble'])}})
                d['no_nest'] = True
            self.decls.append(d)
            if not d.get('no_nest'):
                self.levels[level].append(name)
        if rng.random() < 0.5:
            self.decls.append({'d': 'alias', 'name': 'AlS', 'target': self.levels[0][0]}) if self.levels[0] else None
        return Batch(self.ns, self.decls)

    @staticmethod
    def nests(t):
        while t['k'] == 'array':
            t = t['of']
        return t['k'] == 'iface' and t['name'][0] in 'SUBO'

    def leaf(self):
        rng = self.rng
        r = rng.random()
        if r < 0.50:
            return {'k': 'basic', 'n': rng.choice(BASIC_VALUE)}
        if r < 0.62:
            to = rng.choice(['void', 'utf8', 'filename', 'basic:gint32', 'basic:gdouble', 'basic:guint8', 'glist'])
            allc = [n for lv in self.levels.values() for n in lv]
            if allc and rng.random() < 0.4:
                to = 'type:' + rng.choice(allc)
            return {'k': 'ptr', 'to': to}
        if r < 0.80:
            return {'k': 'iface', 'name': rng.choice(self.enum_pool)}
        if r < 0.86:
            return {'k': 'cb'}
        if r < 0.90:
            return {'k': 'iface', 'name': 'Cb'}
        if r < 0.93:
            return {'k': 'basic', 'n': 'Al'}
        if r < 0.95:
            return {'k': 'lenarray', 'of': rng.choice(['guint8', 'gint32'])} if rng.random() < 0.7 else {'k': 'strv'}
        if r < 0.95 + self.weights.get('nonintro', 0.015):
            return {'k': 'nonintro', 'c': rng.choice(['long double', 'struct _Opaque *', 'FILE *'.replace('FILE', 'struct _File')])}
        if r < 0.985:
            return {'k': 'bits', 'n': rng.choice(['guint', 'gint', 'guint8']), 'bits': rng.randint(1, 7)}
        return {'k': 'barecb'}

    def member_type(self, level, kind):
        rng = self.rng
        r = rng.random()
        if level > 0 and r < 0.35:
            lv = rng.randint(0, level - 1)
            pool = self.levels[lv] or self.levels[0]
            if pool:
                t = {'k': 'iface', 'name': rng.choice(pool)}
                if rng.random() < 0.25:
                    t = {'k': 'array', 'n': rng.randint(0, 4), 'of': t}
                return t
        if r < 0.50:
            el = self.leaf()
            while el['k'] in ('cb', 'bits', 'barecb', 'nonintro', 'lenarray', 'strv'):
                el = self.leaf()
            n = rng.choice([0, 1, 2, 3, 3, 5, 7, 8, 16, 31, 100])
            if rng.random() < self.weights.get('bigarray', 0.012):
                n = rng.choice([65535, 65536, 70000, 131072])
            t = {'k': 'array', 'n': n, 'of': el}
            r2 = rng.random()
            if r2 < 0.25:
                t['ct'] = 'none' if r2 < 0.15 else 'ptr'
            if rng.random() < 0.08:
                t = {'k': 'array', 'n': rng.randint(1, 3), 'of': t}
            return t
        return self.leaf()


CLASS_TYPES = [{'k': 'basic', 'n': 'gint8'}, {'k': 'basic', 'n': 'gint16'}, {'k': 'basic', 'n': 'gint32'},
               {'k': 'basic', 'n': 'gdouble'},
               {'k': 'array', 'n': 3, 'of': {'k': 'basic', 'n': 'gint8'}},
               {'k': 'array', 'n': 3, 'of': {'k': 'basic', 'n': 'gint16'}},
               {'k': 'array', 'n': 3, 'of': {'k': 'basic', 'n': 'gint32'}},
               {'k': 'iface', 'name': 'P'}]


def perm_batches(seqs, per_batch, ns_prefix):
    """structs (and unions for the short ones) for every sequence of size/alignment classes"""
    batches = []
    for i in range(0, len(seqs), per_batch):
        decls = [{'d': 'struct', 'name': 'P', 'members': [{'name': 'p', 't': {'k': 'ptr', 'to': 'void'}},
                                                           {'name': 'c', 't': {'k': 'basic', 'n': 'gint8'}}]}]
        for j, seq in enumerate(seqs[i:i + per_batch]):
            ms = [{'name': 'f%d' % k, 't': CLASS_TYPES[c]} for k, c in enumerate(seq)]
            decls.append({'d': 'struct', 'name': 'S%d' % j, 'members': ms, 'seq': list(seq)})
            if len(seq) <= 3:
                decls.append({'d': 'union', 'name': 'U%d' % j, 'members': ms, 'seq': list(seq)})
        batches.append(Batch('%s%d' % (ns_prefix, len(batches)), decls))
    return batches


# ---------------------------------------------------------------------------------------------
# deterministic coverage grid: every member kind of the property statement x every nesting context.
# The random stream reaches all of this only with some probability per run; the grid makes each
# (kind, context) cell certain in every run, independent of the seed.
ENUM_BOUNDS = [
    [0], [127], [128], [255], [256], [32767], [32768], [65535], [65536], [INT32_MAX], [2 ** 31], [UINT32_MAX],
    [-1], [-127], [-128], [-129], [-32768], [-32769], [-40000], [INT32_MIN], [INT32_MIN, INT32_MAX],
    [-1, 127], [-1, 128], [-1, 255], [-1, 256], [-1, 32767], [-1, 32768], [-1, 65535], [-1, 65536], [-1, INT32_MAX],
    [-128, 127], [-129, 127], [-128, 128], [-32768, 32767], [-32769, 32767], [-32768, 32768], [-40000, 1], [-40000, 40000],
    [INT32_MIN, 0], [INT32_MIN + 1, INT32_MAX - 1], [1, 2, 4, 2 ** 31], [UINT32_MAX - 1, UINT32_MAX],
    # negative together with > G_MAXINT (gint64 since fix 1fcf299), at the boundaries of that class
    [-1, 2 ** 31], [-1, UINT32_MAX], [INT32_MIN, 2 ** 31], [INT32_MIN, UINT32_MAX],
    # outside the typelib format: model correspondence only
    [2 ** 32], [-2 ** 31 - 1],
]


def _b(n):
    return {'k': 'basic', 'n': n}


def _arr(n, of):
    return {'k': 'array', 'n': n, 'of': of}


def _iv(name):
    return {'k': 'iface', 'name': name}


# helper types of every grid namespace: size != alignment on purpose (an array whose alignment were
# taken from the element SIZE, or a size-1 array laid out as a pointer, must show)
GRID_HELPERS = [
    {'d': 'callback', 'name': 'Cb'},
    {'d': 'alias', 'name': 'Al', 'target': 'gint16'},
    {'d': 'enum', 'name': 'Eu', 'values': [1, 2 ** 31]},
    {'d': 'enum', 'name': 'En', 'values': [-1, 5]},
    {'d': 'flags', 'name': 'Fl', 'values': [1, 2, 4]},
    {'d': 'struct', 'name': 'P3', 'members': [{'name': 'a', 't': _arr(3, _b('gint8'))}]},                  # 3 / 1
    {'d': 'struct', 'name': 'P16', 'members': [{'name': 'd', 't': _b('gdouble')}, {'name': 'c', 't': _b('gint8')}]},  # 16 / 8
    {'d': 'struct', 'name': 'P6', 'members': [{'name': 'h', 't': _b('gint16')}, {'name': 'b', 't': _arr(3, _b('gint8'))}]},  # 6 / 2
    {'d': 'struct', 'name': 'PE', 'members': []},                                                          # 0 / 1
    {'d': 'union', 'name': 'PU', 'members': [{'name': 'a', 't': _arr(5, _b('gint8'))}, {'name': 'i', 't': _b('gint32')}]},  # 8 / 4
    {'d': 'union', 'name': 'PU3', 'members': [{'name': 'a', 't': _arr(3, _b('gint8'))}]},                   # 3 / 1
    {'d': 'object', 'name': 'PO', 'members': [{'name': 'p', 't': {'k': 'ptr', 'to': 'void'}}, {'name': 'c', 't': _b('gint8')}]},
    {'d': 'boxed', 'name': 'PB', 'members': [{'name': 'i', 't': _b('gint32')}, {'name': 'c', 't': _arr(2, _b('gint8'))}]},  # 8 / 4
    {'d': 'alias', 'name': 'AlS', 'target': 'P6'},
    {'d': 'alias', 'name': 'AlE', 'target': 'En'},
    {'d': 'alias', 'name': 'AlU', 'target': 'PU'},
]

# (label, member type, deep).  deep kinds go through every nesting context, the others through the
# depth-0/1 contexts only.
GRID_KINDS = (
    [('basic-' + n, _b(n), n in ('gint8', 'gint16', 'gint32', 'gint64', 'gfloat', 'gdouble', 'glong', 'gboolean', 'gsize'))
     for n in BASIC_VALUE] +
    [('ptr-' + to.replace(':', '-'), {'k': 'ptr', 'to': to}, to in ('void', 'type:P3'))
     for to in ('void', 'utf8', 'filename', 'basic:gint32', 'basic:guint8', 'glist', 'type:P3', 'type:PU', 'type:Eu', 'type:Cb')] +
    [('lenarray', {'k': 'lenarray', 'of': 'guint8'}, False), ('strv', {'k': 'strv'}, False),
     ('enum-u32', _iv('Eu'), True), ('enum-neg', _iv('En'), True), ('flags', _iv('Fl'), True),
     ('callback-inline', {'k': 'cb'}, True), ('callback-typedef', _iv('Cb'), True),
     ('alias-basic', _b('Al'), True), ('alias-struct', _iv('AlS'), True),
     ('alias-enum', _iv('AlE'), False), ('alias-union', _iv('AlU'), False), ('array2-alias-union', _arr(2, _iv('AlU')), False),
     ('struct-3/1', _iv('P3'), True), ('struct-16/8', _iv('P16'), True), ('struct-6/2', _iv('P6'), False),
     ('struct-empty', _iv('PE'), True), ('union-8/4', _iv('PU'), True), ('union-3/1', _iv('PU3'), True),
     ('object-by-value', _iv('PO'), True), ('boxed-by-value', _iv('PB'), True),
     # arrays: length 0 / 1 / n of every element sort
     ('array0-gint8', _arr(0, _b('gint8')), True), ('array0-gint64', _arr(0, _b('gint64')), True),
     ('array0-gdouble', _arr(0, _b('gdouble')), False), ('array0-gint16', _arr(0, _b('gint16')), False),
     ('array1-gint8', _arr(1, _b('gint8')), True), ('array1-gint16', _arr(1, _b('gint16')), True),
     ('array1-gint32', _arr(1, _b('gint32')), False), ('array1-gint64', _arr(1, _b('gint64')), False),
     ('array3-gint16', _arr(3, _b('gint16')), True), ('array7-gint8', _arr(7, _b('gint8')), False),
     ('array2-gdouble', _arr(2, _b('gdouble')), False), ('array100-gint32', _arr(100, _b('gint32')), False),
     ('array0-struct-16/8', _arr(0, _iv('P16')), True), ('array1-struct-16/8', _arr(1, _iv('P16')), True),
     ('array2-struct-16/8', _arr(2, _iv('P16')), True), ('array3-struct-3/1', _arr(3, _iv('P3')), True),
     ('array1-struct-3/1', _arr(1, _iv('P3')), True), ('array0-struct-3/1', _arr(0, _iv('P3')), False),
     ('array2-struct-6/2', _arr(2, _iv('P6')), True), ('array2-struct-empty', _arr(2, _iv('PE')), False),
     ('array2-union-8/4', _arr(2, _iv('PU')), True), ('array1-union-3/1', _arr(1, _iv('PU3')), True),
     ('array0-union-8/4', _arr(0, _iv('PU')), False), ('array2-object', _arr(2, _iv('PO')), False),
     ('array2-boxed', _arr(2, _iv('PB')), False),
     ('array0-enum', _arr(0, _iv('Eu')), True), ('array1-enum', _arr(1, _iv('En')), True),
     ('array3-enum', _arr(3, _iv('Eu')), True), ('array3-flags', _arr(3, _iv('Fl')), False),
     ('array0-ptr', _arr(0, {'k': 'ptr', 'to': 'void'}), False), ('array1-ptr', _arr(1, {'k': 'ptr', 'to': 'utf8'}), True),
     ('array3-ptr-type', _arr(3, {'k': 'ptr', 'to': 'type:P3'}), False),
     ('array2-callback-typedef', _arr(2, _iv('Cb')), True), ('array1-callback-typedef', _arr(1, _iv('Cb')), False),
     ('array3-alias', _arr(3, _b('Al')), False), ('array2-alias-struct', _arr(2, _iv('AlS')), False),
     # the same with the c:type spellings of the <array> element that decide is_pointer in start_type
     ('array0-ptr-utf8-ctype*', dict(_arr(0, {'k': 'ptr', 'to': 'utf8'}), ct='ptr'), True),
     ('array1-ptr-utf8-ctype*', dict(_arr(1, {'k': 'ptr', 'to': 'utf8'}), ct='ptr'), True),
     ('array3-ptr-utf8-ctype*', dict(_arr(3, {'k': 'ptr', 'to': 'utf8'}), ct='ptr'), True),
     ('array0-ptr-void-ctype*', dict(_arr(0, {'k': 'ptr', 'to': 'void'}), ct='ptr'), False),
     ('array2-ptr-type-ctype*', dict(_arr(2, {'k': 'ptr', 'to': 'type:P3'}), ct='ptr'), False),
     ('array0-gint8-ctype*', dict(_arr(0, _b('gint8')), ct='ptr'), True),
     ('array1-gint16-ctype*', dict(_arr(1, _b('gint16')), ct='ptr'), False),
     ('array3-struct-3/1-ctype*', dict(_arr(3, _iv('P3')), ct='ptr'), False),
     ('array0-struct-16/8-ctype*', dict(_arr(0, _iv('P16')), ct='ptr'), False),
     ('array0-gint64-noctype', dict(_arr(0, _b('gint64')), ct='none'), True),
     ('array1-gint8-noctype', dict(_arr(1, _b('gint8')), ct='none'), False),
     ('array3-gint16-noctype', dict(_arr(3, _b('gint16')), ct='none'), False),
     ('array0-ptr-utf8-noctype', dict(_arr(0, {'k': 'ptr', 'to': 'utf8'}), ct='none'), False),
     ('array2-struct-16/8-noctype', dict(_arr(2, _iv('P16')), ct='none'), False),
     ('array2x3-gint16', _arr(2, _arr(3, _b('gint16'))), True), ('array1x1-gint8', _arr(1, _arr(1, _b('gint8'))), True),
     ('array2x0-gint16', _arr(2, _arr(0, _b('gint16'))), False), ('array0x3-gint32', _arr(0, _arr(3, _b('gint32'))), False),
     ('array3x1-struct-16/8', _arr(3, _arr(1, _iv('P16'))), False), ('array2x2x2-gint8', _arr(2, _arr(2, _arr(2, _b('gint8')))), False),
     ])

# nesting contexts, outermost first: S = struct { gint8; X; gint8 }, U = union { gint16; X },
# A = struct { gint8; X[2]; gint8 } (array of X).  X is the next context, or the member kind itself
# for the innermost letter.
def grid_contexts(max_depth):
    ctxs = []
    for L in range(1, max_depth + 1):
        ctxs.extend(''.join(p) for p in itertools.product('SU', repeat=L))
    ctxs += ['A', 'SA', 'UA', 'AS', 'AU', 'SAU', 'UAS', 'AAS']
    if max_depth >= 4:
        ctxs += ['SUAS', 'UASU']
    return ctxs


def grid_batches(max_depth, per_ns=6):
    """one namespace per `per_ns` kinds; returns (batches, cells) where cells maps the name of the
    outermost declaration of a cell to (kind label, context)"""
    deep_ctx = grid_contexts(max_depth)
    shallow_ctx = grid_contexts(2)[:6] + ['A', 'UA', 'AS', 'AU']
    batches = []
    for i in range(0, len(GRID_KINDS), per_ns):
        decls = [dict(h) for h in GRID_HELPERS]
        n = 0
        for label, t, deep in GRID_KINDS[i:i + per_ns]:
            made = {}                     # context suffix -> declaration name (shared between contexts)

            def build(ctxs):
                """declaration holding `t` in nesting context `ctxs` (outermost first)"""
                nonlocal n
                if ctxs in made:
                    return made[ctxs]
                n += 1
                c = ctxs[0]
                if len(ctxs) == 1:
                    inner = t
                else:
                    sub = build(ctxs[1:])
                    if sub is None:
                        return None
                    inner = _iv(sub)
                if c == 'A':
                    if inner['k'] == 'cb':
                        return None       # an inline callback cannot be an array element
                    inner = _arr(2, inner)
                name = '%s%d' % ('U' if c == 'U' else 'S', n)
                if c == 'U':
                    d = {'d': 'union', 'name': name, 'members': [{'name': 'a', 't': _b('gint16')}, {'name': 'm', 't': inner}]}
                else:
                    d = {'d': 'struct', 'name': name, 'members': [{'name': 'a', 't': _b('gint8')}, {'name': 'm', 't': inner},
                                                                   {'name': 'b', 't': _b('gint8')}]}
                d['grid'] = (label, ctxs)
                decls.append(d)
                made[ctxs] = name
                return name
            for c in (deep_ctx if deep else shallow_ctx):
                build(c)
        batches.append(Batch('G%d' % len(batches), decls))
    # the enumerations at the boundaries of every storage class: judged themselves, and as members
    decls = []
    for j, vs in enumerate(ENUM_BOUNDS):
        for el in ('enum', 'flags'):
            if el == 'flags' and j % 3:
                continue
            en = '%s%d' % ('E' if el == 'enum' else 'F', j)
            decls.append({'d': el, 'name': en, 'values': list(vs), 'cls': 'bound'})
            lab = 'enum-bound:' + ','.join(str(v) for v in vs)
            decls.append({'d': 'struct', 'name': 'S' + en, 'grid': (lab, 'S'),
                          'members': [{'name': 'a', 't': _b('gint8')}, {'name': 'm', 't': _iv(en)}, {'name': 'b', 't': _b('gint8')}]})
            decls.append({'d': 'union', 'name': 'U' + en, 'grid': (lab, 'U'),
                          'members': [{'name': 'a', 't': _b('gint16')}, {'name': 'm', 't': _iv(en)}]})
            decls.append({'d': 'struct', 'name': 'A' + en, 'grid': (lab, 'A'),
                          'members': [{'name': 'a', 't': _b('gint8')}, {'name': 'm', 't': _arr(3, _iv(en))}]})
    batches.append(Batch('GE', decls))
    return batches


# ---------------------------------------------------------------------------------------------
# running the three sides
class Runner(object):
    def __init__(self, ctx, compiler, dumper, basic):
        self.ctx = ctx
        self.compiler = compiler
        self.dumper = dumper
        self.basic = basic
        self.dir = os.path.join(ctx.scratch, 'tl')
        os.makedirs(self.dir, exist_ok=True)
        self.cnt = Counter()
        self.n_corr = 0
        self.evals = 0
        self.spec_bad = 0
        self.aborted_batches = 0
        self.n_tu = 0
        self.grid_cells = {}           # (kind label, context) -> verdict of the statement oracle
        self.path_memo = {}

    # (a)
    def compile_batch(self, b):
        import cbuild
        gir = os.path.join(self.dir, '%s-1.0.gir' % b.ns)
        with open(gir, 'w') as f:
            f.write(render_gir(b))
        out = os.path.join(self.dir, '%s-1.0.typelib' % b.ns)
        if os.path.exists(out):
            os.unlink(out)
        rc, so, se = cbuild.run_compiler(self.compiler, gir, out, includedirs=[self.dir])
        return rc, (so + se)[-600:], os.path.exists(out)

    def dump(self, namespaces, chunk=100):
        res = {}
        for i in range(0, len(namespaces), chunk):
            part = namespaces[i:i + chunk]
            p = subprocess.run([self.dumper, self.dir] + part, stdout=subprocess.PIPE,
                               stderr=subprocess.PIPE, timeout=600,
                               env=dict(os.environ, ASAN_OPTIONS='detect_leaks=0'))
            if p.returncode != 0:
                # the real library crashed while reading typelibs it wrote itself: find out on which
                if len(part) > 1:
                    res.update(self.dump(part, 1))
                else:
                    res.setdefault(part[0], {'error': 'c08_layout exited %d: %s' % (
                        p.returncode, p.stderr.decode('utf-8', 'replace')[-300:])})
                continue
            res.update(parse_dump(p.stdout.decode('utf-8', 'replace')))
        return res

    # (c)
    def gcc(self, batches, judged):
        """-> {ns: {name: {...}}}; one translation unit per chunk of batches, compiled in parallel"""
        chunks = [batches[i:i + 8] for i in range(0, len(batches), 8)]

        def one(arg):
            idx, chunk = arg
            self.n_tu += 1
            src = os.path.join(self.dir, 'abi%d_%d.c' % (self.n_tu, idx))
            exe = src[:-2]
            with open(src, 'w') as f:
                f.write(C_PRELUDE)
                for b in chunk:
                    f.write(render_c(b, judged[b.ns]))
                f.write('int main(void) {\n%s  return 0;\n}\n' % ''.join('  dump_%s();\n' % b.ns for b in chunk))
            p = subprocess.run(['gcc', '-w', '-O0', '-std=gnu11', src, '-o', exe], stdout=subprocess.PIPE,
                               stderr=subprocess.STDOUT, timeout=900)
            if p.returncode != 0:
                raise HarnessError('gcc rejected the generated declarations: %s' % p.stdout.decode('utf-8', 'replace')[-800:])
            q = subprocess.run([exe], stdout=subprocess.PIPE, timeout=300)
            return parse_dump(q.stdout.decode())
        res = {}
        with concurrent.futures.ThreadPoolExecutor(max_workers=12) as ex:
            for r in ex.map(one, list(enumerate(chunks))):
                res.update(r)
        return res

    # everything for a list of batches
    def run(self, batches, label):
        ctx = self.ctx
        with concurrent.futures.ThreadPoolExecutor(max_workers=12) as ex:
            comp = list(ex.map(self.compile_batch, batches))
        ok_batches = [b for b, (rc, _log, have) in zip(batches, comp) if rc == 0 and have]
        impl = self.dump([b.ns for b in ok_batches]) if ok_batches else {}
        model = ctx.driver.batch([{'op': 'c08.layout', 'nodes': model_nodes(b, self.basic)} for b in batches])
        judged = {}
        flags = {}
        for b in batches:
            memo = {}
            flags[b.ns] = dict((d['name'], decl_flags(b, d['name'], memo)) for d in b.decls)
            judged[b.ns] = set(d['name'] for d in b.decls
                               if d['d'] not in ('callback', 'alias') and 'abort' not in flags[b.ns][d['name']])
        abi = self.gcc(batches, judged)
        for b, (rc, log, have), mres in zip(batches, comp, model):
            mod = dict((m['name'], m) for m in mres)
            model_warn = any(m.get('warn') for m in mres)
            if not (rc == 0 and have):
                self.aborted_batches += 1
                self.judge_abort(b, rc, log, model_warn, flags[b.ns], label)
                continue
            if model_warn:
                self.corr('the model predicts a warning/fatal (no typelib) for namespace %s but g-ir-compiler '
                          'wrote one' % b.ns, b)
            im = impl.get(b.ns)
            if im is None or 'error' in im:
                ctx.report_failure('typelib-unreadable:' + key_of(b, None),
                                   'the typelib g-ir-compiler wrote for %s cannot be loaded/read through the public '
                                   'API: %s' % (b.ns, (im or {}).get('error', 'namespace missing from the dump')),
                                   {'kind': 'batch', 'batch': dump_batch(b)})
                continue
            for d in b.decls:
                if d['d'] in ('callback', 'alias'):
                    continue
                self.judge(b, d, im.get(d['name']), mod.get(d['name']), abi.get(b.ns, {}).get(d['name']),
                           flags[b.ns][d['name']], label)

    def corr(self, msg, b, d=None):
        self.n_corr += 1
        if self.n_corr <= 3:
            self.ctx.broken.append('correspondence c08.layout differs: %s [%s]' % (msg, key_of(b, d)[:1500]))

    def judge_abort(self, b, rc, log, model_warn, flags, label):
        """g-ir-compiler wrote no typelib for this namespace"""
        ctx = self.ctx
        expected = any('abort' in fl for fl in flags.values())
        self.cnt.hit('%s:compiler-stopped:%s' % (label, 'expected' if expected else 'UNEXPECTED'))
        if getattr(b, 'tag', None):
            self.cnt.hit('unknown-size:%s:compiler-stopped' % b.tag)
        if not model_warn:
            self.corr('g-ir-compiler stopped (exit %s: %s) where the model predicts a typelib' % (rc, log[-200:]), b)
        if not expected:
            # an in-scope namespace on which the real tool fails: a property failure, not a harness error
            ctx.report_failure('compiler-stopped:' + key_of(b, None),
                               'g-ir-compiler exits %s without a typelib on declarations with known member sizes: %s'
                               % (rc, log[-300:]), {'kind': 'batch', 'batch': dump_batch(b)})
        # "a structure containing a member of unknown size is recorded as unknown rather than wrong":
        # stopping loudly records nothing, which satisfies the statement.

    def judge(self, b, d, im, mod, abi, fl, label):
        ctx = self.ctx
        self.evals += 1
        name = d['name']
        if im is None:
            if d['d'] == 'object' or d['d'] == 'boxed':
                self.cnt.hit('%s:%s-not-listed' % (label, d['d']))
                return
            ctx.report_failure('missing:' + key_of(b, d), '%s.%s is missing from the typelib' % (b.ns, name),
                               {'kind': 'decl', 'batch': dump_batch(b), 'name': name})
            return
        # ------------------------------------------------------------------ enums
        if d['d'] in ('enum', 'flags'):
            self.cnt.case(['e', d['values']])
            self.cnt.hit('%s:enum:%s' % (label, d.get('cls', '?')))
            for v in sorted(set(d['values']) & ENUM_EDGE_VALUES):
                self.cnt.hit('enum-member-at-boundary:%d' % v)
            if d['values'] and min(d['values']) < -32768:
                self.cnt.hit('enum-member-at-boundary:negative-below--2^15')
            if mod is None or mod.get('storage') != im['storage']:
                self.corr('enum %s values=%r: typelib storage tag %r, model %r' % (name, d['values'], im['storage'],
                                                                                 mod and mod.get('storage')), b, d)
            if 'enum64' in fl:
                self.cnt.hit('%s:outside:enum-values-beyond-32-bit' % label)
                return
            sz, signed = STORAGE.get(im['storage'], (None, None))
            vs = d['values'] or [0]
            lo, hi = (-(2 ** (8 * sz - 1)), 2 ** (8 * sz - 1) - 1) if signed else (0, 2 ** (8 * (sz or 0)) - 1)
            good = sz is not None and abi is not None and sz == abi['size'] and lo <= min(vs + [0]) and max(vs + [0]) <= hi
            # signedness: the storage is unsigned iff the compiler's enum type is
            if good and abi is not None and sz in (4, 8):
                good = signed == bool(abi['signed'])
            if not good:
                what = ('enum %s.%s values=%r: typelib storage %s (%s bytes, %s) but gcc: %s bytes, %s' % (
                    b.ns, name, d['values'], im['storage_name'], sz, 'signed' if signed else 'unsigned',
                    abi and abi['size'], 'signed' if abi and abi['signed'] else 'unsigned'))
                ctx.report_failure('enum:' + json.dumps(sorted(set(d['values']))), what,
                                   {'kind': 'decl', 'batch': dump_batch(b, [name]), 'name': name})
            elif 'enum33' in fl:
                self.cnt.hit('%s:enum:negative-and-above-INT32_MAX:equal-to-gcc' % label)
            return
        # ------------------------------------------------------------------ structs / unions
        self.cnt.case(['s', d['d'], d['members'], sorted(fl)], nontrivial=len(d['members']) >= 2)
        self.cnt.hit('%s:%s:members=%d' % (label, d['d'], min(len(d['members']), 12)))
        for m in d['members']:
            self.cnt.hit('kind:' + kind_label(b, m['t']))
            for lab in array_labels(m['t']):
                self.cnt.hit(lab)
        field_members = [m for m in d['members'] if m['t']['k'] not in ('barecb', 'method')]
        got = {'size': im.get('size'), 'align': im.get('align'), 'offsets': [f[1] for f in im['fields']]}
        if [f[0] for f in im['fields']] != [m['name'] for m in field_members]:
            ctx.report_failure('fields:' + key_of(b, d), '%s.%s: typelib lists fields %r, declared %r' % (
                b.ns, name, [f[0] for f in im['fields']], [m['name'] for m in field_members]),
                {'kind': 'decl', 'batch': dump_batch(b, [name]), 'name': name})
            return
        # (a) vs (b): model correspondence, always
        if mod is None or mod.get('kind') not in ('struct', 'union'):
            self.corr('no model result for %s' % name, b, d)
        else:
            st = mod['stored']
            want = {'size': st['size'], 'align': st['align'], 'offsets': st['offsets']}
            if d['d'] == 'object':
                want = {'size': None, 'align': None, 'offsets': st['offsets']}
            if want != got:
                self.corr('%s %s: typelib %r, model %r' % (d['d'], name, got, want), b, d)
        # validation of the trusted step "Spec.cLayout = the C compiler": Spec(b) vs gcc (c)
        plain = not (fl & {'flex', 'nonintro_value', 'nonintro_ptr', 'bits', 'barecb', 'barecb_union', 'enum64', 'abort'})
        if mod is not None and mod.get('spec') is not None and abi is not None and plain:
            sp = mod['spec']
            if (sp['size'], sp['align'], sp['offsets']) != (abi['size'], abi['align'], [o for _n, o in abi['fields']]):
                self.spec_bad += 1
                if self.spec_bad <= 3:
                    ctx.broken.append('trusted-base check failed: Spec.cLayout disagrees with gcc on %s: spec %r gcc %r'
                                      % (key_of(b, d)[:800], sp, abi))
            else:
                self.cnt.hit('spec=gcc')
            # and the theorem's conclusion, observed: model raw == Spec when in range
            if (mod['size'], mod['align'], mod['offsets']) != (sp['size'], sp['align'], sp['offsets']) \
                    and sp['size'] + sp['align'] <= 2 ** 31:
                ctx.broken.append('model differs from Spec on a declaration inside the hypotheses of C08_struct/union: %s'
                                  % key_of(b, d)[:800])
        # ------------------------------------------------------------------ the statement oracle: (a) vs (c)
        if fl & {'bits', 'barecb_union', 'enum64'}:
            self.cnt.hit('%s:outside:%s' % (label, '+'.join(sorted(fl & {'bits', 'barecb_union', 'enum64'}))))
            return
        if 'abort' in fl:
            # not a C declaration at all (void member, by-value recursion, unresolvable type): if the tool
            # did write a typelib, the layout must be recorded as unknown
            if is_unknown_layout(d, got, field_members):
                self.cnt.hit('%s:oracle:recorded-unknown' % label)
                if getattr(b, 'tag', None):
                    self.cnt.hit('unknown-size:%s:recorded-unknown' % b.tag)
            else:
                ctx.report_failure('unknown-recorded-positive:' + key_of(b, d),
                                   '%s %s.%s has a member of unknown size but the typelib records size=%s align=%s offsets=%r'
                                   % (d['d'], b.ns, name, got['size'], got['align'], got['offsets']),
                                   {'kind': 'decl', 'batch': dump_batch(b, [name]), 'name': name})
            return
        if abi is None:
            raise HarnessError('no gcc result for %s.%s' % (b.ns, name))
        want = {'size': abi['size'], 'align': abi['align'], 'offsets': [o for _n, o in abi['fields'] if True]}
        abi_off = dict(abi['fields'])
        want['offsets'] = [abi_off[m['name']] for m in field_members]
        # FieldBlob.struct_offset has 16 bits and 0xFFFF means "unknown": an offset >= 65535 cannot be stored, and
        # the statement then asks for "unknown rather than a wrong one".  Nothing else is accepted for such a
        # field, every offset below 65535 must be exact, and size / alignment (32 / 6 bits) must be right.
        storable = [w if w < UNKNOWN_OFF else UNKNOWN_OFF for w in want['offsets']]
        n_unstorable = sum(1 for w in want['offsets'] if w >= UNKNOWN_OFF)
        if d['d'] == 'object':
            got_cmp = {'offsets': got['offsets']}
            want_cmp = {'offsets': storable}
        else:
            got_cmp, want_cmp = got, dict(want, offsets=storable)
        unknown_kinds = fl & {'flex', 'nonintro_value', 'nonintro_ptr'}
        if got_cmp == want_cmp:
            self.cnt.hit('%s:oracle:equal-to-gcc%s' % (label, ':with-' + '+'.join(sorted(unknown_kinds)) if unknown_kinds else ''))
            # what was judged (and agreed with gcc): nesting depth and container chains of this declaration
            paths = nest_paths(b, d['name'], self.path_memo.setdefault(id(b), {}))
            self.cnt.hit('judged:depth=%d' % max(len(p) for p in paths))
            for p in set(q[:3] for q in paths if len(q) > 1):
                self.cnt.hit('judged:nest:' + '>'.join(p))
            if 'grid' in d:
                self.grid_cells[tuple(d['grid'])] = 'equal-to-gcc'
            if n_unstorable:
                self.cnt.hit('%s:oracle:offset>=65535-recorded-unknown:%s' % (label, d['d']), n_unstorable)
            return
        if 'grid' in d:
            self.grid_cells[tuple(d['grid'])] = 'differs'
        if unknown_kinds and is_unknown_layout(d, got, field_members):
            self.cnt.hit('%s:oracle:recorded-unknown' % label)
            return
        what = '%s %s.%s: typelib size=%s align=%s offsets=%r; gcc size=%s align=%s offsets=%r%s; members=%s' % (
            d['d'], b.ns, name, got['size'], got['align'], got['offsets'], want['size'], want['align'], want['offsets'],
            ' (offsets >= 65535 must read 65535 = unknown)' if n_unstorable else '', json.dumps(d['members'])[:500])
        rep = {'kind': 'decl', 'batch': dump_batch(b, [name]), 'name': name}
        explained = mod is not None and mod.get('kind') in ('struct', 'union') and \
            mod['stored']['offsets'] == got['offsets'] and (d['d'] == 'object' or (mod['stored']['size'] == got['size']
                                                                                    and mod['stored']['align'] == got['align']))
        key = None
        if explained and 'nonintro_value' in fl:
            key = K_NONINTRO
        if key is not None:
            self.cnt.hit('%s:known-finding:%s:%s' % (label, key.split(':')[0], d['d']))
            if 'grid' in d:
                self.grid_cells[tuple(d['grid'])] = 'known finding ' + key
            return ctx.report_failure(key, what, rep)
        ctx.report_failure('layout:' + key_of(b, d), what, rep)


STORAGE = {2: (1, True), 3: (1, False), 4: (2, True), 5: (2, False), 6: (4, True), 7: (4, False), 8: (8, True),
           9: (8, False)}


def is_unknown_layout(d, got, field_members):
    """size = alignment = unknown marker; the unknown-size member and all later ones carry the unknown
    offset marker"""
    if d['d'] != 'object' and not (got['size'] == UNKNOWN_SIZE and got['align'] == UNKNOWN_ALIGN):
        return False
    if d['d'] == 'union':
        return True
    first = None
    for i, m in enumerate(field_members):
        # the first member whose size is not known (a non-introspectable POINTER field has a known size)
        if m['t']['k'] == 'flex' or (m['t']['k'] == 'nonintro' and not m['t']['c'].endswith('*')):
            first = i
            break
    if first is None:        # the unknown member is inside a nested type: at least one offset must be unknown
        return UNKNOWN_OFF in got['offsets']
    return all(o == UNKNOWN_OFF for o in got['offsets'][first:])


def kind_label(b, t):
    k = t['k']
    if k == 'array':
        inner = kind_label(b, t['of'])
        return 'array-of-' + ('basic' if inner.startswith('basic-') else 'array' if inner.startswith('array-') else inner)
    if k == 'iface':
        d = b.by_name.get(resolve_alias(b, t['name']))
        return 'by-value-' + (d['d'] if d else '?')
    if k == 'ptr':
        return 'ptr-' + t['to'].split(':')[0]
    if k == 'basic':
        return 'alias' if t['n'] in b.by_name else 'basic-' + t['n']
    return k


ENUM_EDGE_VALUES = set([127, 128, 255, 256, 32767, 32768, 65535, 65536, INT32_MAX, 2 ** 31, UINT32_MAX,
                        -1, -127, -128, -129, -32768, -32769, INT32_MIN])


def array_labels(t):
    out = []
    while t['k'] == 'array':
        n = t['n']
        out.append('array-length:' + ('0' if n == 0 else '1' if n == 1 else '2..7' if n < 8 else '8..65534' if n < 65535
                                      else '>=65535'))
        t = t['of']
    return out


def nest_paths(b, name, memo):
    """the chains of compound kinds (S struct, U union, B boxed, O class; 'A' marks "through an array")
    reachable by value from declaration `name`, each as a tuple starting with its own letter; cut at
    length 5"""
    if name in memo:
        return memo[name]
    d = b.by_name.get(name)
    letter = {'struct': 'S', 'union': 'U', 'boxed': 'B', 'object': 'O'}.get(d and d['d'])
    if letter is None:
        return set()
    memo[name] = set([(letter,)])          # cycle guard (cyclic declarations are never judged)
    res = set([(letter,)])
    for m in d['members']:
        t = m['t']
        arr = False
        while t['k'] == 'array':
            arr = True
            t = t['of']
        if t['k'] == 'iface' or (t['k'] == 'basic' and t['n'] in b.by_name):
            tgt = resolve_alias(b, t['name'] if t['k'] == 'iface' else t['n'])
            for p in nest_paths(b, tgt, memo):
                if p:
                    q = (letter,) + ((('A' + p[0]),) + p[1:] if arr else p)
                    res.add(q[:5])
    memo[name] = res
    return res


def deps_of(b, names):
    """the declarations `names` depend on (by name), in batch order"""
    need = set()

    def walk_t(t):
        k = t['k']
        if k == 'array':
            walk_t(t['of'])
        elif k in ('iface', 'self'):
            walk(t['name'])
        elif k == 'basic' and t['n'] in b.by_name:
            walk(t['n'])
        elif k == 'ptr' and t['to'].startswith('type:'):
            walk(t['to'][5:])

    def walk(n):
        if n in need or n not in b.by_name:
            return
        need.add(n)
        d = b.by_name[n]
        if d['d'] == 'alias':
            walk(d['target'])
        for m in d.get('members', []):
            walk_t(m['t'])
    for n in names:
        walk(n)
    return [d for d in b.decls if d['name'] in need]


STRIP_KEYS = ('cls', 'seq', 'no_nest', 'grid')


def dump_batch(b, names=None):
    decls = b.decls if names is None else deps_of(b, names)
    return {'ns': b.ns, 'decls': [dict((k, v) for k, v in d.items() if k not in STRIP_KEYS) for d in decls]}


def key_of(b, d):
    if d is None:
        return json.dumps([dict((k, v) for k, v in x.items() if k not in STRIP_KEYS) for x in b.decls],
                          sort_keys=True)
    return json.dumps(dump_batch(b, [d['name']])['decls'], sort_keys=True)


def parse_dump(text):
    """both c08_layout and the gcc programs print: N ns / S|U name size align [n] / F name off [bits] /
    E name a b / O name n / X ns message"""
    res = {}
    cur = None
    cur_ns = None
    rec = None
    bad = False
    for line in text.splitlines():
        w = line.split()
        if not w:
            continue
        if w[0] == 'N' and len(w) > 1:
            cur_ns = w[1]
            cur = res.setdefault(cur_ns, {})
            bad = False
            continue
        if bad:
            continue
        try:
            if w[0] == 'X':
                res[w[1]] = {'error': ' '.join(w[2:])}
            elif w[0] in ('S', 'U'):
                rec = {'k': w[0], 'size': int(w[2]), 'align': int(w[3]), 'fields': []}
                cur[w[1]] = rec
            elif w[0] == 'O':
                rec = {'k': 'O', 'size': None, 'align': None, 'fields': []}
                cur[w[1]] = rec
            elif w[0] == 'F':
                rec['fields'].append((w[1], int(w[2])))
            elif w[0] == 'E':
                if w[3].lstrip('-').isdigit():       # gcc side: size, signed
                    cur[w[1]] = {'size': int(w[2]), 'signed': int(w[3])}
                else:                                 # typelib side: storage tag, tag name
                    cur[w[1]] = {'storage': int(w[2]), 'storage_name': w[3]}
        except (IndexError, ValueError, TypeError, KeyError):
            # what the public API returned for this namespace is not even a well-formed record (e.g. a field
            # without a name): a failure of the real code on this namespace, not of the harness
            if cur_ns is not None:
                res[cur_ns] = {'error': 'the repository API returned a malformed record: %r' % line[:120]}
            bad = True
    return res


# ---------------------------------------------------------------------------------------------
def load_corpus():
    cpath = os.path.join(VERIF, 'corpus', 'C08')
    batches = []
    if os.path.isdir(cpath):
        for fn in sorted(os.listdir(cpath)):
            if fn.endswith('.json'):
                with open(os.path.join(cpath, fn)) as f:
                    for i, c in enumerate(json.load(f)):
                        batches.append(Batch(c.get('ns', 'K%s%d' % (re.sub(r'\W', '', fn[:-5]).capitalize(), i)), c['decls']))
    return batches


def build_c(ctx):
    import cbuild
    b = cbuild.CBuild(os.path.join(ctx.scratch, 'cbuild')).compile_all()
    return b.compiler(), b.cdriver('c08_layout')


def unioncb_batches(rng, n):
    out = []
    for i in range(n):
        ms = [{'name': 'a', 't': {'k': 'basic', 'n': rng.choice(BASIC_VALUE)}}, {'name': 'cb', 't': {'k': 'cb'}}]
        rng.shuffle(ms)
        out.append(Batch('C%d' % i, [{'d': rng.choice(['union', 'union', 'boxed']), 'name': 'U1', 'members': ms}]))
    return out


ABORT_KINDS = ['void', 'self', 'unresolved', 'mutual', 'voidarray', 'nested-self', 'void-array0', 'void-array1',
               'unresolved-array', 'void-in-union', 'void-in-object', 'void-in-boxed', 'nested-void', 'array-of-nested-void']


def abort_batches(rng, n):
    """declarations on which the tool must not record a positive layout: it may stop loudly"""
    out = []
    for i in range(n):
        kind = ABORT_KINDS[i % len(ABORT_KINDS)]
        pre = [{'name': 'a', 't': {'k': 'basic', 'n': rng.choice(BASIC_VALUE)}}]
        post = [{'name': 'z', 't': {'k': 'basic', 'n': rng.choice(BASIC_VALUE)}}]
        if kind == 'void':
            decls = [{'d': 'struct', 'name': 'S1', 'members': pre + [{'name': 'v', 't': {'k': 'void'}}] + post}]
        elif kind == 'self':
            decls = [{'d': rng.choice(['struct', 'union']), 'name': 'S1',
                      'members': pre + [{'name': 'me', 't': {'k': 'self', 'name': 'S1'}}] + post}]
        elif kind == 'unresolved':
            decls = [{'d': 'struct', 'name': 'S1', 'members': pre + [{'name': 'u', 't': {'k': 'unresolved'}}] + post}]
        elif kind == 'mutual':
            decls = [{'d': 'struct', 'name': 'S1', 'members': pre + [{'name': 'o', 't': {'k': 'self', 'name': 'S2'}}]},
                     {'d': 'struct', 'name': 'S2', 'members': [{'name': 'o', 't': {'k': 'self', 'name': 'S1'}}] + post}]
        elif kind == 'voidarray':
            decls = [{'d': 'struct', 'name': 'S1',
                      'members': pre + [{'name': 'v', 't': {'k': 'array', 'n': 3, 'of': {'k': 'void'}}}] + post}]
        elif kind == 'nested-self':
            decls = [{'d': 'struct', 'name': 'S1', 'members': pre + [{'name': 'me', 't': {'k': 'array', 'n': 2, 'of': {'k': 'self', 'name': 'S1'}}}]},
                     {'d': 'struct', 'name': 'S2', 'members': [{'name': 'in', 't': {'k': 'self', 'name': 'S1'}}] + post}]
        elif kind in ('void-array0', 'void-array1', 'unresolved-array'):
            # arrays whose ELEMENT has no known size (length 0 and 1 included: n * unknown is unknown)
            el = {'k': 'unresolved'} if kind == 'unresolved-array' else {'k': 'void'}
            n = {'void-array0': 0, 'void-array1': 1}.get(kind, rng.choice([0, 1, 4]))
            decls = [{'d': rng.choice(['struct', 'union']), 'name': 'S1',
                      'members': pre + [{'name': 'v', 't': {'k': 'array', 'n': n, 'of': el}}] + post}]
        elif kind in ('void-in-union', 'void-in-object', 'void-in-boxed'):
            decls = [{'d': kind.split('-')[-1], 'name': 'S1', 'members': pre + [{'name': 'v', 't': {'k': 'void'}}] + post}]
        else:
            # the unknown-size member sits one or two levels down: by value, and as an array element
            inner = {'d': rng.choice(['struct', 'union']), 'name': 'S1', 'members': pre + [{'name': 'v', 't': {'k': 'void'}}]}
            via = {'k': 'iface', 'name': 'S1'}
            if kind == 'array-of-nested-void':
                via = {'k': 'array', 'n': rng.choice([0, 1, 3]), 'of': via}
            decls = [inner,
                     {'d': rng.choice(['struct', 'union']), 'name': 'S2', 'members': [{'name': 'in', 't': via}] + post},
                     {'d': 'struct', 'name': 'S3', 'members': pre + [{'name': 'deep', 't': {'k': 'iface', 'name': 'S2'}}]}]
        out.append(Batch('A%d' % i, decls))
        out[-1].tag = kind
    return out


def grid_summary(total, cells):
    kinds = sorted(set(k for k, _c in total))
    ctxs = sorted(set(c for _k, c in total), key=lambda c: (len(c), c))
    not_equal = sorted('%s in %s: %s' % (k, c, cells.get((k, c), 'not judged')) for k, c in total
                       if cells.get((k, c)) != 'equal-to-gcc')
    return {'what': 'every member kind x nesting context (outermost first; S struct{gint8;X;gint8}, U union{gint16;X}, '
                    'A struct{gint8;X[2];gint8}), each compared with gcc',
            'kinds': kinds, 'contexts': ctxs, 'cells': len(total),
            'cells_equal_to_gcc': sum(1 for v in cells.values() if v == 'equal-to-gcc'),
            'cells_not_equal_or_not_judged': not_equal[:60]}


def run(ctx):
    # findings waiting for the integrator: treated exactly like known_findings.json entries
    for p in PENDING_FINDINGS:
        if not any(k.get('key') == p['key'] for k in ctx.known):
            ctx.known.append(dict(p, status='known', property='C08'))
    cex = concurrent.futures.ThreadPoolExecutor(max_workers=1)
    fut = cex.submit(build_c, ctx)            # the C build runs while lake re-checks the proofs
    ctx.prove(['gen_ffisizes'], ['GIVerif.Props.C08'], 'GIVerif.Props.C08')
    ctx.log('tables regenerated, proofs re-checked and audited')
    try:
        compiler, dumper = fut.result()
    except HarnessError as e:
        ctx.broken.append('correspondence c08.layout: /repo\'s girepository sources or the public API used by '
                          'cdrivers/c08_layout.c no longer build: %s' % str(e)[:600])
        ctx.coverage.update({'evaluations': 0, 'distinct_nontrivial': 0, 'rule': 'C build failed; nothing could be run'})
        return
    ctx.log('C build done')
    basic = read_basic_types(ctx)
    rng = ctx.rng
    R = Runner(ctx, compiler, dumper, basic)

    # ---- GI_ALIGN itself: model vs Spec vs the formula evaluated in Python ints
    reqs = []
    for k in range(0, 7):
        for n in list(range(0, 70)) + [2 ** 31 - 2 ** k - 1, 2 ** 31 - 2 ** k, 65535, 65536] + [rng.randrange(0, 2 ** 30) for _ in range(30)]:
            reqs.append({'op': 'c08.align', 'n': n, 'a': 2 ** k})
    for r, a in zip(reqs, ctx.driver.batch(reqs)):
        n, al = r['n'], r['a']
        want = (n + al - 1) // al * al
        if a['model'] != want or a['spec'] != want:
            ctx.broken.append('c08.align: giAlign(%d,%d) model=%r spec=%r expected %d' % (n, al, a['model'], a['spec'], want))
            break
    R.cnt.hit('align-cases', len(reqs))

    # ---- corpus first
    corpus = load_corpus()
    if corpus:
        R.run(corpus, 'corpus')
    ctx.log('corpus done (%d batches)' % len(corpus))

    # ---- declarations that must stop the tool (or be recorded unknown)
    ab = abort_batches(rng, ctx.n(2 * len(ABORT_KINDS), 6 * len(ABORT_KINDS)))
    R.run(ab, 'unknown')
    R.run(unioncb_batches(rng, ctx.n(4, 20)), 'unioncb')

    # ---- deterministic grid: member kind x nesting context, enumerations at the storage boundaries
    gb = grid_batches(ctx.n(3, 4))
    grid_total = set(tuple(d['grid']) for b in gb for d in b.decls if 'grid' in d)
    for i in range(0, len(gb), 48):
        R.run(gb[i:i + 48], 'grid')
    ctx.log('grid done (%d cells in %d namespaces)' % (len(grid_total), len(gb)))

    # ---- structured stream
    n_decl = ctx.n(420, 20000)
    per = ctx.n(35, 120)
    batches = []
    made = 0
    while made < n_decl:
        g = Gen(rng, 'T%d' % len(batches), per)
        b = g.build()
        batches.append(b)
        made += sum(1 for d in b.decls if d['d'] in ('struct', 'union', 'boxed', 'object'))
    for i in range(0, len(batches), 48):
        R.run(batches[i:i + 48], 'random')
        ctx.log('random stream: %d/%d batches' % (min(i + 48, len(batches)), len(batches)))

    # ---- permutations over 8 size/alignment classes
    if ctx.tier == 'thorough':
        seqs = [s for L in range(1, 6) for s in itertools.product(range(8), repeat=L)]
        exhaustive = 'all sequences of length <= 5 over 8 size/alignment classes (%d structs)' % len(seqs)
    else:
        seqs = [s for L in range(1, 3) for s in itertools.product(range(8), repeat=L)]
        seqs += [tuple(rng.randrange(8) for _ in range(rng.randint(3, 5))) for _ in range(150)]
        exhaustive = 'all sequences of length <= 2 over 8 size/alignment classes + 150 random of length 3..5'
    pb = perm_batches(seqs, 400, 'P')
    for i in range(0, len(pb), 48):
        R.run(pb[i:i + 48], 'perm')
    ctx.log('permutations done (%d structs)' % len(seqs))

    samples = []
    for b in (batches[:1] + pb[:1] + ab[:1]):
        d = [x for x in b.decls if x['d'] in ('struct', 'union')][-1]
        samples.append(dump_batch(b, [d['name']]))
    ctx.coverage.update({
        'evaluations': R.evals,
        'distinct_nontrivial': R.cnt.n_distinct(),
        'rule': 'deterministic grid (coverage.grid): every member kind (all 32 basic names, 10 pointer sorts, enums/flags, '
                'inline and typedef callbacks, aliases of basic/struct/union/enum, by-value struct/union/class/boxed with '
                'size != alignment, arrays of length 0 / 1 / n of each element sort incl. arrays of structs, unions, '
                'enums, pointers, arrays) x every nesting context over struct/union/array-of up to depth 3 (quick) / 4 '
                '(thorough), plus enumerations at every storage-class boundary (127/128, 255/256, 32767/32768, '
                '65535/65536, 2^31-1/2^31, 2^32-1, -1, -128/-129, -32768/-32769, -2^31, negative with a large positive) '
                'alone and as struct / union / array members; THEN a seeded generator of acyclic struct/union/boxed/class declarations over all member kinds (32 basic and '
                'platform integer/float names, gboolean, GType, gunichar, pointers of 7 sorts, utf8/filename, enums and '
                'flags of 15 value-range classes incl. negative / >= 2^31 / mixed, fixed arrays incl. nested and zero '
                'length, by-value and by-pointer structs/unions of the namespace up to depth 4, named and inline '
                'callbacks, aliases), 0..12 members; every declaration goes through the real g-ir-compiler + public '
                'API, the Lean model + Spec, and gcc.  non-trivial = at least 2 members; distinct by content hash. '
                'Permutations: ' + exhaustive + '. Unknown-size stream: void fields (in struct, union, class, boxed), '
                'self/mutual recursion, unresolvable types, arrays of length 0 / 1 / n whose element has no known size, '
                'the unknown member one or two levels down by value or as an array element (tool must stop or record '
                'unknown), flexible array members, non-introspectable by-value fields.',
        'samples': samples,
        'distribution': R.cnt.counts,
        'corpus_cases': sum(len(b.decls) for b in corpus),
        'exhaustive': ctx.tier == 'thorough',
        'namespaces_compiled': len(batches) + len(pb) + len(ab) + len(corpus),
        'namespaces_where_compiler_stopped': R.aborted_batches,
        'pending_findings': [p['key'] for p in PENDING_FINDINGS],
        'grid': grid_summary(grid_total, R.grid_cells),
    })
    ctx.coverage['trusted_base'] = [
        'Lean 4.33.0 kernel (theorems re-checked by `lake build` on every run)',
        'axioms allowed: propext, Classical.choice, Quot.sound (audited with #print axioms on every run)',
        'Lean compiler for executing the models in the compiled driver (gidriver_c08)',
        'translators/gen_ffisizes.py: C probe compiled against /repo (ffi sizes, probe enums) and formula shapes',
        'the correspondence harness (sampling): ties the model of giroffsets.c/girnode.c to the real g-ir-compiler',
        'Spec.cLayout (System V rule) = "what the C compiler does" is NOT proved: validated on every run against gcc '
        'sizeof/_Alignof/offsetof of every generated declaration',
        'gcc as the oracle for the platform C ABI; the C spelling of GIR basic types (gboolean=int, GType=gsize, '
        'gunichar=guint32, glong=long ...) written by hand for x86-64 Linux',
        'harness/c08.py model_type(): transcription of girparser.c start_type/start_field (type name -> tag, '
        'is_pointer, has_size) feeding the model; a slip shows as a correspondence failure',
        'glibshim: hand-written GLib declarations used to build /repo\'s C code',
    ]
    ctx.assumptions.extend([
        'bit-field members (`bits`) are outside the statement\'s member kinds: generated, compared with the model, not judged',
        'enumerations with a member outside [-2^31, 2^32) are outside the typelib format (ValueBlob.value is 32 bit): not judged',
        'a bare <callback> inside a <union> (pre-1.0 GIR style, never written by g-ir-scanner) is not judged',
        'struct sizes stay below 2^31 - alignment (C int arithmetic in giroffsets.c; StructBlob.size is 32 bit)',
        'g-ir-compiler turns g_warning into a fatal error: recursion / void field / unresolvable type stop the tool '
        'without a typelib, which is counted as "not recorded wrongly"',
        'x86-64 System V only (the tables in Gen/FfiSizes.lean are measured on the machine running the check)',
        'class (<class>) sizes are not stored in ObjectBlob: only their field offsets are compared',
    ])


def replay(ctx, rep):
    for p in PENDING_FINDINGS:
        ctx.known.append(dict(p, status='known', property='C08'))
    compiler, dumper = build_c(ctx)
    ctx.run_translators(['gen_ffisizes'])
    basic = read_basic_types(ctx)
    R = Runner(ctx, compiler, dumper, basic)
    r = rep['replay']
    b = Batch(r['batch']['ns'], r['batch']['decls'])
    R.run([b], 'replay')
    for h in ctx.known_hits:
        print('KNOWN-FINDING: property=C08 %s [%s]' % (h['what'], h['key']))
    for v in ctx.violations:
        print('VIOLATION ' + v['what'])
    for x in ctx.broken:
        print('BROKEN ' + x)
    return 1 if (ctx.violations or ctx.broken) else 0
