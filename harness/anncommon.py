"""Shared by harness/c10.py and harness/c11.py: running the REAL comment parser of
/repo (giscanner/annotationparser.py) with a recording message logger, canonical forms
shared with the Lean model driver, and the generators' vocabulary.
"""
import io
import re
import sys

from core import REPO

import scanpipe


# ---------------------------------------------------------------- real implementation
class Impl(object):
    def __init__(self):
        if REPO not in sys.path:
            sys.path.insert(0, REPO)
        m = scanpipe.mods()
        self.ap = m.annotationparser
        self.message = m.message
        self.logger = scanpipe.install_logger()
        self.parser = self.ap.GtkDocCommentBlockParser()
        self.writer = self.ap.GtkDocCommentBlockWriter()

    def fresh_logger(self, enable=True):
        self.logger = scanpipe.install_logger()
        self.logger._real.enable_warnings(enable)
        return self.logger

    def take(self):
        recs = self.logger.records[:]
        del self.logger.records[:]
        return recs

    # -- layer 1
    def mk_anns(self, init):
        if init is None:
            return None
        a = self.ap.GtkDocAnnotations(position=self.message.Position('f.c', 1))
        for name, opts in init:
            a[name] = opts_from_json(opts)
        return a

    def parse_annotations(self, fields, col=0, init=None, parse_options=True, line=None):
        self.take()
        pos = self.message.Position('f.c', 7)
        line = line if line is not None else ' ' * col + fields
        try:
            r = self.parser._parse_annotations(pos, col, line, fields, self.mk_anns(init), parse_options)
        except Exception as e:  # noqa
            return {'raise': type(e).__name__, 'diags': tdiags(self.take())}
        d = tdiags(self.take())
        if not r.success:
            return {'ok': False, 'diags': d}
        if parse_options:
            anns, raw = anns_to_json(r.annotations), []
        else:
            anns, raw = anns_to_json(self.mk_anns(init) or {}), list(r.annotations)
        return {'ok': True, 'anns': anns, 'raw': raw, 'changed': bool(r.annotations_changed),
                'start': r.start_pos, 'end': r.end_pos, 'diags': d}

    def parse_fields(self, fields, col=0, init=None, parse_options=True, validate=True, line=None):
        self.take()
        pos = self.message.Position('f.c', 7)
        line = line if line is not None else ' ' * col + fields
        try:
            r = self.parser._parse_fields(pos, col, line, fields, self.mk_anns(init), parse_options, validate)
        except Exception as e:  # noqa
            return {'raise': type(e).__name__, 'diags': tdiags(self.take())}
        d = tdiags(self.take())
        if not r.success:
            return {'ok': False, 'anns': [], 'raw': [], 'changed': False, 'description': '', 'diags': d}
        if parse_options:
            anns, raw = anns_to_json(r.annotations), []
        else:
            anns, raw = anns_to_json(self.mk_anns(init) or {}), list(r.annotations)
        return {'ok': True, 'anns': anns, 'raw': raw, 'changed': bool(r.annotations_changed),
                'description': r.description, 'diags': d}

    def serialize(self, anns):
        return self.writer._serialize_annotations(self.mk_anns(anns))


def opts_from_json(o):
    from collections import OrderedDict
    if o is None:
        return None
    if isinstance(o, list):
        return list(o)
    return OrderedDict((k, v) for k, v in o['dict'])


def opts_to_json(o):
    if o is None:
        return None
    if isinstance(o, list):
        return list(o)
    return {'dict': [[k, v] for k, v in o.items()]}


def anns_to_json(a):
    return [[k, opts_to_json(v)] for k, v in a.items()]


# message text -> the model's DKind constructor names
KINDS = [
    (r'^unexpected parentheses, annotations will be ignored:', 'unexpectedParens'),
    (r'^unbalanced parentheses, annotations will be ignored:', 'unbalancedParens'),
    (r'^multiple ".*" annotations:', 'multipleAnn'),
    (r'^"in-out" annotation has been deprecated', 'inoutDeprecated'),
    (r'^"attribute" annotation has been deprecated', 'attributeDeprecated'),
    (r'^malformed "\(attribute\)" annotation will be ignored:', 'malformedAttribute'),
    (r'^invalid annotation options: expected a "list" but received "key=value pairs":', 'listGotKeyValue'),
    (r'^missing ":" at column', 'missingColon'),
    (r'^Skipping invalid GTK-Doc comment block:', 'skipSingleLine'),
    (r'^GTK-Doc comment block start token "/\*\*" should not be preceded by code:', 'codeBeforeStart'),
    (r'^GTK-Doc comment block start token "/\*\*" should not be followed by comment text:', 'textAfterStart'),
    (r'^GTK-Doc comment block end token "\*/" should not be followed by code:', 'codeAfterEnd'),
    (r'^GTK-Doc comment block end token "\*/" should not be preceded by comment text:', 'textBeforeEnd'),
    (r'^invalid comment text:', 'invalidCommentText'),
    (r'^identifier not found on the first line:', 'identNotFound'),
    (r'^"@.*" parameter unexpected at this location:', 'paramUnexpected'),
    (r'^encountered multiple "Returns" parameters or tags for', 'multipleReturnsParam'),
    (r'^"@.*" parameter is deprecated, please use "@\.\.\." instead:', 'varargsDeprecated'),
    (r'^multiple "@.*" parameters for identifier', 'multipleParam'),
    (r'^GObject-Introspection specific GTK-Doc tag ".*" has been deprecated', 'giTagDeprecated'),
    (r'^malformed "Attributes:" tag will be ignored:', 'malformedAttributesTag'),
    (r'^Duplicate "Attributes:" annotation will be ignored:', 'duplicateAttributesTag'),
    (r'^GTK-Doc tag "Description:" has been deprecated:', 'descriptionTagDeprecated'),
    (r'^".*:" tag unexpected at this location:', 'tagUnexpected'),
    (r'^encountered multiple return value parameters or tags for', 'multipleReturnsTag'),
    (r'^multiple ".*:" tags for identifier', 'multipleTag'),
    (r'^annotations not supported for tag', 'tagAnnotationsUnsupported'),
    (r'^unexpected annotation: ', 'unexpectedAnnotation'),
    (r'^unknown annotation: ', 'unknownAnnotation'),
    (r'^cannot have both "not nullable" and "nullable" present', 'notNullableBoth'),
    (r'^cannot have both "not nullable" and "allow-none" present', 'notAllowNoneBoth'),
    (r'^cannot have both "not optional" and "optional" present', 'notOptionalBoth'),
    (r'^".*" annotation (needs|takes at least|takes at most) ', 'optionCount'),
    (r'^invalid ".*" annotation option ".*" value ".*", must be an integer', 'arrayNotInteger'),
    (r'^invalid ".*" annotation option ".*" value ".*", must be 0 or 1', 'arrayNotBool'),
    (r'^".*" annotation option "length" needs a value', 'arrayLengthNeedsValue'),
    (r'^".*" annotation option ".*" needs a value', 'arrayNeedsValue'),
    (r'^invalid ".*" annotation option: ', 'invalidOption'),
    (r'^unrecoverable parse error, please file a GObject-Introspection bug', 'unrecoverable'),
    (r'^multiple comment blocks documenting', 'multipleBlocks'),
]
KINDS = [(re.compile(p, re.S), k) for p, k in KINDS]
VALIDATE_KINDS = {'unexpectedAnnotation', 'unknownAnnotation', 'notNullableBoth', 'notAllowNoneBoth',
                  'notOptionalBoth', 'optionCount', 'arrayNotInteger', 'arrayNotBool',
                  'arrayLengthNeedsValue', 'arrayNeedsValue', 'invalidOption'}


def kind_of(text):
    for p, k in KINDS:
        if p.match(text):
            return k
    return 'OTHER:' + text[:40]


def tdiags(records):
    """tokenizer-level canonical diagnostics: level, kind, caret column"""
    return [{'level': 'W' if r['level'] == 0 else 'E', 'kind': kind_of(r['text']), 'marker': r['marker_pos']}
            for r in records]


# ---------------------------------------------------------------- vocabulary for generators
UNI_SPACES = [' ', ' ', ' ', ' ', '　', '\x0b', '\x0c', '\x1c', '\x1f', '\x85', ' ']
NON_ASCII = ['é', '中', 'ß', 'İ', 'Σ', 'K', 'ſ', 'ǅ', '\U0001f600', '̇', 'Ω', 'µ']
UNKNOWN_ANN_NAMES = ['foo', 'bar-baz', 'x', 'copy-func', 'free-func', 'unknown.name', 'ns:ann', 'été', 'a_b', '9', 'in-', 'Skip2']
OPTION_WORDS = ['full', 'none', 'container', 'floating', 'utf8', 'guint8', 'GLib.HashTable', 'length=len', 'n_items',
                'zero-terminated=1', 'fixed-size=3', 'zero-terminated', 'length', 'fixed-size', 'call', 'async',
                'notified', 'forever', 'nullable', 'optional', 'callee-allocates', 'caller-allocates', 'a=b', 'k=',
                '=v', 'a=b=c', 'x', '1', '-1', 'foo_bar', 'Gtk.Widget*', 'é', 'org.x.y=z', '']


def vocab(ap):
    return {
        'all': list(ap.ALL_ANNOTATIONS), 'list': list(ap.LIST_ANNOTATIONS), 'dict': list(ap.DICT_ANNOTATIONS),
        'tags': list(ap.ALL_TAGS),
        'options': {'array': list(ap.ARRAY_OPTIONS), 'out': list(ap.OUT_OPTIONS), 'not': list(ap.NOT_OPTIONS),
                    'scope': list(ap.SCOPE_OPTIONS), 'transfer': list(ap.TRANSFER_OPTIONS)},
        'valid': {'block': list(ap.GtkDocCommentBlock.valid_annotations),
                  'param': list(ap.GtkDocParameter.valid_annotations),
                  'tag': list(ap.GtkDocTag.valid_annotations)},
    }


SAFE_VALUE_CHARS = 'abcdefghijklmnopqrstuvwxyzABCDEFGHIJKLMNOPQRSTUVWXYZ0123456789_-.*,:/+?é中'


VALUE_SAMPLES = ['http://x/?id=3', 'a==b', 'n=len', '=', '==', 'k=v=w', 'x.y:z/w?q=1,2', 'é=中', '=x', 'x=']


def gen_token(rng, allow_eq=False):
    """a token without white space / parentheses; with `allow_eq` (the VALUE of a key=value option, or a
    free-form word) it may contain '=' anywhere: only the first '=' of `key=value` separates"""
    if allow_eq and rng.random() < 0.15:
        return rng.choice(VALUE_SAMPLES)
    n = rng.randint(1, 8)
    t = ''.join(rng.choice(SAFE_VALUE_CHARS) for _ in range(n))
    if allow_eq and rng.random() < 0.3:
        for _ in range(rng.choice([1, 1, 2])):
            i = rng.randint(0, len(t))
            t = t[:i] + '=' + t[i:]
    if not allow_eq:
        t = t.replace('=', '')
    return t or 'x'


def gen_wf_annotation(rng, voc, pool=None):
    """one well-formed annotation model [name, opts] (opts: None | list | {'dict': [[k, v]]})"""
    r = rng.random()
    names = pool or voc['all']
    if r < 0.8:
        name = rng.choice(names)
    else:
        name = rng.choice(UNKNOWN_ANN_NAMES[:7] + [gen_token(rng).lower().replace(':', 'c')])
    if name in ('in-out', 'attribute'):
        name = 'inout' if name == 'in-out' else 'attributes'
    name = name.lower()
    if name in voc['dict']:
        d = []
        keys = voc['options'].get(name) or []
        for _ in range(rng.randint(0, 3)):
            k = rng.choice(keys) if keys and rng.random() < 0.8 else gen_token(rng).replace(':', '.')
            k = k.replace('=', '')
            if k in [x[0] for x in d]:
                continue
            v = None if rng.random() < 0.3 else gen_token(rng, allow_eq=True)
            if rng.random() < 0.04:
                v = ''          # `key=`: the parser keeps the empty value
            d.append([k, v])
        return [name, {'dict': d}]
    if name in voc['list']:
        opts = voc['options'].get(name)
        k = rng.choice([0, 0, 1, 1, 1, 2, 3])
        l = [(rng.choice(opts) if opts and rng.random() < 0.8 else gen_token(rng)) for _ in range(k)]
        return [name, l]
    # unknown name: None or one free-form option string
    if rng.random() < 0.4:
        return [name, None]
    words = [gen_token(rng, allow_eq=True) for _ in range(rng.randint(1, 3))]
    return [name, [' '.join(words)]]


def gen_wf_anns(rng, voc, pool=None, maxn=4):
    out = []
    for _ in range(rng.choice([0, 1, 1, 2, 2, 3, maxn])):
        a = gen_wf_annotation(rng, voc, pool)
        if a[0] not in [x[0] for x in out]:
            out.append(a)
    return out


def render_opts(o):
    if o is None:
        return None
    if isinstance(o, list):
        return ' '.join(o) if o else None
    d = o['dict']
    if not d:
        return None
    return ' '.join(k if v is None else '%s=%s' % (k, v) for k, v in d)


def render_annotation(a):
    o = render_opts(a[1])
    return '(%s)' % a[0] if o is None else '(%s %s)' % (a[0], o)


def render_anns(anns, sep=' '):
    return sep.join(render_annotation(a) for a in anns)


# parentheses that hold nothing or only white space (of any kind), alone and next to real annotations
EMPTY_PARENS = ['( )', '(  )', '(\t)', '()', '(( ))', '( ) (skip)', '(skip) ( )', '(\xa0)', '(\u2028)', '( \t )', '(in) ( ) (out)']


def mutate_text(rng, s, extra=''):
    """grammar-aware one-step mutation of a piece of comment text"""
    alphabet = '()(): <>=@*/.-_\t' + extra
    k = rng.random()
    i = rng.randint(0, len(s))
    if k < 0.25:
        return s[:i] + rng.choice(alphabet) + s[i:]
    if k < 0.4 and s:
        i = min(i, len(s) - 1)
        return s[:i] + s[i + 1:]
    if k < 0.55 and s:
        i = min(i, len(s) - 1)
        return s[:i] + rng.choice(alphabet) + s[i + 1:]
    if k < 0.65:
        return s[:i] + rng.choice(UNI_SPACES) + s[i:]
    if k < 0.75:
        return s[:i] + rng.choice(NON_ASCII) + s[i:]
    if k < 0.85 and s:
        j = rng.randint(0, len(s))
        a, b = min(i, j), max(i, j)
        return s[:a] + s[a:b].upper() + s[b:]
    if k < 0.92 and s:
        j = rng.randint(0, len(s))
        a, b = min(i, j), max(i, j)
        return s[:a] + s[a:b] + s[a:b] + s[b:]
    if rng.random() < 0.3:
        return s[:i] + rng.choice(EMPTY_PARENS) + s[i:]
    return s[:i] + rng.choice(['((', '))', '()', '( )', ') (', '(in-out)', '(attribute a b)', '(attribute a)',
                               '(attribute)', '(type <utf8>)', '(in) (in)', '(transfer full=1)', ' : ', '::']) + s[i:]


def gen_field_string(rng, voc):
    """an annotation field as it appears after the `:` of a parameter/tag/identifier line:
    mostly valid, then mutated 0..3 times"""
    anns = gen_wf_anns(rng, voc)
    sep = rng.choice([' ', ' ', ' ', '', '  ', '\t'])
    s = render_anns(anns, sep)
    if rng.random() < 0.06:
        # white-space-only parentheses at annotation position
        e = rng.choice(EMPTY_PARENS)
        s = rng.choice([e + sep + s, s + sep + e, e])
    r = rng.random()
    if r < 0.5:
        s += rng.choice([': ', ':', ' ', ' : ', '']) + rng.choice(
            ['a description', 'see foo()', '(not an annotation) text', 'text (with parens)', 'x', '', ': colon',
             'Returns: x', '@p: y', 'é'])
    for _ in range(rng.choice([0, 0, 0, 1, 1, 2, 3])):
        s = mutate_text(rng, s)
    return s


def noise_string(rng, maxlen=12):
    alpha = '()(): <>=ab-\t' + ''.join(UNI_SPACES[:3]) + 'éİ'
    return ''.join(rng.choice(alpha) for _ in range(rng.randint(0, maxlen)))


# ---------------------------------------------------------------- layer 2: line matchers
PATTERN_NAMES = ['COMMENT_BLOCK_START_RE', 'COMMENT_BLOCK_END_RE', 'COMMENT_ASTERISK_RE', 'INDENTATION_RE',
                 'EMPTY_LINE_RE', 'SECTION_RE', 'SYMBOL_RE', 'PROPERTY_RE', 'SIGNAL_RE', 'ACTION_RE', 'FIELD_RE',
                 'PARAMETER_RE', 'TAG_RE', 'TAG_VALUE_VERSION_RE', 'TAG_VALUE_STABILITY_RE']


def load_pattern_tests():
    """(pattern name, text) pairs of /repo/tests/scanner/annotationparser/test_patterns.py"""
    import importlib.util
    import os
    path = os.path.join(REPO, 'tests', 'scanner', 'annotationparser', 'test_patterns.py')
    out = []
    try:
        spec = importlib.util.spec_from_file_location('giverif_test_patterns', path)
        mod = importlib.util.module_from_spec(spec)
        spec.loader.exec_module(mod)
    except Exception:  # noqa
        return out
    from giscanner import annotationparser as ap
    names = {id(getattr(ap, n)): n for n in PATTERN_NAMES if hasattr(ap, n)}
    for k, v in vars(mod).items():
        if k.endswith('_tests') and isinstance(v, list):
            for t in v:
                n = names.get(id(t[0]))
                if n:
                    out.append((n, t[1]))
    return out


def impl_match(ap, name, line):
    """the repo's compiled pattern object on one line -> same shape as the model driver"""
    pat = getattr(ap, name)
    m = pat.match(line)
    if m is None:
        return None
    r = {'groups': {g: [m.start(g), m.end(g)] for g in pat.groupindex if isinstance(g, str)}}
    if name == 'COMMENT_ASTERISK_RE':
        r['end0'] = m.end(0)
    return r


LINE_SEEDS = ['/**', ' /** ', 'code /** text', '/***', '/**/', ' */', ' **/', 'text */ code', ' * text', '*', '  *  x',
              'SECTION:foo', 'SECTION: foo-bar :', 'SECTION foo', 'foo_bar:', 'foo_bar: (skip)', 'foo-bar (skip) :',
              'GtkWidget:prop-name:', 'GtkWidget::signal-name: (skip)', 'GtkWidget.field: (type int)',
              'GtkWidget|group.action:', 'Gtk Widget : : sig', '@param: (in): text', '@...:', '@args...: x',
              '@p : ', '@p', '@-: x', '@a-: x', 'Returns: (transfer full): x', 'Since: 2.0', 'Deprecated: 1.2: use x',
              'Stability: Unstable', 'return value: x', 'Returns value : x', 'Rename to: foo', 'Get value func: f',
              'Since:2.0', 'since', 'Virtual: x', 'Attributes: (a b) (c d)', 'Description: text', 'Type: utf8',
              '2.0: text', ' 1.2.3 ', ':', 'stable', 'Unstable: x', 'internal', 'privatex', '', '   ', '\t', 'x']


def gen_line(rng):
    s = rng.choice(LINE_SEEDS)
    for _ in range(rng.choice([0, 0, 1, 1, 2, 3])):
        s = mutate_text(rng, s, extra='|S')
    return s.replace('\n', ' ').replace('\r', ' ')


def one_char_mutants(s, alphabet=' :*/@.-|(x\t S'):
    out = set()
    for i in range(len(s) + 1):
        for c in alphabet:
            out.add(s[:i] + c + s[i:])
        if i < len(s):
            out.add(s[:i] + s[i + 1:])
            for c in alphabet:
                out.add(s[:i] + c + s[i + 1:])
    return out


# ---------------------------------------------------------------- block level (real parser)
def block_to_json(b):
    """canonical form of a GtkDocCommentBlock (everything the property talks about; the
    recorded `indentation` list is reported separately because it depends on the layout)"""
    if b is None:
        return None
    return {
        'name': b.name,
        'annotations': anns_to_json(b.annotations),
        'params': [[p.name, anns_to_json(p.annotations), p.description or None] for p in b.params.values()],
        'description': b.description or None,
        'tags': [[t.name, anns_to_json(t.annotations), t.value or None, t.description or None]
                 for t in b.tags.values()],
        'code_before': b.code_before, 'code_after': b.code_after,
    }


def load_xml_inputs():
    """every <input> comment block of /repo/tests/scanner/annotationparser/**/*.xml"""
    import glob
    import os
    import xml.etree.ElementTree as ET
    out = []
    ns = '{http://schemas.gnome.org/gobject-introspection/2013/test}'
    for path in sorted(glob.glob(os.path.join(REPO, 'tests', 'scanner', 'annotationparser', '*', '*.xml'))):
        try:
            root = ET.parse(path).getroot()
        except Exception:  # noqa
            continue
        for t in root.iter(ns + 'test'):
            inp = t.find(ns + 'input')
            if inp is not None and inp.text:
                has_msgs = t.find(ns + 'parser') is not None and t.find(ns + 'parser').find(ns + 'messages') is not None
                out.append({'file': os.path.basename(path), 'input': inp.text, 'expects_messages': has_msgs})
    return out


WORDS = ['Frobnicates', 'the', 'widget', 'and', 'returns', 'a', 'new', 'reference.', 'See', 'foo_bar()', 'for',
         'details', '#GtkWidget', '%NULL', 'value', 'of', 'list', 'é', '中文', 'x', 'in', 'case', 'free', 'with',
         'g_free().', '(optional)', 'text', 'e.g.', '10', '2.0', 'since', 'a:b', 'returns:', 'http://x.org/y']
CODE_LINES = ['  g_print ("x");', '    return 0;', '|[', ']|', '  - item one', '\tfoo (a, b);', '  int x = 1; /<!-- -->* c *<!-- -->/']
SYM_NAMES = ['foo_bar', 'gtk_widget_show', 'FooBar', 'FOO_CONST', 'foo-bar', 'x', 'g_object_new', '_private_fn', 'été',
             'foo2', 'a_b_c', 'ACTION_TYPE_FOO']
CLASS_NAMES = ['GtkWidget', 'FooBar', 'GObject', 'X', 'Été']
MEMBER_NAMES = ['prop-name', 'clicked', 'notify', 'size_changed', 'x', 'long-member-name']
PARAM_NAMES = ['obj', 'self', 'n_items', 'user_data', 'error', 'a', 'callback', 'out-value', 'é', 'x1', '...']


def first_word_ok(w):
    return not (w.startswith('(') or w.startswith('@') or w.startswith(':') or w.startswith('*') or w.startswith('/'))


def gen_text_line(rng, ap, maxw=7):
    """a description line that cannot be mistaken for a parameter, tag or annotation line"""
    while True:
        ws = [rng.choice(WORDS) for _ in range(rng.randint(1, maxw))]
        while not first_word_ok(ws[0]):
            ws[0] = rng.choice(WORDS)
        l = ' '.join(ws)
        if ap.TAG_RE.match(l) or ap.PARAMETER_RE.match(l) or '*/' in l or '/*' in l:
            continue
        return l


def gen_desc_lines(rng, ap, first=True, allow_par=True, allow_code=True, cont_indent=''):
    """lines of a description: text lines, optionally blank lines between paragraphs and
    indented code lines (never first, never last)"""
    n = rng.choice([0, 1, 1, 1, 2, 3, 4]) if first else rng.choice([1, 2])
    lines = [gen_text_line(rng, ap) for _ in range(n)]
    if cont_indent:
        # white space after the asterisk belongs to the text (GTK-Doc keeps it, e.g. for code)
        lines = lines[:1] + [cont_indent + l for l in lines[1:]]
    if len(lines) >= 2 and allow_par and rng.random() < 0.4:
        lines.insert(rng.randint(1, len(lines) - 1), '')
    if len(lines) >= 2 and allow_code and rng.random() < 0.3:
        lines.insert(rng.randint(1, len(lines) - 1), rng.choice(CODE_LINES))
    return lines


def gen_block_model(rng, impl, voc):
    """a block MODEL following the documented grammar"""
    ap = impl.ap
    form = rng.choice(['symbol'] * 5 + ['property', 'signal', 'field', 'section', 'action'])
    m = {'form': form}
    if form == 'symbol':
        m['ident'] = rng.choice(SYM_NAMES)
        m['name'] = m['ident']
    elif form == 'property':
        c, p = rng.choice(CLASS_NAMES), rng.choice(MEMBER_NAMES)
        m['ident'], m['name'] = '%s:%s' % (c, p), '%s:%s' % (c, p)
    elif form == 'signal':
        c, p = rng.choice(CLASS_NAMES), rng.choice(MEMBER_NAMES)
        m['ident'], m['name'] = '%s::%s' % (c, p), '%s::%s' % (c, p)
    elif form == 'field':
        c, p = rng.choice(CLASS_NAMES), rng.choice(MEMBER_NAMES)
        m['ident'], m['name'] = '%s.%s' % (c, p), '%s.%s' % (c, p)
    elif form == 'section':
        s = rng.choice(['gtkwidget', 'foo-bar', 'x1', 'main_section'])
        m['ident'], m['name'] = 'SECTION:%s' % s, 'SECTION:%s' % s
    else:
        c = rng.choice(CLASS_NAMES)
        a = rng.choice(['win.close', 'app.quit', 'group-x.action-y'])
        m['ident'], m['name'] = '%s|%s' % (c, a), 'ACTION:%s:%s' % (c, a)
    annotatable = form in ('symbol', 'property', 'signal', 'field')
    m['annotations'] = gen_wf_anns(rng, voc, voc['valid']['block'] + ['copy-func', 'x-unknown'], 3) \
        if annotatable and rng.random() < 0.5 else []
    params = []
    if form in ('symbol', 'signal') and rng.random() < 0.8:
        names = rng.sample(PARAM_NAMES, rng.randint(0, 4))
        if '...' in names:
            names.remove('...')
            names.append('...')
        for n in names:
            params.append({'name': n,
                           'annotations': gen_wf_anns(rng, voc, voc['valid']['param'], 3) if rng.random() < 0.6 else [],
                           'description': gen_desc_lines(rng, ap, allow_par=False, allow_code=False,
                                                         cont_indent=rng.choice(['', '  ', '    ', '\t']))})
    m['params'] = params
    m['description'] = gen_desc_lines(rng, ap) if rng.random() < 0.8 else []
    tags = []
    if form in ('symbol', 'signal', 'property') and rng.random() < 0.7:
        for tn in rng.sample(['returns', 'since', 'deprecated', 'stability'], rng.randint(0, 3)):
            t = {'name': tn, 'annotations': [], 'value': None,
                 'description': gen_desc_lines(rng, ap, allow_par=rng.random() < 0.3, allow_code=False)}
            if tn == 'returns':
                t['annotations'] = gen_wf_anns(rng, voc, voc['valid']['tag'], 2) if rng.random() < 0.6 else []
            elif tn in ('since', 'deprecated'):
                t['value'] = rng.choice(['2.0', '1.2.3', '0.10', '3'])
                if tn == 'since' and rng.random() < 0.6:
                    t['description'] = []
            else:
                t['value'] = rng.choice(['Stable', 'Unstable', 'Private', 'Internal'])
                t['description'] = []
            # a value-carrying tag's description must not start like a version / colon
            if t['value'] and t['description'] and not t['description'][0][:1].isalpha():
                t['description'][0] = 'Use ' + t['description'][0]
            tags.append(t)
        order = {'returns': 0, 'since': 1, 'deprecated': 2, 'stability': 3}
        if rng.random() < 0.7:
            tags.sort(key=lambda t: order[t['name']])
    m['tags'] = tags
    return m


def clean_desc(lines):
    """what the parser must recover for description lines: the lines joined, outer
    white space removed, empty -> None"""
    s = '\n'.join(l.rstrip() for l in lines).strip()
    return s or None


def expected_block(m):
    """the canonical parse result the property demands for a model"""
    def norm(anns):
        return [[a[0], a[1]] for a in anns]
    return {
        'name': m['name'],
        'annotations': norm(m['annotations']),
        'params': [[p['name'], norm(p['annotations']), clean_desc(p['description'])] for p in m['params']],
        'description': clean_desc(m['description']),
        'tags': [[t['name'], norm(t['annotations']), t['value'], clean_desc(t['description'])] for t in m['tags']],
        'code_before': '', 'code_after': '',
    }


def gen_layout(rng):
    return {
        'indent': rng.choice([' ', ' ', ' ', '', '  ', '\t', '   ', '\t ', '        ']),
        'eol': rng.choice(['\n', '\n', '\r\n', '\r']),
        'split': rng.random(),            # probability of breaking the line before an annotation
        'cont_indent': rng.choice(['', ' ', '  ', '    ', '\t']),
        'ident_colon': rng.random() < 0.6,
        'tags_blank': rng.random() < 0.7,
        'after_star': rng.choice([' ', ' ', ' ', '\t']),
        'trailing_ws': rng.random() < 0.2,
        # indentation in front of the asterisk, line by line: None = the same on every line, else a ragged layout
        'ragged': rng.choice([None, None, None, 'random', 'random', 'stair-up', 'stair-down', 'tags-deeper',
                              'tabs-and-spaces']),
        'seed': rng.getrandbits(32),
    }


def render_block(m, lay):
    """one layout of a block model as comment text"""
    import random
    r = random.Random(lay['seed'])

    def ann_lines(prefix, anns, tail):
        """`prefix (a) (b)` + tail, possibly continued over several lines"""
        lines = [prefix]
        for i, a in enumerate(anns):
            s = render_annotation(a)
            if r.random() < lay['split'] and not (i == 0 and prefix.endswith(':') is False):
                lines.append(lay['cont_indent'] + s)
            else:
                lines[-1] += ' ' + s
        if tail is not None:
            lines[-1] += tail
        return lines

    body = []
    # identifier
    if m['annotations']:
        body.extend(ann_lines(m['ident'] + ':', m['annotations'], None))
    elif m['form'] in ('section', 'action'):
        body.append(m['ident'])
    else:
        body.append(m['ident'] + (':' if lay['ident_colon'] else ''))
    # parameters
    for p in m['params']:
        d = p['description']
        first = d[0] if d else ''
        if p['annotations']:
            ls = ann_lines('@%s:' % p['name'], p['annotations'], (': ' + first) if d else (':' if r.random() < 0.3 else ''))
        else:
            ls = ['@%s:%s' % (p['name'], (' ' + first) if d else '')]
        body.extend(ls)
        for extra in d[1:]:
            body.append(extra)
    # description
    if m['description']:
        body.append('')
        body.extend(m['description'])
    # tags
    if m['tags']:
        if lay['tags_blank'] or not (m['description']):
            body.append('')
        for t in m['tags']:
            d = t['description']
            first = d[0] if d else ''
            head = t['name'].capitalize() + ':'
            if t['annotations']:
                ls = ann_lines(head, t['annotations'], (': ' + first) if d else '')
            else:
                rest = ''
                if t['value']:
                    rest = ' ' + t['value'] + ((': ' + first) if d else '')
                elif d:
                    rest = ' ' + first
                ls = [head + rest]
            body.extend(ls)
            for extra in d[1:]:
                body.append(extra)
    ind = lay['indent']
    out = [(ind[:-1] if ind and not ind.endswith('\t') else ind) + '/**']
    indents = line_indents(lay, body, r)
    for l, li in zip(body, indents):
        if l:
            out.append(li + '*' + lay['after_star'] + l + ('  ' if lay['trailing_ws'] else ''))
        else:
            out.append(li + '*' + (' ' if lay['trailing_ws'] else ''))
    out.append(indents[-1] + '*/' if lay.get('ragged') else ind + '*/')
    return lay['eol'].join(out)


RAGGED_POOL = ['', ' ', '  ', '   ', '\t', ' \t', '\t ', '\t\t', '      ', '\x0c ', ' \xa0']


def line_indents(lay, body, r):
    """the white space in front of the asterisk of every body line.  The property says the parse is the same
    "regardless of ... any indentation in front of the asterisks": ragged layouts give every line its own."""
    mode = lay.get('ragged')
    n = len(body)
    ind = lay['indent']
    if not mode:
        return [ind] * n
    if mode == 'random':
        return [r.choice(RAGGED_POOL) for _ in range(n)]
    if mode == 'tabs-and-spaces':
        return [r.choice([' ', '\t', '  ', ' \t', '\t ']) for _ in range(n)]
    if mode == 'stair-up':
        unit = r.choice([' ', '\t', '  '])
        return [ind + unit * i for i in range(n)]
    if mode == 'stair-down':
        unit = r.choice([' ', '\t', '  '])
        return [ind + unit * (n - 1 - i) for i in range(n)]
    # tags-deeper: tag lines (and continuation lines) sit deeper than the line that opened the part before them
    out = []
    for l in body:
        tagish = bool(re.match(r'\s*(returns|since|deprecated|stability)\s*:', l, re.I)) or l.lstrip().startswith('(')
        out.append(ind + r.choice([' ', '  ', '\t', '   ']) if tagish else ind)
    return out


def parse_real(impl, text, filename='f.c', lineno=1):
    """(canonical block or None, indentation, records, raised exception or None)"""
    impl.take()
    try:
        b = impl.parser.parse_comment_block(text, filename, lineno)
    except Exception as e:  # noqa
        return None, None, impl.take(), e
    return block_to_json(b), (list(b.indentation) if b is not None else None), impl.take(), None


# ---------------------------------------------------------------- block model vs real parser / writer
def _pos_line(x):
    pos = getattr(x, 'position', None)
    return pos.line if pos is not None else None


def part_raw(p, is_tag):
    d = {'name': p.name, 'line': _pos_line(p), 'annotations': anns_to_json(p.annotations),
         'anns_line': _pos_line(p.annotations), 'description': p.description}
    if is_tag:
        d['value'] = p.value
    return d


def block_raw(b):
    """a GtkDocCommentBlock exactly as the parser left it ('' and None kept apart, positions, indentation):
    the shape the model driver's `block.parse` answers with"""
    if b is None:
        return None
    return {'name': b.name, 'line': _pos_line(b), 'annotations': anns_to_json(b.annotations),
            'anns_line': _pos_line(b.annotations),
            'params': [part_raw(p, False) for p in b.params.values()], 'description': b.description,
            'tags': [part_raw(t, True) for t in b.tags.values()], 'code_before': b.code_before,
            'code_after': b.code_after, 'indentation': list(b.indentation)}


def real_block_case(impl, text, lineno):
    """parse_comment_block + GtkDocCommentBlockWriter.write on the real code, in the model driver's shape.
    validate() diagnostics are left out (the model stops before validate())"""
    impl.take()
    try:
        b = impl.parser.parse_comment_block(text, 'f.c', lineno)
    except Exception as e:  # noqa
        impl.take()
        return {'raise': type(e).__name__}
    diags = []
    for r in impl.take():
        k = kind_of(r['text'])
        if k in VALIDATE_KINDS:
            continue
        diags.append({'level': 'W' if r['level'] == 0 else 'E', 'kind': k,
                      'line': r['positions'][-1][1] if r['positions'] else None,
                      'marker': r['marker_pos'], 'quoted': r['marker_line']})
    try:
        w = impl.writer.write(b) if b is not None else None
    except Exception as e:  # noqa
        w = {'raise': type(e).__name__}
    return {'block': block_raw(b), 'diags': diags, 'written': w}


def check_blocks(ctx, impl, cnt, prefix, texts):
    """model `parseBlock` / `writeBlock` vs the real GtkDocCommentBlockParser.parse_comment_block /
    GtkDocCommentBlockWriter.write on `texts` [(text, lineno)]: block tree ('' vs None, positions,
    indentation), every diagnostic (level, kind, line, caret, quoted line) in order, written text."""
    if not hasattr(impl.parser, 'parse_comment_block') or not hasattr(impl.writer, 'write'):
        ctx.broken.append('correspondence %s.block.parse: parse_comment_block / write no longer exists' % prefix)
        return 0, 0
    texts = [(t, ln) for t, ln in texts if 'Σ' not in t]
    res = ctx.driver.batch([{'op': prefix + '.block.parse', 'text': t, 'lineno': ln} for t, ln in texts])
    ndis = 0
    for (t, ln), m in zip(texts, res):
        r = real_block_case(impl, t, ln)
        if 'raise' in r:
            # validate() is not part of the model; what the real code raises is judged by the statement oracles
            cnt.hit('L3:real-raised(not compared)')
            continue
        cnt.hit('L3:block' if r['block'] is not None else 'L3:none')
        for d in r['diags']:
            cnt.hit('L3:diag:' + d['kind'])
        if r != m:
            ndis += 1
            if ndis <= 3:
                where = [k for k in ('block', 'diags', 'written') if 'raise' in m or r[k] != m.get(k)]
                ctx.broken.append('correspondence %s.block.parse differs in %s: text=%r lineno=%d impl=%r model=%r'
                                  % (prefix, where, t, ln, r, m))
    return ndis, len(texts)


# ---------------------------------------------------------------- shared correspondence checks
def private_api_ok(ctx, impl, prefix):
    """Calls into private functions of /repo are guarded: when one is gone or has another
    signature, say so in ctx.broken and let the caller fall back to the public entry point."""
    import inspect
    ok = True
    want = [(impl.parser, '_parse_annotations', ['position', 'column', 'line', 'fields', 'annotations', 'parse_options']),
            (impl.parser, '_parse_fields', ['position', 'column', 'line', 'fields', 'annotations', 'parse_options',
                                            'validate_description_field']),
            (impl.writer, '_serialize_annotations', ['annotations'])]
    for obj, name, params in want:
        f = getattr(obj, name, None)
        if f is None:
            ctx.broken.append('correspondence %s.ann: %s no longer exists' % (prefix, name))
            ok = False
            continue
        try:
            got = list(inspect.signature(f).parameters)
        except (TypeError, ValueError):
            got = None
        if got != params:
            ctx.broken.append('correspondence %s.ann: %s has changed (parameters %r, expected %r)'
                              % (prefix, name, got, params))
            ok = False
    return ok


def check_layer1(ctx, impl, cnt, prefix, cases, ser_cases):
    """model vs real tokenizer on `cases` (dicts fields/col/init/parse_options/validate) and
    model vs real writer on `ser_cases` (annotation lists).  Returns number of disagreements."""
    if not private_api_ok(ctx, impl, prefix):
        return 0
    ndis = 0
    m1 = ctx.driver.batch([dict(op=prefix + '.ann.parse', **c) for c in cases])
    m2 = ctx.driver.batch([dict(op=prefix + '.ann.fields', **c) for c in cases])
    for c, a, b in zip(cases, m1, m2):
        r = impl.parse_annotations(c['fields'], c['col'], c['init'], c['parse_options'])
        r2 = impl.parse_fields(c['fields'], c['col'], c['init'], c['parse_options'], c['validate'])
        cnt.hit('L1:' + ('ok' if r.get('ok') else 'fail' if 'ok' in r else 'raise'))
        for d in r.get('diags', []):
            cnt.hit('L1:diag:' + d['kind'])
        cnt.case(['f', c['fields'], c['init'], c['parse_options']], nontrivial='(' in c['fields'] or ')' in c['fields'])
        if 'Σ' in c['fields']:
            cnt.hit('L1:outside-model(final-sigma)')
            continue
        if r != a:
            ndis += 1
            if ndis <= 3:
                ctx.broken.append('correspondence %s.ann.parse differs: case=%r impl=%r model=%r' % (prefix, c, r, a))
        if r2 != b:
            ndis += 1
            if ndis <= 3:
                ctx.broken.append('correspondence %s.ann.fields differs: case=%r impl=%r model=%r' % (prefix, c, r2, b))
    ms = ctx.driver.batch([{'op': prefix + '.ann.serialize', 'anns': a} for a in ser_cases])
    for a, m in zip(ser_cases, ms):
        try:
            r = impl.serialize(a)
        except Exception as e:  # noqa
            r = 'RAISED %r' % (e,)
        cnt.hit('L1:serialize')
        if r != m:
            ndis += 1
            if ndis <= 3:
                ctx.broken.append('correspondence %s.ann.serialize differs: anns=%r impl=%r model=%r' % (prefix, a, r, m))
    return ndis


def check_matchers(ctx, impl, cnt, prefix, cases):
    """model scanners vs the repo's compiled pattern objects (group spans compared)"""
    missing = [n for n in PATTERN_NAMES if not hasattr(impl.ap, n)]
    for n in missing:
        ctx.broken.append('correspondence %s.re.match: pattern %s no longer exists' % (prefix, n))
    cases = [(n, l) for n, l in cases if n not in missing and '\n' not in l and '\r' not in l]
    res = ctx.driver.batch([{'op': prefix + '.re.match', 'pattern': n, 'line': l} for n, l in cases])
    ndis = 0
    for (n, l), m in zip(cases, res):
        try:
            r = impl_match(impl.ap, n, l)
        except Exception as e:  # noqa
            r = 'RAISED %r' % (e,)
        cnt.hit('L2:%s:%s' % (n, 'match' if r is not None else 'nomatch'))
        cnt.case(['l', n, l], nontrivial=bool(l.strip()))
        if r != m:
            ndis += 1
            if ndis <= 3:
                ctx.broken.append('correspondence %s.re.match differs: %s on %r impl=%r model=%r' % (prefix, n, l, r, m))
    return ndis, len(cases)


def gen_l1_case(rng, voc, malformed=0.2):
    f = gen_field_string(rng, voc) if rng.random() > malformed else noise_string(rng)
    return {'fields': f, 'col': rng.randint(0, 6),
            'init': None if rng.random() < 0.7 else gen_wf_anns(rng, voc),
            'parse_options': rng.random() < 0.9, 'validate': rng.random() < 0.8}


# the defects of the unchanged tree found while building C10/C11 (see the report); each is a genuine violation of
# the statement, recognised by its exact effect and routed through ctx.report_failure under its key:
# every defect found while building C10/C11 has been repaired in /repo (065a201, 902d172, a1e3aaa, b545356, 4fa4c2f);
# their inputs are regressions in corpus/ and nothing is suppressed any more
PENDING_FINDINGS = []


def install_pending(ctx):
    for k in PENDING_FINDINGS:
        if not ctx.is_known(k['key']):
            ctx.known.append({'key': k['key'], 'what': k['what'], 'status': 'known', 'property': ctx.prop})
