"""C03 — Identifier-level annotations and tags land on the right GIR element.

Proof: lean/GIVerif/Props/C03.lean over the model lean/GIVerif/Model/IdentAnn.lean.
Tie: (1) translators/gen_identann.py re-reads the annotation spellings, the block-lookup
expressions / key formats of maintransformer.py and the writer's attribute names; (2) on every
generated namespace the REAL pipeline (scanpipe.scan -> GIR) and the model (`c03.annotate`) are
compared on the identifier-level attribute records of every element; (3) an oracle written from
the property statement judges the real GIR: PRESENCE of the documented attribute on the element
the block names, ABSENCE elsewhere (metamorphic: the same namespace scanned without that one block
may differ only in the target element's subtree and in the effects the statement itself names:
the shadows/shadowed-by partner, the virtual method inheriting from its invoker, the accessor
named by a property; and the knock-on effects of a role annotation renaming the documented function:
accessor pairing by name, emitter validation by name).

Only public entry points of /repo are used (the comment parser's parse_comment_blocks, the
pipeline through scanpipe.scan); an exception escaping the pipeline on an in-scope input is
reported as a failure of the property, not as a harness error.
"""
import copy
import json
import os
import re
import sys
import time
from xml.etree import ElementTree as ET

from core import REPO, VERIF, Counter

import scanpipe
from scanpipe import T, P, NS, q

# Genuine defects of the unchanged code found by this check (reported to the integrator, who moves
# them to known_findings.json or repairs the code).  Keys are per defect site, not per input.
PENDING_FINDINGS = []

GOBJECT_GIR = '''<?xml version="1.0"?>
<repository version="1.2" xmlns="http://www.gtk.org/introspection/core/1.0" xmlns:c="http://www.gtk.org/introspection/c/1.0" xmlns:glib="http://www.gtk.org/introspection/glib/1.0">
  <namespace name="GObject" version="2.0" shared-library="libgobject-2.0.so.0" c:identifier-prefixes="G" c:symbol-prefixes="g_object,g">
    <class name="Object" c:symbol-prefix="object" c:type="GObject" glib:type-name="GObject" glib:get-type="g_object_get_type" glib:type-struct="ObjectClass">
    </class>
    <record name="ObjectClass" c:type="GObjectClass" glib:is-gtype-struct-for="Object"/>
    <record name="TypeInterface" c:type="GTypeInterface"/>
    <alias name="Type" c:type="GType"><type name="gsize" c:type="gsize"/></alias>
  </namespace>
</repository>
'''

IDENT_ATTRS = ['introspectable', 'version', 'deprecated', 'deprecated-version', 'stability', 'shadows', 'shadowed-by',
               'glib:set-property', 'glib:get-property', 'glib:finish-func', 'glib:sync-func', 'glib:async-func',
               'setter', 'getter', 'default-value', 'emitter', 'glib:ref-func', 'glib:unref-func',
               'glib:set-value-func', 'glib:get-value-func', 'copy-function', 'free-function', 'foreign', 'value',
               'invoker']
DOC_TAGS = ['doc', 'doc-version', 'doc-deprecated', 'doc-stability']
FUNC_TAGS = ('function', 'method', 'constructor', 'function-inline', 'method-inline')
TYPE_TAGS = ('class', 'interface', 'record', 'union', 'enumeration', 'bitfield', 'alias', 'callback', 'constant')
WORDS = ['size', 'name', 'bar', 'baz', 'frob', 'run', 'count', 'kind', 'item', 'mode', 'poke', 'changed', 'open',
         'close', 'reset', 'peek', 'twist', 'flags', 'data', 'next']
TYPEWORDS = ['Bar', 'Baz', 'BarBaz', 'Qux', 'Item', 'Node', 'BarSize', 'Bars', 'BAR', 'Widget', 'Box']
STAB = ['Stable', 'Unstable', 'Private']
# short identifiers (generated in a stream of their own on every run): a C identifier, a property name and a
# signal name may be a single character
SHORT_WORDS = ['x', 'y', 'z', 'r', 'g', 'b', 'a', 'w', 'h', 'n', 'i', 'k', 't', 'u', 'v', 'q', 'id', 'ab', 'x2', 'e']
SHORT_TYPEWORDS = ['X', 'Y', 'T', 'N', 'Pt', 'Bar', 'Baz', 'Qux', 'Item', 'Node', 'Box']


def uscore(camel):
    """FooBar -> foo_bar the way the scanner's to_underscores does for the names used here"""
    s = re.sub(r'([A-Z]+)([A-Z][a-z])', r'\1_\2', camel)
    s = re.sub(r'([a-z0-9])([A-Z])', r'\1_\2', s)
    return s.lower()


# ======================================================================== spec -> scanner input
def render_block(b):
    """abstract block -> GTK-Doc comment text"""
    parts = []
    for name, opts in b.get('anns', []):
        parts.append('(%s%s)' % (name, ''.join(' ' + o for o in opts)))
    if b.get('attributes') is not None:
        parts.append('(attributes%s)' % ''.join(' %s=%s' % (k, v) if v is not None else ' ' + k
                                                for k, v in b['attributes']))
    lines = ['/**', ' * %s:%s' % (b['key'], (' ' + ' '.join(parts)) if parts else '')]
    for p in b.get('params', []):
        lines.append(' * @%s: the %s' % (p, p))
    if b.get('description'):
        lines.append(' *')
        for l in b['description'].split('\n'):
            lines.append(' * ' + l)
    tags = []
    for tag, label in (('since', 'Since'), ('deprecated', 'Deprecated'), ('stability', 'Stability')):
        t = b.get(tag)
        if t is not None:
            v, d = t
            if d:
                tags.append(' * %s: %s: %s' % (label, v or '', d) if tag != 'stability'
                            else ' * %s: %s %s' % (label, v or '', d))
            else:
                tags.append(' * %s: %s' % (label, v or ''))
    if tags:
        lines.append(' *')
        lines.extend(tags)
    lines.append(' */')
    return '\n'.join(lines)


def fn_decl(symbol, params, ret='int'):
    return {'d': 'function', 'name': symbol, 'ret': ret if isinstance(ret, dict) else T(ret),
            'params': [{'name': n, 'type': t} for n, t in params]}


def int_params(n, start=0):
    return [('p%d' % i, T('int')) for i in range(start, start + n)]


def spec_to_cfg(spec, gobject_gir, skip_block=None):
    """abstract namespace -> scanpipe configuration"""
    ns = spec['ns']
    decls = []
    dump = []
    for t in spec['types']:
        k = t['k']
        cname = ns + t['name']
        us = uscore(ns) + '_' + uscore(t['name'])
        if k in ('class', 'interface'):
            if k == 'class':
                if t.get('has_struct', True):
                    decls.append({'d': 'typedef', 'name': cname, 'type': {'k': 'struct', 'n': '_' + cname}})
                    decls.append({'d': 'struct', 'name': '_' + cname,
                                  'fields': [{'name': 'parent_instance', 'type': T('GObject')}]
                                  + [{'name': f, 'type': T('int')} for f in t.get('fields', [])]})
                sname = cname + 'Class'
                first = {'name': 'parent_class', 'type': T('GObjectClass')}
            else:
                decls.append({'d': 'typedef', 'name': cname, 'type': {'k': 'struct', 'n': '_' + cname}})
                sname = cname + 'Interface'
                first = {'name': 'g_iface', 'type': T('GTypeInterface')}
            if t.get('has_class_struct', True):
                decls.append({'d': 'typedef', 'name': sname, 'type': {'k': 'struct', 'n': '_' + sname}})
                vf = []
                for v in t.get('vslots', []):
                    vf.append({'name': v['name'],
                               'type': P({'k': 'func', 'ret': T(v.get('ret', 'int')),
                                          'params': [{'name': 'self', 'type': P(T(cname))}]
                                          + [{'name': n, 'type': ty} for n, ty in int_params(v.get('nparams', 0))]})})
                decls.append({'d': 'struct', 'name': '_' + sname, 'fields': [first] + vf})
            decls.append(fn_decl(us + '_get_type', [], 'GType'))
            body = []
            for p in t.get('props', []):
                dflt = '' if p.get('default') is None else ' default-value="%s"' % p['default']
                body.append('<property name="%s" type="%s" flags="%d"%s/>' % (p['name'], p.get('type', 'gint'),
                                                                              p.get('flags', 3), dflt))
            for s in t.get('sigs', []):
                body.append('<signal name="%s" return="%s">%s</signal>'
                            % (s['name'], s.get('ret', 'void'), '<param type="gint"/>' * s.get('nparams', 0)))
            if k == 'class':
                dump.append('<class name="%s" get-type="%s_get_type" parents="GObject">%s</class>'
                            % (cname, us, ''.join(body)))
            else:
                dump.append('<interface name="%s" get-type="%s_get_type">%s</interface>' % (cname, us, ''.join(body)))
        elif k in ('record', 'union'):
            kw = 'struct' if k == 'record' else 'union'
            decls.append({'d': 'typedef', 'name': cname, 'type': {'k': kw, 'n': '_' + cname}})
            decls.append({'d': kw, 'name': '_' + cname,
                          'fields': [{'name': f, 'type': T('int')} for f in t.get('fields', ['dummy'])]})
            if t.get('boxed'):
                # a GType-registered record / union (boxed in the runtime dump): it can have constructors
                decls.append(fn_decl(us + '_get_type', [], 'GType'))
                dump.append('<boxed name="%s" get-type="%s_get_type"/>' % (cname, us))
        elif k in ('enum', 'bitfield'):
            decls.append({'d': 'typedef', 'name': cname,
                          'type': {'k': 'enum', 'n': None, 'bitfield': k == 'bitfield',
                                   'members': [{'name': m, 'value': (1 << i) if k == 'bitfield' else i}
                                               for i, m in enumerate(t['members'])]}})
        elif k == 'alias':
            decls.append({'d': 'typedef', 'name': cname, 'type': T('int')})
        elif k == 'callback':
            decls.append({'d': 'typedef', 'name': cname,
                          'type': P({'k': 'func', 'ret': T('int'),
                                     'params': [{'name': n, 'type': ty} for n, ty in int_params(t.get('nparams', 1))]})})
        elif k == 'constant':
            decls.append({'d': 'const', 'name': t['cname'], 'int': t.get('int', 1)})
        for f in t.get('funcs', []):
            # role: method (instance first), ctor (returns instance), static (no instance)
            params = int_params(f.get('nparams', 0))
            ret = T(f.get('ret', 'int'))
            if f['role'] == 'method':
                params = [('self', P(T(cname)))] + params
            if f['role'] == 'ctor':
                ret = P(T(cname))
            # shapes around 'the signature permits a constructor': a constructor whose FIRST PARAMETER is an
            # instance of the constructed type ('derive from a template'), or a pointer to another type of the
            # namespace; a method that also returns an instance
            if f.get('first') == 'self':
                params = [('tmpl', P(T(cname)))] + params
            elif f.get('first'):
                params = [('other', P(T(ns + f['first'])))] + params
            if f.get('ret_self'):
                ret = P(T(cname))
            decls.append(fn_decl(f['symbol'], params, ret))
    for f in spec.get('funcs', []):
        decls.append(fn_decl(f['symbol'], int_params(f.get('nparams', 1)), f.get('ret', 'int')))
    for i, d in enumerate(decls):
        d['line'] = 10 + i
    comments = []
    for i, b in enumerate(spec['blocks']):
        if skip_block is not None and i == skip_block:
            continue
        comments.append((render_block(b), '/src/%s.c' % ns.lower(), 100 + 40 * i))
    cfg = dict(namespace=ns, decls=decls, comments=comments, includes=[gobject_gir],
               dump=('<?xml version="1.0"?><dump>%s</dump>' % ''.join(dump)) if dump else None)
    return cfg


# ======================================================================== real pipeline
def type_ckey(el):
    return el.get(q('c:type')) or el.get(q('glib:type-name')) or el.get('name')


def short(tag):
    if tag.startswith('{'):
        uri, local = tag[1:].split('}')
        for p, u in NS.items():
            if u == uri:
                return local if p == 'core' else p + ':' + local
        return local
    return tag


def own_record(el):
    attrs = {}
    for k, v in el.attrib.items():
        s = short(k)
        if s in IDENT_ATTRS and not (s == 'value' and short(el.tag) != 'constant'):
            attrs[s] = v
    attributes = [[a.get('name'), a.get('value')] for a in el.findall(q('attribute'))]
    docs = {}
    for d in DOC_TAGS:
        c = el.find(q(d))
        if c is not None:
            docs[d] = c.text or ''
    return {'attrs': attrs, 'attributes': attributes, 'docs': docs}


ADDRESSED = ('function', 'method', 'constructor', 'function-inline', 'method-inline', 'virtual-method', 'field',
             'property', 'glib:signal', 'member', 'class', 'interface', 'record', 'union', 'enumeration', 'bitfield',
             'alias', 'callback', 'constant', 'docsection')


def own_serial(el, top=True, in_field=False):
    """canonical text of an element without its separately addressed children (a callback inside
    a field belongs to the field) and without <parameters>/<return-value>: parameter and return
    annotations are C01's, and a virtual method shares its parameter objects with the callback of
    its class-struct field"""
    tag = short(el.tag)
    parts = ['<' + tag]
    for k in sorted(el.attrib):
        if in_field and tag == 'callback' and short(k) in ('introspectable', 'throws'):
            continue     # derived from the (shared) parameters
        parts.append(' %s=%r' % (short(k), el.attrib[k]))
    parts.append('>')
    if el.text and el.text.strip():
        parts.append(el.text)
    for c in el:
        ct = short(c.tag)
        if ct in ADDRESSED and not (tag == 'field' and ct == 'callback') and ct != 'source-position':
            continue
        if ct in ('source-position', 'parameters', 'return-value'):
            continue
        parts.append(own_serial(c, False, in_field or tag == 'field'))
    parts.append('</%s>' % tag)
    return ''.join(parts)


def own_refs(el, top=True):
    """names of the types an element mentions in its own subtree: the boundary is that of own_serial
    (separately addressed children are left out) but <parameters>/<return-value> are included"""
    tag = short(el.tag)
    out = set()
    for c in el:
        ct = short(c.tag)
        if ct in ('type', 'array') and c.get('name'):
            out.add(c.get('name'))
        if ct in ADDRESSED and not (tag == 'field' and ct == 'callback'):
            continue
        out |= own_refs(c, False)
    return out


def extract(gir_text):
    """GIR -> {address: {'tag', 'path', 'rec', 'serial', 'name', 'refs'}}"""
    root = ET.fromstring(gir_text.encode('utf-8'))
    nsel = root.find(q('namespace'))
    out = {}

    def add(addr, el, path, **extra):
        n = 2
        a = addr
        while a in out:
            a = '%s#%d' % (addr, n)
            n += 1
        d = {'tag': short(el.tag), 'path': list(path), 'rec': own_record(el), 'serial': own_serial(el),
             'name': el.get('name'), 'refs': sorted(own_refs(el))}
        d.update(extra)
        out[a] = d
        return a

    def walk(el, path, owner_ckey):
        for c in el:
            t = short(c.tag)
            if t in FUNC_TAGS:
                add('fn:' + (c.get(q('c:identifier')) or '?'), c, path, container=owner_ckey)
            elif t == 'virtual-method':
                add('vfunc:%s::%s' % (owner_ckey, c.get('name')), c, path)
            elif t == 'field':
                add('field:%s.%s' % (owner_ckey, c.get('name')), c, path)
            elif t == 'property':
                add('prop:%s:%s' % (owner_ckey, c.get('name')), c, path)
            elif t == 'glib:signal':
                add('sig:%s::%s' % (owner_ckey, c.get('name')), c, path)
            elif t == 'member':
                add('member:' + (c.get(q('c:identifier')) or '?'), c, path)
            elif t in TYPE_TAGS:
                ck = type_ckey(c)
                a = add('type:' + ck, c, path)
                walk(c, path + [a], ck)
            elif t == 'docsection':
                add('docsection:' + c.get('name'), c, path)
    walk(nsel, [], None)
    return out


def type_key(t):
    return 'F:%s|G:%s|X:%s|C:%s' % (t.target_fundamental, t.target_giname, t.target_foreign,
                                    None if (t.target_fundamental or t.target_giname or t.target_foreign) else t.ctype)


def dump_defaults(cfg):
    """{(GType name, property name): default} as the runtime dump handed to the scanner reports them"""
    out = {}
    if cfg.get('dump'):
        for ty in ET.fromstring(cfg['dump'].encode('utf-8')):
            for pr in ty.findall('property'):
                if pr.get('default-value') is not None:
                    out[(ty.get('name'), pr.get('name'))] = pr.get('default-value')
    return out


def model_nodes(namespace, defaults=None):
    """the live namespace after the run -> the model's node list (order, containers and names are the
    pairing facts the model takes as input; nothing annotation-derived is read: a property's default is
    taken from the dump, not from the live object)"""
    ast = scanpipe.mods().ast
    defaults = defaults or {}

    def meth(f):
        return {'symbol': f.symbol, 'name': f.name, 'ret': type_key(f.retval.type), 'nparams': len(f.parameters)}

    def funcs_of(lst):
        return [meth(f) for f in lst if isinstance(f, ast.Function)]
    nodes = []
    clones = 0
    for name, node in namespace.names.items():
        d = None
        if isinstance(node, ast.Function):
            if node.moved_to is not None:
                clones += 1
            d = {'kind': 'function', 'symbol': node.symbol, 'name': node.name}
        elif isinstance(node, (ast.Class, ast.Interface, ast.Record, ast.Union)):
            kind = {ast.Class: 'klass', ast.Interface: 'interface', ast.Record: 'record', ast.Union: 'union'}[type(node)]
            d = {'kind': kind, 'ctype': node.ctype, 'gtype': node.gtype_name, 'cname': node.c_name,
                 'fields': [f.name for f in node.fields],
                 'cb_fields': [f.name for f in node.fields if isinstance(f.anonymous_node, ast.Callback)],
                 'methods': funcs_of(node.methods), 'ctors': funcs_of(node.constructors),
                 'statics': funcs_of(node.static_methods)}
            if kind in ('klass', 'interface'):
                d['props'] = [{'name': p.name, 'readable': bool(p.readable), 'writable': bool(p.writable),
                               'construct_only': bool(p.construct_only),
                               'is_bool': bool(p.type.is_equiv(ast.TYPE_BOOLEAN)),
                               'default': defaults.get((node.gtype_name, p.name))} for p in node.properties]
                d['sigs'] = [s.name for s in node.signals]
                d['vslots'] = [{'name': v.name, 'ret': type_key(v.retval.type), 'nparams': len(v.parameters)}
                               for v in node.virtual_methods]
                if node.glib_type_struct is not None:
                    sname = node.glib_type_struct.target_giname.split('.', 1)[1]
                    srec = namespace.names.get(sname)
                    if srec is not None:
                        d['struct_ann'] = srec.ctype if srec.ctype is not None else srec.c_name
        elif isinstance(node, (ast.Enum, ast.Bitfield)):
            d = {'kind': 'enum' if isinstance(node, ast.Enum) else 'bitfield', 'ctype': node.ctype,
                 'gtype': node.gtype_name, 'cname': node.c_name, 'members': [m.symbol for m in node.members],
                 'statics': funcs_of(node.static_methods)}
        elif isinstance(node, ast.Alias):
            d = {'kind': 'alias', 'ctype': node.ctype, 'cname': node.c_name}
        elif isinstance(node, ast.Callback):
            d = {'kind': 'callback', 'ctype': node.ctype, 'cname': node.c_name}
        elif isinstance(node, ast.Constant):
            d = {'kind': 'constant', 'ctype': node.ctype, 'cname': node.c_name}
        if d is not None:
            d['giname'] = name
            nodes.append(d)
    return nodes, clones


def block_to_json(key, b):
    """a real GtkDocCommentBlock -> the model's block record (public attributes only)"""
    anns = []
    attributes = None
    for name, opts in b.annotations.items():
        if name == 'attributes' and hasattr(opts, 'items'):
            attributes = [[k, v] for k, v in opts.items()]
        elif isinstance(opts, (list, tuple)):
            anns.append([name, [str(o) for o in opts]])
        elif opts is None:
            anns.append([name, []])
        else:
            anns.append([name, [str(k) for k in opts]])

    def tag(name):
        t = b.tags.get(name)
        if t is None:
            return None
        return [t.value, t.description]
    return {'key': key, 'description': b.description, 'anns': anns, 'attributes': attributes,
            'since': tag('since'), 'deprecated': tag('deprecated'), 'stability': tag('stability')}


class CrashInfo(object):
    def __init__(self, exc):
        import traceback
        self.type = type(exc).__name__
        self.text = str(exc)
        tb = traceback.extract_tb(exc.__traceback__)
        self.where = ['%s:%s' % (os.path.basename(f.filename), f.name) for f in tb][-3:]


def run_real(cfg):
    """-> dict(gir, elems, warnings, namespace) or dict(crash=CrashInfo)"""
    try:
        r = scanpipe.scan(cfg)
    except SystemExit as e:
        return {'crash': CrashInfo(e), 'exit': True}
    except Exception as e:  # noqa  -- whatever escapes the real pipeline is data for the oracle
        return {'crash': CrashInfo(e)}
    return {'gir': r['gir'], 'elems': extract(r['gir']), 'warnings': [w['text'] for w in r['warnings']],
            'namespace': r['namespace']}


def parse_blocks(cfg):
    ap = scanpipe.mods().annotationparser
    scanpipe.install_logger()
    blocks = ap.GtkDocCommentBlockParser().parse_comment_blocks([tuple(c) for c in cfg['comments']])
    return [block_to_json(k, b) for k, b in blocks.items()]


# ======================================================================== model vs real
def node_addr(n):
    if n['kind'] == 'function':
        return 'fn:' + n['symbol']
    return 'type:' + (n.get('ctype') or n.get('gtype') or n['giname'])


def model_records(nodes, mres):
    """model output -> {address: record}"""
    out = {}
    for n, r in zip(nodes, mres['nodes']):
        if n['kind'] == 'function':
            continue
        ck = n.get('ctype') or n.get('gtype') or n['giname']
        out['type:' + ck] = r['self']
        for m, rec in zip(n.get('members', []), r['members']):
            out['member:' + m] = rec
        for f, rec in zip(n.get('fields', []), r['fields']):
            out['field:%s.%s' % (ck, f)] = rec
        for p, rec in zip(n.get('props', []), r['props']):
            out['prop:%s:%s' % (ck, p['name'])] = rec
        for s, rec in zip(n.get('sigs', []), r['sigs']):
            out['sig:%s::%s' % (ck, s)] = rec
        for name, rec in r['vfuncs']:
            out['vfunc:%s::%s' % (ck, name)] = rec
    for f in mres['funcs']:
        out['fn:' + f['symbol']] = f['rec']
    return out


def canon_model_rec(rec):
    return {'attrs': dict((k, v) for k, v in rec['attrs']), 'attributes': [list(p) for p in rec['attributes']],
            'docs': dict((k, v) for k, v in rec['docs'])}


def compare_model(real, mrecs, base_elems, cnt=None):
    """-> list of differences (address, what)"""
    diffs = []
    warnings = real.get('warnings', [])
    skipped_types = set()
    for addr, rec in mrecs.items():
        if addr.startswith('type:') and canon_model_rec(rec)['attrs'].get('introspectable') == '0':
            el = real['elems'].get(addr)
            if el is not None and el['name']:
                skipped_types.add(el['name'])
    for addr, rec in mrecs.items():
        el = real['elems'].get(addr)
        m = canon_model_rec(rec)
        if el is None:
            # elements the writer drops (private fields are still written; nothing here should vanish)
            diffs.append((addr, 'element missing from the GIR'))
            continue
        r = copy.deepcopy(el['rec'])
        # a callback held by a field is written by _write_callback inside the field; compare the field itself
        ri = r['attrs'].pop('introspectable', None)
        mi = m['attrs'].pop('introspectable', None)
        if mi == '0' and ri != '0':
            diffs.append((addr, 'model: introspectable=0 (skip), GIR: introspectable'))
        if ri == '0' and mi != '0':
            b = base_elems.get(addr) if base_elems else None
            # IntrospectablePass (C05) clears the flag of whatever mentions a skipped type -- in its own
            # type, its parameters, its return value, or (a field) the callback it holds
            derived = (b is not None and b['rec']['attrs'].get('introspectable') == '0') or \
                any(t in el.get('refs', ()) for t in skipped_types) or \
                any(p in real['elems'] and real['elems'][p]['rec']['attrs'].get('introspectable') == '0'
                    for p in el['path'])
            if not derived:
                diffs.append((addr, 'GIR: introspectable=0 without skip in the model'))
        # the emitter named by the annotation is validated against the signal by IntrospectablePass (not
        # modelled: outside this property's anchors); a refusal comes with a diagnostic naming the signal
        if addr.startswith('sig:') and 'emitter' in m['attrs'] and 'emitter' not in r['attrs'] and \
                any('Emitter method' in w and ('::%s ' % addr.split('::', 1)[-1]) in w for w in warnings):
            m['attrs'].pop('emitter')
            if cnt is not None:
                cnt.hit('correspondence:emitter-refused-outside-model')
        if addr.startswith('type:') and el['tag'] == 'constant' and 'value' not in m['attrs']:
            r['attrs'].pop('value', None)
        if r != m:
            diffs.append((addr, 'GIR %s / model %s' % (json.dumps(r, sort_keys=True), json.dumps(m, sort_keys=True))))
    return diffs


# ======================================================================== oracle from the statement
def find_type(spec, name):
    for t in spec['types']:
        if t['name'] == name:
            return t
    return None


def all_functions(spec):
    """(symbol, expected GI name, container type name or None, role)"""
    out = []
    pre = uscore(spec['ns']) + '_'
    for t in spec['types']:
        us = pre + uscore(t['name']) + '_'
        for f in t.get('funcs', []):
            nm = f['symbol'][len(us):] if f['symbol'].startswith(us) else f['symbol'][len(pre):]
            out.append((f['symbol'], nm, t['name'], f['role']))
    for f in spec.get('funcs', []):
        out.append((f['symbol'], f['symbol'][len(pre):], None, 'function'))
    return out


def target_addr(spec, b):
    """address of the element the block documents according to the statement (or None)"""
    t = b.get('target')
    if t is None:
        return None
    ns = spec['ns']
    kind = t[0]
    if kind == 'fn':
        return 'fn:' + t[1]
    if kind == 'type':
        ty = find_type(spec, t[1])
        if ty is not None and ty['k'] == 'constant':
            return 'type:' + ty['cname']
        return 'type:' + ns + t[1]
    if kind == 'member':
        return 'member:' + t[1]
    if kind == 'field':
        return 'field:%s.%s' % (ns + t[1], t[2])
    if kind == 'prop':
        return 'prop:%s:%s' % (ns + t[1], t[2])
    if kind == 'sig':
        return 'sig:%s::%s' % (ns + t[1], t[2])
    if kind == 'vfunc':
        return 'vfunc:%s::%s' % (ns + t[1], t[2])
    if kind == 'section':
        return 'type:' + ns + t[1] if t[1] else None
    return None


def blocks_for(spec, addr):
    return [b for b in spec['blocks'] if target_addr(spec, b) == addr]


def vfunc_invokers(spec, elems=None):
    """{vfunc address: [(method symbol, how)]} by the statement: a method of the same name and
    signature, or a method annotated (virtual slot).  The GI name of a method is C04's business:
    when the GIR is at hand it is read from there."""
    out = {}
    ns = spec['ns']
    pre = uscore(ns) + '_'
    for t in spec['types']:
        if t['k'] not in ('class', 'interface') or not t.get('has_class_struct', True):
            continue
        us = pre + uscore(t['name']) + '_'
        for v in t.get('vslots', []):
            va = 'vfunc:%s::%s' % (ns + t['name'], v['name'])
            for f in t.get('funcs', []):
                if f['role'] != 'method':
                    continue
                nm = f['symbol'][len(us):]
                if elems is not None and ('fn:' + f['symbol']) in elems:
                    nm = elems['fn:' + f['symbol']]['name']
                    if elems['fn:' + f['symbol']]['tag'] != 'method':
                        continue
                if nm == v['name'] and f.get('nparams', 0) == v.get('nparams', 0) and f.get('ret', 'int') == v.get('ret', 'int'):
                    out.setdefault(va, []).append((f['symbol'], 'name'))
            for f in t.get('funcs', []):
                for b in spec['blocks']:
                    if b['key'] == f['symbol'] and any(a == 'virtual' and o[:1] == [v['name']] for a, o in b.get('anns', [])):
                        # only a method can be an invoker: (virtual) on a constructor or static function is
                        # warned about and ignored (unless the block also says (method))
                        is_m = f['role'] == 'method'
                        if elems is not None and ('fn:' + f['symbol']) in elems:
                            is_m = elems['fn:' + f['symbol']]['tag'] == 'method'
                        if is_m or ann_opts(b, 'method') is not None:
                            out.setdefault(va, []).append((f['symbol'], 'virtual'))
    return out


def ann_opts(b, name):
    for a, o in b.get('anns', []):
        if a == name:
            return o
    return None


KIND_OF_TAG = {'class': 'class', 'interface': 'interface', 'record': 'record', 'union': 'union',
               'enumeration': 'enum', 'bitfield': 'enum', 'alias': 'alias', 'callback': 'callback',
               'constant': 'constant', 'function': 'function', 'method': 'function', 'constructor': 'function',
               'virtual-method': 'vfunc', 'field': 'field', 'property': 'property', 'glib:signal': 'signal',
               'member': 'member'}


def expected_presence(b, kind, is_callback_field):
    """[(what, attr-or-child, value, pending)] the statement promises on the element of kind `kind` that
    the block documents; `pending` would name a known defect site (none at present)"""
    exp = []
    if ann_opts(b, 'skip') is not None:
        exp.append(('attr', 'introspectable', '0', None))
    s = b.get('since')
    if s:
        if s[0]:
            exp.append(('attr', 'version', s[0], None))    # every kind, aliases and callback fields included
        if s[1]:
            exp.append(('doc', 'doc-version', s[1], None))
    d = b.get('deprecated')
    if d:
        if d[0]:
            exp.append(('attr', 'deprecated', '1', None))
            exp.append(('attr', 'deprecated-version', d[0], None))
        if d[1]:
            exp.append(('attr', 'deprecated', '1', None))
            exp.append(('doc', 'doc-deprecated', d[1], None))
    st = b.get('stability')
    if st:
        if st[0]:
            exp.append(('attr', 'stability', st[0], None))
    if b.get('description'):
        exp.append(('doc', 'doc', b['description'], None))
    for k, v in (b.get('attributes') or []):
        if v:
            exp.append(('attribute', k, v, None))
    simple = {
        'function': [('set-property', 'glib:set-property'), ('get-property', 'glib:get-property'),
                     ('finish-func', 'glib:finish-func'), ('sync-func', 'glib:sync-func'),
                     ('async-func', 'glib:async-func')],
        'callback': [('finish-func', 'glib:finish-func'), ('sync-func', 'glib:sync-func'),
                     ('async-func', 'glib:async-func')],
        'vfunc': [('finish-func', 'glib:finish-func'), ('sync-func', 'glib:sync-func'),
                  ('async-func', 'glib:async-func')],
        'property': [('setter', 'setter'), ('getter', 'getter'), ('default-value', 'default-value')],
        'signal': [('emitter', 'emitter')],
        'constant': [('value', 'value')],
        'class': [('ref-func', 'glib:ref-func'), ('unref-func', 'glib:unref-func'),
                  ('set-value-func', 'glib:set-value-func'), ('get-value-func', 'glib:get-value-func')],
        'record': [('copy-func', 'copy-function'), ('free-func', 'free-function')],
        'union': [('copy-func', 'copy-function'), ('free-func', 'free-function')],
    }
    for ann, attr in simple.get(kind, []):
        o = ann_opts(b, ann)
        if o:
            exp.append(('attr', attr, o[0], None))
    if kind == 'record' and ann_opts(b, 'foreign') is not None:
        exp.append(('attr', 'foreign', '1', None))
    return exp


def emitter_status(spec, b, mname, elems):
    """'compatible': the method `mname` of the signal's class has the signal's return type and parameter
    types; 'incompatible': it has others; 'no-method': the class has no method of that name.
    (all generated parameters are ints; signals return void unless said otherwise)"""
    t = b.get('target')
    if not t or t[0] != 'sig':
        return 'no-method'
    ty = find_type(spec, t[1])
    sig = next((x for x in (ty or {}).get('sigs', []) if x['name'] == t[2]), None)
    if ty is None or sig is None:
        return 'no-method'
    for f in ty.get('funcs', []):
        e = elems.get('fn:' + f['symbol'])
        if e is None or e['tag'] != 'method' or e['name'] != mname or e.get('container') != spec['ns'] + ty['name']:
            continue
        # the first method of that name is the one the scanner looks at
        same = f.get('ret', 'int') == sig.get('ret', 'void') and f.get('nparams', 0) == sig.get('nparams', 0)
        return 'compatible' if same else 'incompatible'
    return 'no-method'


def wellformed(b):
    """every annotation carries the number of options it needs (the property speaks about annotation
    assignments, not about syntax errors the comment parser already warned about)"""
    one = {'rename-to', 'value', 'set-property', 'get-property', 'finish-func', 'sync-func', 'async-func', 'setter',
           'getter', 'default-value', 'emitter', 'virtual', 'ref-func', 'unref-func', 'set-value-func',
           'get-value-func', 'copy-func', 'free-func'}
    zero = {'skip', 'foreign', 'constructor', 'method'}
    names = [a for a, _o in b.get('anns', [])]
    if len(set(names)) != len(names):
        return False
    for a, o in b.get('anns', []):
        if a in one and len(o) != 1:
            return False
        if a in zero and len(o) != 0:
            return False
    return True


def judge_presence(ctx, cnt, spec, real, case_id):
    elems = real['elems']
    warnings = real['warnings']
    inv = vfunc_invokers(spec, elems)
    for b in spec['blocks']:
        addr = target_addr(spec, b)
        if addr is None:
            cnt.hit('presence:no-target')
            continue
        if not wellformed(b):
            cnt.hit('presence:outside-malformed')
            continue
        el = elems.get(addr)
        if el is None:
            # the element does not exist in this namespace (e.g. a block for a misspelt property)
            cnt.hit('presence:target-not-in-gir')
            continue
        kind = KIND_OF_TAG.get(el['tag'], el['tag'])
        if b['key'].startswith('SECTION:'):
            kind = 'section'      # a SECTION block only carries the generic metadata
        # (a virtual method documented by this block does not share it with its invoker's block: only a
        # virtual method WITHOUT a block of its own inherits from the invoker)
        sharing = [o for o in blocks_for(spec, addr) if o is not b]
        is_cbf = el['tag'] == 'field' and '<callback' in el['serial']
        for what, name, value, pend in expected_presence(b, kind, is_cbf):
            # another block documenting the same element may legitimately win for the same item
            contested = False
            for o in sharing:
                for w2, n2, _v2, _p2 in expected_presence(o, kind, is_cbf):
                    if (w2, n2) == (what, name):
                        contested = True
            if contested:
                cnt.hit('presence:contested')
                continue
            rec = el['rec']
            if what == 'attr':
                got = rec['attrs'].get(name)
            elif what == 'doc':
                got = rec['docs'].get(name)
                if got is not None:
                    got = got.strip()
                    value = value.strip()
            else:
                got = dict((k, v) for k, v in rec['attributes']).get(name)
            # an accessor / emitter annotation that the scanner refuses with a diagnostic naming this very
            # function / signal is outside the statement -- unless the refusal itself is unfounded: an emitter
            # whose return type and parameters are those of the signal
            if name in ('glib:set-property', 'glib:get-property') and got != value and \
                    any('mismatched' in w and ("'%s'" % b['key']) in w for w in warnings):
                cnt.hit('presence:outside-rejected-with-warning')
                continue
            if name == 'emitter':
                # the scanner validates the named method against the signal: with the signal's return type and
                # parameter types the attribute must be written; with other ones it must be refused with a
                # diagnostic naming the signal; a name that is no method of the class is kept verbatim
                status = emitter_status(spec, b, value, elems)
                warned = any('Emitter method' in w and ('::%s ' % b['key'].split('::', 1)[-1]) in w for w in warnings)
                # a signal that is not introspectable (skipped itself, inside a skipped class, ...) is not validated
                dead = el['rec']['attrs'].get('introspectable') == '0' or any(
                    p in elems and elems[p]['rec']['attrs'].get('introspectable') == '0' for p in el['path'])
                cnt.hit('presence:emitter-' + status + ('-unvalidated' if dead else ''))
                if status == 'incompatible' and dead:
                    if got not in (None, value):
                        ctx.report_failure('emitter-incompatible:%s:%s' % (case_id, b['key']),
                                           'block %r: (emitter %s): GIR has emitter=%r (%s)' % (b['key'], value, got, addr),
                                           {'kind': 'case', 'spec': spec})
                    continue
                if status == 'incompatible':
                    if got is not None or not warned:
                        ctx.report_failure('emitter-incompatible:%s:%s' % (case_id, b['key']),
                                           'block %r: (emitter %s) names a method whose return type or parameters '
                                           'differ from the signal: expected a warning and no emitter attribute; GIR '
                                           'has emitter=%r, warned=%r (%s)' % (b['key'], value, got, warned, addr),
                                           {'kind': 'case', 'spec': spec})
                    continue
            cnt.hit('presence:checked')
            cnt.hit('presence:' + name)
            if got != value:
                key = pend or ('presence:%s:%s' % (case_id, json.dumps([b['key'], name])))
                ctx.report_failure(key, 'block %r should give <%s> %s=%r but the GIR has %r (%s)'
                                   % (b['key'], el['tag'], name, value, got, addr),
                                   {'kind': 'case', 'spec': spec, 'block': b['key'], 'item': name})
    # how often the accessor pairing heuristic was at work (coverage only: the statement speaks about the
    # annotations; the heuristic is compared against the model)
    for w in warnings:
        if 'Multiple getter candidates' in w:
            cnt.hit('accessor:several-getter-candidates')
    for a, e in elems.items():
        if a.startswith('fn:'):
            own = [o for o in spec['blocks'] if o['key'] == a[3:]]
            for ann, attr in (('get-property', 'glib:get-property'), ('set-property', 'glib:set-property')):
                if attr in e['rec']['attrs'] and not any(ann_opts(o, ann) for o in own):
                    cnt.hit('accessor:inferred-' + ann)
    # virtual methods inherit from their invoker when they have no block of their own
    for va, invs in inv.items():
        el = elems.get(va)
        if el is None or blocks_for(spec, va):
            continue
        if len(invs) != 1:
            cnt.hit('vfunc:outside-several-invokers')
            continue
        sym = invs[0][0]
        ibs = [o for o in spec['blocks'] if o['key'] == sym and wellformed(o)]
        fe = elems.get('fn:' + sym)
        if fe is None or len(ibs) != 1:
            continue
        cnt.hit('vfunc:inherits-checked')
        if el['rec']['attrs'].get('invoker') != fe['name']:
            ctx.report_failure('vfunc-invoker:%s:%s' % (case_id, va),
                               'virtual method %s should name its invoker %r, GIR has %r'
                               % (va, fe['name'], el['rec']['attrs'].get('invoker')),
                               {'kind': 'case', 'spec': spec})
        for what, name, value, _p in expected_presence(ibs[0], 'vfunc', False):
            if name in ('glib:set-property', 'glib:get-property'):
                continue
            rec = el['rec']
            got = rec['attrs'].get(name) if what == 'attr' else \
                (rec['docs'].get(name) if what == 'doc' else dict((k, v) for k, v in rec['attributes']).get(name))
            if what == 'doc' and got is not None:
                got, value = got.strip(), value.strip()
            if got != value:
                ctx.report_failure('vfunc-inherit:%s:%s' % (case_id, json.dumps([va, name])),
                                   'virtual method %s has no block of its own and should inherit %s=%r from its '
                                   'invoker %s; GIR has %r' % (va, name, value, sym, got),
                                   {'kind': 'case', 'spec': spec})


def judge_rename(ctx, cnt, spec, real, case_id):
    """rename-to produces a mutually consistent shadows/shadowed-by pair.  A static function that the
    scanner moves into a type is written twice (the moved-to original and its copy, under different
    names): the pair is looked for among all copies of a symbol."""
    elems = real['elems']
    intents = {}
    for b in spec['blocks']:
        o = ann_opts(b, 'rename-to')
        if o and len(o) == 1 and ('fn:' + b['key']) in elems:
            intents[b['key']] = o[0]
    fns = {}
    for a, e in elems.items():
        if a.startswith('fn:'):
            fns.setdefault(a[3:].split('#')[0], []).append(e)
    if any(len(l) > 1 for l in fns.values()):
        cnt.hit('rename:namespace-with-function-copies')
    targets = list(intents.values())

    def sh(e):
        return e['rec']['attrs'].get('shadows')

    def sb(e):
        return e['rec']['attrs'].get('shadowed-by')
    for sym, copies in fns.items():
        for e in copies:
            if sh(e) is not None:
                cnt.hit('rename:shadows-seen')
                t = intents.get(sym)
                ok = t is not None and any(te['name'] == sh(e) and sb(te) == e['name'] for te in fns.get(t, []))
                if not ok:
                    ctx.report_failure('rename-pair:%s:%s' % (case_id, sym),
                                       '%s is written shadows=%r but %r is not written shadowed-by=%r'
                                       % (sym, sh(e), t, e['name']), {'kind': 'case', 'spec': spec})
            if sb(e) is not None:
                cnt.hit('rename:shadowed-by-seen')
                srcs = [s for s, t in intents.items() if t == sym
                        and any(c['name'] == sb(e) and sh(c) == e['name'] for c in fns.get(s, []))]
                if len(srcs) != 1:
                    key = 'rename-pair:%s:%s' % (case_id, sym)
                    ctx.report_failure(key, '%s is written shadowed-by=%r but no function named %r that was asked to '
                                       'rename to it is written shadows=%r' % (sym, sb(e), sb(e), e['name']),
                                       {'kind': 'case', 'spec': spec})
    # presence for simple, uncontested requests
    for s, t in intents.items():
        blk = next(x for x in spec['blocks'] if x['key'] == s)
        simple = (t in fns and t != s and targets.count(t) == 1 and t not in intents and s not in targets
                  and wellformed(blk))
        if not simple:
            cnt.hit('rename:outside-contested-or-missing-target')
            continue
        cnt.hit('rename:simple-checked')
        if not any(sh(c) == te['name'] and sb(te) == c['name'] for c in fns[s] for te in fns[t]):
            ctx.report_failure('rename-presence:%s:%s' % (case_id, s),
                               "%s: (rename-to %s) should give shadows=%r / shadowed-by=%r; GIR has %r / %r"
                               % (s, t, [te['name'] for te in fns[t]], [c['name'] for c in fns[s]],
                                  [sh(c) for c in fns[s]], [sb(te) for te in fns[t]]),
                               {'kind': 'case', 'spec': spec})


def can_construct(spec, t):
    """the types a function can be a constructor of: a class, or a record / union that is GType-registered
    (boxed), or a record its own well-formed block marks (foreign)"""
    if t['k'] == 'class':
        return True
    if t['k'] in ('record', 'union') and t.get('boxed'):
        return True
    if t['k'] == 'record':
        bl = [b for b in spec['blocks'] if b['key'] == spec['ns'] + t['name']]
        return len(bl) == 1 and wellformed(bl[0]) and ann_opts(bl[0], 'foreign') is not None
    return False


def judge_roles(ctx, cnt, spec, real, case_id):
    """constructor / method select the role where the signature permits it; (virtual) names the invoker"""
    elems = real['elems']
    ns = spec['ns']
    for t in spec['types']:
        for f in t.get('funcs', []):
            for b in spec['blocks']:
                if b['key'] != f['symbol'] or not wellformed(b):
                    continue
                e = elems.get('fn:' + f['symbol'])
                if e is None:
                    continue
                if ann_opts(b, 'constructor') is not None and f['role'] == 'ctor' and can_construct(spec, t):
                    cnt.hit('role:constructor-checked')
                    cnt.hit('role:constructor-checked:%s:first=%s'
                            % (t['k'] if t['k'] == 'class' else ('boxed-' if t.get('boxed') else 'foreign-') + t['k'],
                               {None: 'none' if not f.get('nparams') else 'int', 'self': 'self'}.get(f.get('first'),
                                                                                                   'other')))
                    if e['tag'] != 'constructor' or e.get('container') != ns + t['name']:
                        ctx.report_failure('role-ctor:%s:%s' % (case_id, f['symbol']),
                                           '%s: (constructor) returning %s* should be a constructor of it; GIR has <%s> '
                                           'in %r' % (f['symbol'], ns + t['name'], e['tag'], e.get('container')),
                                           {'kind': 'case', 'spec': spec})
                if ann_opts(b, 'method') is not None and f['role'] == 'method':
                    cnt.hit('role:method-checked')
                    if e['tag'] != 'method' or e.get('container') != ns + t['name']:
                        ctx.report_failure('role-method:%s:%s' % (case_id, f['symbol']),
                                           '%s: (method) taking %s* first should be a method of it; GIR has <%s> in %r'
                                           % (f['symbol'], ns + t['name'], e['tag'], e.get('container')),
                                           {'kind': 'case', 'spec': spec})
                v = ann_opts(b, 'virtual')
                if v and t['k'] in ('class', 'interface') and any(s['name'] == v[0] for s in t.get('vslots', [])) \
                        and f['role'] == 'method':
                    va = 'vfunc:%s::%s' % (ns + t['name'], v[0])
                    others = [x for x in vfunc_invokers(spec, elems).get(va, []) if x[0] != f['symbol']]
                    if va in elems and not others:
                        cnt.hit('role:virtual-checked')
                        if elems[va]['rec']['attrs'].get('invoker') != e['name']:
                            ctx.report_failure('virtual-invoker:%s:%s' % (case_id, f['symbol']),
                                               '%s: (virtual %s) should make it the invoker; GIR has invoker=%r'
                                               % (f['symbol'], v[0], elems[va]['rec']['attrs'].get('invoker')),
                                               {'kind': 'case', 'spec': spec})


def strip_attrs(serial, names):
    for n in names:
        serial = re.sub(r" %s='[^']*'" % re.escape(n), '', serial)
        serial = re.sub(r' %s="[^"]*"' % re.escape(n), '', serial)
    return serial


def judge_absence(ctx, cnt, spec, real, idx, gobject_gir, case_id):
    """scan the same namespace without block `idx`: only what the statement ties to that block may differ"""
    b = spec['blocks'][idx]
    other = run_real(spec_to_cfg(spec, gobject_gir, skip_block=idx))
    if 'crash' in other:
        cnt.hit('absence:baseline-crash')
        return
    a_el, b_el = real['elems'], other['elems']
    target = target_addr(spec, b)
    inv = vfunc_invokers(spec, a_el)
    # a role annotation in the removed block can change the function's GI name and with it the pairing
    spec_wo = dict(spec, blocks=[x for j, x in enumerate(spec['blocks']) if j != idx])
    for va, l in vfunc_invokers(spec_wo, b_el).items():
        inv.setdefault(va, [])
        inv[va] = inv[va] + [x for x in l if x not in inv[va]]
    changed = []
    for addr in sorted(set(a_el) | set(b_el)):
        x, y = a_el.get(addr), b_el.get(addr)
        if x is None or y is None or x['serial'] != y['serial']:
            changed.append(addr)
    cnt.hit('absence:blocks-removed')
    if changed:
        cnt.hit('absence:with-effect')
    for addr in changed:
        x, y = a_el.get(addr), b_el.get(addr)
        path = (x or y)['path']
        if target is not None and (addr.split('#')[0] == target or target in [p.split('#')[0] for p in path]):
            continue     # (a static function of a record is written twice: the moved-to original and its copy)
        if b['key'].startswith('SECTION:') and addr == 'docsection:' + b['key'][8:]:
            continue
        # (foreign) on a record is what lets it have constructors: the functions of that record annotated
        # (constructor) owe their role to both blocks (without it: a warning, and a method / static function)
        if ann_opts(b, 'foreign') is not None and target is not None and target.startswith('type:') \
                and addr.startswith('fn:'):
            ty = find_type(spec, b['target'][1])
            sym = addr[3:].split('#')[0]
            if ty is not None and ty['k'] == 'record' and any(
                    f['symbol'] == sym and f['role'] == 'ctor' for f in ty.get('funcs', [])) and any(
                    o['key'] == sym and ann_opts(o, 'constructor') is not None for o in spec['blocks']):
                cnt.hit('absence:allowed-foreign-enables-constructor')
                continue
        if x is not None and y is not None:
            sx, sy = x['serial'], y['serial']
            # effects the statement itself ties to the removed block; several can meet on one element (a block
            # carrying (method) and (rename-to)), so the attributes they may touch are collected first
            allowed = []
            acc = ['glib:set-property', 'glib:get-property']
            # the partner of a rename-to pair (and functions whose competing request now succeeds)
            if addr.startswith('fn:') and target is not None and target.startswith('fn:') and (
                    ann_opts(b, 'rename-to') is not None
                    or any((ann_opts(o, 'rename-to') or [None])[0] == b['key'] for o in spec['blocks'])):
                allowed.append(('rename-partner', ['shadows', 'shadowed-by']))
            # skip on a type makes callables and fields that mention the type non-introspectable
            if ann_opts(b, 'skip') is not None and target is not None and target.startswith('type:'):
                allowed.append(('skip-propagation', ['introspectable']))
            # a property naming its accessor: the accessor carries the back reference
            if target is not None and target.startswith('prop:') and addr.startswith('fn:') and \
                    (ann_opts(b, 'setter') or ann_opts(b, 'getter')):
                allowed.append(('accessor-backref', acc))
            # a method named as getter by one property is no inferred getter candidate of another one
            if target is not None and target.startswith('prop:') and addr.startswith('prop:') and ann_opts(b, 'getter'):
                if any(e['rec']['attrs'].get('getter') == ann_opts(b, 'getter')[0] for e in (x, y)):
                    allowed.append(('accessor-getter-taken', ['getter']))
            # the accessor heuristic: a property finds (or loses) its getter/setter among the methods by name
            if target is not None and target.startswith('fn:') and addr.startswith('prop:'):
                allowed.append(('accessor-heuristic', ['setter', 'getter']))
            # ... and then only the chosen getter keeps the inferred glib:get-property: when the documented
            # function enters or leaves the candidates of property P (a role annotation renames it), a sibling
            # candidate gains or loses its inferred back reference to P
            if target is not None and target.startswith('fn:') and addr.startswith('fn:'):
                props = set()
                for e in (x, y):
                    for a in acc:
                        if e['rec']['attrs'].get(a) is not None:
                            props.add(e['rec']['attrs'][a].replace('-', '_'))
                tnames = set(e2[target]['name'] for e2 in (a_el, b_el) if target in e2)
                if any(tn in (pn, 'get_' + pn, 'is_' + pn, 'set_' + pn) for tn in tnames for pn in props):
                    allowed.append(('accessor-sibling-candidate', acc))
            # the emitter a signal names is validated against the method of that name: a role annotation that
            # renames the documented function makes that validation apply or not
            if target is not None and target.startswith('fn:') and addr.startswith('sig:'):
                tnames = set(e2[target]['name'] for e2 in (a_el, b_el) if target in e2)
                if any(e['rec']['attrs'].get('emitter') in tnames for e in (x, y)):
                    allowed.append(('emitter-validation', ['emitter']))
            if allowed:
                every = [n for _l, names in allowed for n in names]
                if strip_attrs(sx, every) == strip_attrs(sy, every):
                    for label, names in allowed:
                        if strip_attrs(sx, names) != sx or strip_attrs(sy, names) != sy:
                            cnt.hit('absence:allowed-' + label)
                    continue
            # a virtual method inherits from its invoker / from its slot's field documentation
            if addr.startswith('vfunc:'):
                own = blocks_for(spec, addr)
                is_inv = any(sym == b['key'] for sym, _h in inv.get(addr, []))
                tf = b.get('target')
                is_slot_field = bool(tf and tf[0] == 'field' and addr.endswith('::' + tf[2])
                                     and tf[1].endswith(('Class', 'Interface')))
                if is_inv and not own:
                    cnt.hit('absence:allowed-vfunc-inherits')
                    continue
                if is_slot_field and not own:
                    cnt.hit('absence:allowed-vfunc-field-doc')
                    continue
                if is_inv and own:
                    # with a block of its own the virtual method only learns the invoker's name (which the
                    # removed block can change: (virtual slot), or a role annotation renaming the function)
                    if strip_attrs(sx, ['invoker']) == strip_attrs(sy, ['invoker']):
                        cnt.hit('absence:allowed-virtual-invoker-attr')
                        continue
                    ctx.report_failure('vfunc-own-block-overlaid:%s:%s' % (case_id, json.dumps([b['key'], addr])),
                                       'virtual method %s has a block of its own, yet removing the block of its '
                                       'invoker %r changes it: %s -> %s' % (addr, b['key'], sy[:300], sx[:300]),
                                       {'kind': 'case', 'spec': spec, 'remove': idx})
                    continue
        ctx.report_failure('leak:%s:%s' % (case_id, json.dumps([b['key'], addr])),
                           'block %r (documents %s) changes unrelated element %s: without the block %s, with it %s'
                           % (b['key'], target, addr, (y or {}).get('serial', '<absent>')[:300],
                              (x or {}).get('serial', '<absent>')[:300]),
                           {'kind': 'case', 'spec': spec, 'remove': idx})


def classify_crash(spec, crash):
    """a crash of the real pipeline: which known defect site, or is the input outside the property?"""
    if not all(wellformed(b) for b in spec['blocks']):
        return 'outside-malformed'
    w = ' '.join(crash.where)
    # syntactically valid annotations naming a target of the wrong kind: the statement makes no promise
    if crash.type == 'AttributeError' and ('_apply_annotation_rename_to' in w or '_pass_read_annotations2' in w):
        return 'outside-wrong-kind-target'
    return None


# ======================================================================== generator
def gen_block_content(rng, kind, names, heavy=True):
    """random identifier annotations + tags for an element of `kind`; `names` are plausible option values"""
    b = {'anns': []}
    uid = '%04x' % rng.getrandbits(16)
    if rng.random() < 0.75:
        b['description'] = 'Doc %s for %s.' % (uid, kind)
    if rng.random() < 0.45:
        b['since'] = [rng.choice(['1.2', '2.0', '0.9.1']), rng.choice([None, None, 'since text ' + uid])]
    if rng.random() < 0.4:
        b['deprecated'] = [rng.choice(['1.4', '3.0', None]), rng.choice([None, 'use other ' + uid])]
        if b['deprecated'] == [None, None]:
            b['deprecated'] = ['2.2', None]
    if rng.random() < 0.3:
        b['stability'] = [rng.choice(STAB), None]
    if rng.random() < 0.3:
        b['anns'].append(['skip', []])
    if rng.random() < 0.3:
        b['attributes'] = [[rng.choice(['doc.k', 'org.x', 'a']) + uid[:1], rng.choice(['v1', 'v2', 'x' + uid])]
                           for _ in range(rng.randint(1, 2))]
        if len(b['attributes']) == 2 and b['attributes'][0][0] == b['attributes'][1][0]:
            b['attributes'].pop()
    pick = lambda: rng.choice(names) if names and rng.random() < 0.8 else rng.choice(WORDS) + '_x'  # noqa
    table = {
        'function': ['finish-func', 'sync-func', 'async-func', 'set-property', 'get-property'],
        'callback': ['finish-func', 'sync-func'],
        'vfunc': ['finish-func'],
        'property': ['setter', 'getter', 'default-value'],
        'signal': ['emitter'],
        'constant': ['value'],
        'class': ['ref-func', 'unref-func', 'set-value-func', 'get-value-func'],
        'record': ['copy-func', 'free-func'],
        'union': ['copy-func', 'free-func'],
    }
    for ann in table.get(kind, []):
        if rng.random() < (0.3 if heavy else 0.1):
            b['anns'].append([ann, [rng.choice(['7', '42', 'v' + uid]) if ann in ('value', 'default-value') else pick()]])
    if kind == 'record' and rng.random() < 0.15:
        b['anns'].append(['foreign', []])
    # annotations that are valid on a block but not meaningful for this kind: must have no effect anywhere
    if rng.random() < 0.12:
        wrong = rng.choice(['value', 'emitter', 'setter', 'copy-func', 'unref-func', 'finish-func', 'foreign'])
        if not any(a == wrong for a, _o in b['anns']) and wrong not in table.get(kind, []) \
                and not (kind == 'record' and wrong == 'foreign'):
            b['anns'].append([wrong, [] if wrong == 'foreign' else [pick()]])
    return b


def gen_spec(rng, size=None, words=None, typewords=None):
    WORDS_ = words or WORDS
    TYPEWORDS_ = typewords or TYPEWORDS
    ns = rng.choice(['Foo', 'Foo', 'Foo', 'Gx', 'FooBar'])
    pre = uscore(ns) + '_'
    spec = {'ns': ns, 'types': [], 'funcs': [], 'blocks': []}
    n_types = rng.randint(2, 7) if size is None else size
    tnames = rng.sample(TYPEWORDS_, min(n_types, len(TYPEWORDS_)))
    shared_props = rng.sample(WORDS_, 3)
    used_syms = set()
    for tn in tnames:
        k = rng.choice(['class', 'class', 'class', 'record', 'record', 'union', 'enum', 'bitfield', 'alias', 'callback',
                        'interface'])
        if uscore(tn) in [uscore(t['name']) for t in spec['types']]:
            continue
        t = {'k': k, 'name': tn}
        us = pre + uscore(tn) + '_'
        if k in ('class', 'interface'):
            t['has_struct'] = rng.random() < 0.85
            t['has_class_struct'] = rng.random() < 0.85
            words = rng.sample(WORDS_, 8)
            common = rng.choice(shared_props)
            uniq = lambda l: list(dict.fromkeys(l))  # noqa
            t['fields'] = uniq([common] + words[:rng.randint(0, 2)]) if (k == 'class' and t['has_struct']) else []
            t['props'] = [{'name': w, 'flags': rng.choice([1, 2, 3, 3, 11]),
                           'type': rng.choice(['gint', 'gint', 'gboolean'])}
                          for w in uniq([common] + words[2:2 + rng.randint(0, 2)])]
            for p in t['props']:
                # the default reported by the runtime dump (an annotation overrides it); '' is a value too
                if rng.random() < 0.3:
                    p['default'] = rng.choice(['', '0', 'TRUE', '-1'])
            t['sigs'] = [{'name': w, 'nparams': rng.choice([0, 0, 1, 2])}
                         for w in uniq([common] + words[4:4 + rng.randint(0, 1)])]
            t['vslots'] = [{'name': w, 'nparams': rng.randint(0, 2)}
                           for w in uniq([common] + words[5:5 + rng.randint(0, 1)])] if t['has_class_struct'] else []
            t['funcs'] = []
            mwords = [common] + rng.sample(WORDS_, 3)
            for w in dict.fromkeys(mwords):
                np_ = rng.randint(0, 2)
                for v in t['vslots']:
                    if v['name'] == w and rng.random() < 0.7:
                        np_ = v['nparams']
                fn = {'symbol': us + w + rng.choice(['', '', '_it']), 'role': 'method', 'nparams': np_}
                if rng.random() < 0.3 and not any(v['name'] == w for v in t['vslots']):
                    fn['ret'] = 'void'      # a possible signal emitter
                t['funcs'].append(fn)
            # accessor names the pairing heuristic looks for: get_<prop>, set_<prop>, is_<prop> (and <prop>
            # itself, above); now and then a dashed property name (normalised to '_' for the lookup)
            if rng.random() < 0.25:
                a, b2 = rng.sample(WORDS_, 2)
                t['props'].append({'name': '%s-%s' % (a, b2), 'flags': rng.choice([1, 3, 3, 11]),
                                   'type': rng.choice(['gint', 'gboolean'])})
            for p in t['props']:
                nn = p['name'].replace('-', '_')
                for acc, prob, np_ in (('get_', 0.35, 0), ('set_', 0.3, 1), ('is_', 0.3, 0)):
                    if rng.random() < prob:
                        t['funcs'].append({'symbol': us + acc + nn, 'role': 'method', 'nparams': np_})
            if k == 'class':
                t['funcs'].append({'symbol': us + 'new', 'role': 'ctor', 'nparams': 0})
                if rng.random() < 0.4:
                    t['funcs'].append({'symbol': us + 'create', 'role': 'ctor', 'nparams': 1})
                if rng.random() < 0.4:
                    t['funcs'].append({'symbol': us + rng.choice(WORDS_) + '_all', 'role': 'static', 'nparams': 1})
        elif k in ('record', 'union'):
            t['fields'] = rng.sample(WORDS_, rng.randint(1, 3))
            t['funcs'] = [{'symbol': us + w, 'role': 'method', 'nparams': rng.randint(0, 1)}
                          for w in rng.sample(WORDS_, rng.randint(0, 2))]
        elif k in ('enum', 'bitfield'):
            up = (pre + uscore(tn)).upper() + '_'
            t['members'] = [up + w.upper() for w in rng.sample(WORDS_, rng.randint(2, 4))]
        elif k == 'callback':
            t['nparams'] = rng.randint(0, 2)
        t['funcs'] = [f for f in t.get('funcs', []) if f['symbol'] not in used_syms
                      and not f['symbol'].endswith(('_sync', '_async', '_finish', '_get_type'))]
        for f in t['funcs']:
            used_syms.add(f['symbol'])
        spec['types'].append(t)
    for i in range(rng.randint(0, 3)):
        cn = (pre + rng.choice(WORDS_)).upper() + rng.choice(['', '_MAX', '_2'])
        if not any(t.get('cname') == cn or t['name'].upper() == cn[len(pre):] for t in spec['types']):
            spec['types'].append({'k': 'constant', 'name': 'const%d' % i, 'cname': cn, 'int': rng.randint(0, 9)})
    type_prefixes = [pre + uscore(t['name']) for t in spec['types'] if t['k'] != 'constant']
    for w in rng.sample(WORDS_, rng.randint(1, 5)):
        sym = pre + 'do_' + w + rng.choice(['', '_full', '_v2'])
        if sym in used_syms or any(sym.startswith(p + '_') or sym == p for p in type_prefixes):
            continue
        used_syms.add(sym)
        spec['funcs'].append({'symbol': sym, 'nparams': rng.randint(0, 2)})

    # ---- blocks
    fnames = [f[0] for f in all_functions(spec)]
    blocks = []

    def add(key, target, kind, names=(), params=(), **force):
        b = gen_block_content(rng, kind, list(names))
        b['key'] = key
        b['target'] = target
        if params:
            b['params'] = list(params)
        for k2, v in force.items():
            if k2 == 'ann':
                b['anns'] = [a for a in b['anns'] if a[0] != v[0]] + [v]
            else:
                b[k2] = v
        blocks.append(b)
        return b
    for t in spec['types']:
        cname = ns + t['name']
        us = pre + uscore(t['name']) + '_'
        k = t['k']
        p_type = 0.55
        if k == 'constant':
            if rng.random() < 0.7:
                add(t['cname'], ('type', t['name']), 'constant')
            continue
        if rng.random() < p_type:
            add(cname, ('type', t['name']), {'enum': 'enum', 'bitfield': 'enum'}.get(k, k), fnames)
        if k in ('class', 'interface', 'record', 'union') and rng.random() < 0.25:
            add('SECTION:' + cname.lower(), ('section', t['name']), 'section')
        mnames = [f['symbol'][len(us):] for f in t.get('funcs', []) if f['symbol'].startswith(us)]
        for f in t.get('fields', []):
            if rng.random() < 0.45:
                add('%s.%s' % (cname, f), ('field', t['name'], f), 'field')
        for p in t.get('props', []):
            if rng.random() < 0.5:
                add('%s:%s' % (cname, p['name']), ('prop', t['name'], p['name']), 'property', mnames)
        for s in t.get('sigs', []):
            if rng.random() < 0.5:
                # emitters: methods of the class, with the signal's signature (void, same parameters) or not
                # (another return type or parameter count is refused with a warning)
                cands = [f['symbol'][len(us):] for f in t.get('funcs', [])
                         if f['role'] == 'method' and f['symbol'].startswith(us)]
                voids = [f['symbol'][len(us):] for f in t.get('funcs', [])
                         if f['role'] == 'method' and f['symbol'].startswith(us) and f.get('ret', 'int') == 'void'
                         and f.get('nparams', 0) == s.get('nparams', 0)]
                add('%s::%s' % (cname, s['name']), ('sig', t['name'], s['name']), 'signal',
                    (voids if voids and rng.random() < 0.6 else cands) or ['nonesuch'])
        sname = cname + ('Class' if k == 'class' else 'Interface')
        for v in t.get('vslots', []):
            if rng.random() < 0.3:
                add('%s::%s' % (sname, v['name']), ('vfunc', t['name'], v['name']), 'vfunc', fnames,
                    params=['self'] + ['p%d' % i for i in range(v.get('nparams', 0))])
            if rng.random() < 0.15:
                add('%s.%s' % (sname, v['name']), ('field', t['name'] + ('Class' if k == 'class' else 'Interface'),
                                                  v['name']), 'field')
        for m in t.get('members', []):
            if rng.random() < 0.4:
                add(m, ('member', m), 'member')
        for f in t.get('funcs', []):
            if rng.random() < 0.55:
                params = (['self'] if f['role'] == 'method' else []) + ['p%d' % i for i in range(f.get('nparams', 0))]
                b = add(f['symbol'], ('fn', f['symbol']), 'function',
                        [p['name'] for p in t.get('props', [])] if rng.random() < 0.5 else fnames, params=params)
                if f['role'] == 'method' and t.get('vslots') and rng.random() < 0.2:
                    b['anns'].append(['virtual', [rng.choice(t['vslots'])['name']]])
                elif f['role'] in ('ctor', 'static') and t.get('vslots') and rng.random() < 0.1:
                    # only a method can be an invoker: warned about and ignored
                    b['anns'].append(['virtual', [rng.choice(t['vslots'])['name']]])
                if f['role'] == 'ctor' and rng.random() < 0.3:
                    b['anns'].append(['constructor', []])
                if f['role'] == 'method' and rng.random() < 0.15:
                    b['anns'].append(['method', []])
    for f in spec['funcs']:
        if rng.random() < 0.65:
            add(f['symbol'], ('fn', f['symbol']), 'function', fnames, params=['p%d' % i for i in range(f.get('nparams', 1))])
    # rename-to: simple pairs, competing requests, occasionally a chain or a missing target
    allf = [f[0] for f in all_functions(spec)]
    if len(allf) >= 2:
        for _ in range(rng.choice([0, 1, 1, 2, 3])):
            src, tgt = rng.sample(allf, 2)
            if rng.random() < 0.1:
                tgt = tgt + '_nonesuch'
            b = next((x for x in blocks if x['key'] == src), None)
            if b is None:
                fi = next(f for f in all_functions(spec) if f[0] == src)
                b = add(src, ('fn', src), 'function', fnames)
                b.pop('params', None)
                del fi
            if ann_opts(b, 'rename-to') is None:
                b['anns'].append(['rename-to', [tgt]])
    # near-miss keys that name nothing: they must change nothing
    classes = [t for t in spec['types'] if t['k'] in ('class', 'interface')]
    for t in classes:
        cname = ns + t['name']
        for p in t.get('props', [])[:1]:
            for key in rng.sample(['%s:%s' % (t['name'], p['name']), '%s:%s' % (cname, p['name'].upper()),
                                   '%s:%s_' % (cname, p['name']), '%s_%s' % (cname, p['name']),
                                   '%s%s' % (cname, p['name'].capitalize()), '%s.%s' % (cname, p['name'] + 'x'),
                                   '%s:::%s' % (cname, p['name']), '%s::%s-x' % (cname, p['name']),
                                   uscore(cname) + ':' + p['name']], rng.randint(0, 2)):
                if not any(b['key'] == key for b in blocks) and not any(tt['name'] == key[len(ns):] for tt in spec['types']):
                    add(key, None, 'property', fnames)
    if rng.random() < 0.2:
        add('SECTION:nothing' + '%x' % rng.getrandbits(8), ('section', None), 'section')
    rng.shuffle(blocks)
    # one block per key (the parser keeps the last one; the property speaks about one block per name)
    seen = set()
    spec['blocks'] = []
    for b in blocks:
        if b['key'] not in seen:
            seen.add(b['key'])
            spec['blocks'].append(b)
    return spec


def gen_short(rng):
    """the same namespaces with SHORT identifiers: one-character (and two-character) field, property, signal,
    virtual-slot, method, enum-member and type names, and a block for every field -- 'FooPt.x:', 'FooBar:x:',
    'FooBar::x:', 'FooBarClass::x:', 'FOO_BAR_X:', 'foo_bar_x:', 'FooX:' are identifiers the statement speaks
    about like any other; a record with the usual coordinate fields (and the field '_') is always present"""
    spec = gen_spec(rng, size=rng.randint(2, 5), words=SHORT_WORDS, typewords=SHORT_TYPEWORDS)
    if not any(t['name'] == 'Pt' for t in spec['types']):
        spec['types'].append({'k': rng.choice(['record', 'record', 'union']), 'name': 'Pt', 'funcs': []})
    pt = find_type(spec, 'Pt')
    if pt['k'] in ('record', 'union'):
        pt['fields'] = list(dict.fromkeys(rng.sample(['x', 'y', '_', 'r', 'w'], 3) + pt.get('fields', [])))
    have = set(b['key'] for b in spec['blocks'])
    extra = []
    for t in spec['types']:
        cname = spec['ns'] + t['name']
        for f in t.get('fields', []):
            key = '%s.%s' % (cname, f)
            if key not in have and rng.random() < 0.8:
                b = gen_block_content(rng, 'field', [])
                b['key'] = key
                b['target'] = ('field', t['name'], f)
                extra.append(b)
    for b in extra:
        spec['blocks'].insert(rng.randint(0, len(spec['blocks'])), b)
    return spec


CTOR_WORDS = ['derive', 'clone_from', 'make', 'build_with', 'derived_copy', 'new_from', 'new_like', 'dup_into']


def add_ctor_shapes(rng, spec, t, others):
    """functions of type `t` around 'an explicit (constructor) on a function whose signature permits it makes it
    a constructor': annotated (constructor), returning t*, symbol under t's prefix, with as FIRST PARAMETER an
    instance of t itself ('derive from a template'), nothing / an int, or a pointer to another type; and the
    un-annotated function of the same shape (t* first, returns t*: a method by the name heuristic)"""
    pre = uscore(spec['ns']) + '_'
    us = pre + uscore(t['name']) + '_'
    used = set(f[0] for f in all_functions(spec))
    words = rng.sample(CTOR_WORDS, len(CTOR_WORDS))
    shapes = ['self', 'self-unannotated'] + rng.sample(['none', 'other', 'self', 'self-unannotated'], rng.randint(1, 3))
    new_blocks = []
    for shape in shapes:
        if shape == 'other' and not others:
            shape = 'none'
        w = words.pop()
        sym = us + w
        if sym in used:
            continue
        used.add(sym)
        np_ = rng.randint(0, 2)
        if shape == 'self-unannotated':
            f = {'symbol': sym, 'role': 'method', 'nparams': np_, 'ret_self': True}
            params = ['self']
        else:
            f = {'symbol': sym, 'role': 'ctor', 'nparams': np_}
            params = []
            if shape == 'self':
                f['first'] = 'self'
                params = ['tmpl']
            elif shape == 'other':
                f['first'] = rng.choice(others)
                params = ['other']
        t.setdefault('funcs', []).append(f)
        if shape == 'self-unannotated' and rng.random() < 0.5:
            continue
        if rng.random() < 0.5:
            b = gen_block_content(rng, 'function', [], heavy=False)
            b['anns'] = [a for a in b['anns'] if a[0] == 'skip']
        else:
            b = {'anns': [], 'description': 'Makes a %s.' % t['name']}
        b['key'] = sym
        b['target'] = ('fn', sym)
        b['params'] = params + ['p%d' % i for i in range(np_)]
        if shape != 'self-unannotated':
            b['anns'].append(['constructor', []])
        new_blocks.append(b)
    for b in new_blocks:
        spec['blocks'].insert(rng.randint(0, len(spec['blocks'])), b)


def gen_ctor_self(rng):
    """namespaces where annotated constructors take an instance of the constructed type first: half of them
    small (a class, a GType-registered record / union, a (foreign) record), half of them the usual rich
    namespaces of gen_spec with these functions added to every type that can have constructors"""
    if rng.random() < 0.5:
        ns = rng.choice(['Foo', 'Foo', 'Gx', 'FooBar'])
        spec = {'ns': ns, 'types': [], 'funcs': [], 'blocks': []}
        names = rng.sample(['Thing', 'Bar', 'Item', 'Node', 'Box', 'Widget'], rng.randint(2, 4))
        for i, tn in enumerate(names):
            k = rng.choice(['class', 'boxed-record', 'boxed-union', 'foreign-record']) if i < len(names) - 1 \
                else rng.choice(['record', 'class', 'boxed-record'])
            if k == 'class':
                t = {'k': 'class', 'name': tn, 'has_struct': rng.random() < 0.85, 'has_class_struct': rng.random() < 0.8,
                     'fields': [], 'props': [], 'sigs': [], 'vslots': [], 'funcs': []}
            else:
                t = {'k': 'union' if k.endswith('union') else 'record', 'name': tn,
                     'fields': rng.sample(WORDS, rng.randint(1, 2)), 'funcs': []}
                if k.startswith('boxed'):
                    t['boxed'] = True
                if k.startswith('foreign'):
                    spec['blocks'].append({'key': ns + tn, 'target': ('type', tn), 'anns': [['foreign', []]],
                                           'description': 'A %s.' % tn})
            spec['types'].append(t)
    else:
        spec = gen_spec(rng, size=rng.randint(2, 5))
        for t in spec['types']:
            if t['k'] in ('record', 'union') and rng.random() < 0.4:
                t['boxed'] = True
    pre = uscore(spec['ns']) + '_'
    prefixes = [pre + uscore(t['name']) for t in spec['types'] if t['k'] != 'constant']
    for t in spec['types']:
        mine = pre + uscore(t['name'])
        # (a type whose symbol prefix is shared with, or extended by, another type is C04's subject)
        if not can_construct(spec, t) or prefixes.count(mine) > 1 or any(p.startswith(mine + '_') for p in prefixes):
            continue
        others = [o['name'] for o in spec['types'] if o is not t and o['k'] in ('class', 'record', 'union', 'interface')]
        add_ctor_shapes(rng, spec, t, others)
    return spec


def gen_malformed(rng):
    """syntactically broken or wrongly targeted annotations: the oracle judges only what stays in scope"""
    spec = gen_spec(rng, size=rng.randint(2, 4))
    for b in spec['blocks']:
        r = rng.random()
        if r < 0.15 and b['anns']:
            a = rng.choice(b['anns'])
            a[1] = [] if a[1] else ['extra']
        elif r < 0.25:
            b['anns'].append([rng.choice(['rename-to', 'virtual', 'emitter', 'value']), []])
        elif r < 0.35:
            b['anns'].append(['skip', ['1']])
        elif r < 0.4:
            b['since'] = ['', None]
    enum_members = [m for t in spec['types'] for m in t.get('members', [])]
    fns = [f[0] for f in all_functions(spec)]
    if enum_members and fns and rng.random() < 0.3:
        src = rng.choice(fns)
        b = next((x for x in spec['blocks'] if x['key'] == src), None)
        if b is not None and ann_opts(b, 'rename-to') is None:
            b['anns'].append(['rename-to', [rng.choice(enum_members)]])
    recs = [t for t in spec['types'] if t['k'] in ('record', 'union') and t.get('funcs')]
    if recs and rng.random() < 0.3:
        f = rng.choice(rng.choice(recs)['funcs'])
        b = next((x for x in spec['blocks'] if x['key'] == f['symbol']), None)
        if b is not None and ann_opts(b, 'virtual') is None:
            b['anns'].append(['virtual', ['go']])
    return spec


# ======================================================================== one case
def check_case(ctx, cnt, spec, gobject_gir, case_id, n_absence, samples=None):
    cfg = spec_to_cfg(spec, gobject_gir)
    real = run_real(cfg)
    n_elems = 0
    if 'crash' in real:
        cls = classify_crash(spec, real['crash'])
        cnt.hit('crash:%s' % (cls or 'unclassified'))
        if cls is None or cls.startswith('crash:'):
            ctx.report_failure(cls or 'crash:%s:%s' % (case_id, real['crash'].type),
                               'the scanner raises %s (%s) at %s on a namespace with well-formed identifier annotations'
                               % (real['crash'].type, real['crash'].text[:200], ' < '.join(real['crash'].where)),
                               {'kind': 'case', 'spec': spec})
    else:
        n_elems = len(real['elems'])
        judge_presence(ctx, cnt, spec, real, case_id)
        judge_rename(ctx, cnt, spec, real, case_id)
        judge_roles(ctx, cnt, spec, real, case_id)
        order = list(range(len(spec['blocks'])))
        ctx.rng.shuffle(order)
        for idx in order[:n_absence]:
            judge_absence(ctx, cnt, spec, real, idx, gobject_gir, case_id)
    return cfg, real, n_elems


def model_request(cfg, real):
    nodes, clones = model_nodes(real['namespace'], dump_defaults(cfg))
    blocks = parse_blocks(cfg)
    return {'op': 'c03.annotate', 'blocks': blocks, 'nodes': nodes}, nodes, clones


def model_request_crashed(cfg):
    """the real run crashed: rebuild the namespace with a blockless run to obtain the pairing facts"""
    base = run_real(dict(cfg, comments=[]))
    if 'crash' in base:
        return None, None
    nodes, _clones = model_nodes(base['namespace'], dump_defaults(cfg))
    return {'op': 'c03.annotate', 'blocks': parse_blocks(cfg), 'nodes': nodes}, nodes


def load_corpus():
    out = []
    cpath = os.path.join(VERIF, 'corpus', 'C03')
    if os.path.isdir(cpath):
        for fn in sorted(os.listdir(cpath)):
            if fn.endswith('.json'):
                with open(os.path.join(cpath, fn)) as f:
                    for i, c in enumerate(json.load(f)):
                        out.append((fn[:-5] + ':%d' % i, c))
    return out


def key_correspondence(ctx, cnt):
    """the key builders and str.lower against CPython, on near-colliding names"""
    reqs, wants = [], []
    names = ['x', '_', 'FooBar', 'Foo', 'foo_bar', 'FOOBAR', 'FooBarClass', 'size', 'notify::size', 'a.b', 'A:B', '', 'É',
             'SECTION', 'Foo_Bar9', 'x-y']
    for a in names:
        for n in names[:10]:
            for kind, f in (('prop', '%s:%s'), ('sig', '%s::%s'), ('field', '%s.%s'), ('vfunc', '%s::%s')):
                reqs.append({'op': 'c03.key', 'kind': kind, 'ann': a, 'name': n})
                wants.append(f % (a, n))
        if all(ord(ch) < 128 for ch in a):
            reqs.append({'op': 'c03.key', 'kind': 'section', 'ann': a, 'name': ''})
            wants.append('SECTION:%s' % a.lower())
    got = ctx.driver.batch(reqs)
    bad = 0
    for r, w, g in zip(reqs, wants, got):
        cnt.hit('key:' + r['kind'])
        if w != g:
            bad += 1
            if bad <= 3:
                ctx.broken.append('correspondence c03.key differs: %r python=%r model=%r' % (r, w, g))
    return len(reqs)


class Sink(object):
    """stands in for ctx inside worker processes: collects what the parent reports"""

    def __init__(self, seed):
        import random
        self.rng = random.Random(seed)
        self.failures = []

    def report_failure(self, key, what, replay):
        if len(self.failures) < 50:
            self.failures.append((key, what, replay))


_GOBJECT_GIR = [None]


def work(task):
    """one namespace, in a worker process: real pipeline, statement oracle, model request"""
    cid, spec, stream, n_absence, seed = task
    sink = Sink(seed)
    cnt = Counter()
    gobject_gir = _GOBJECT_GIR[0]
    out = {'cid': cid, 'stream': stream, 'spec': spec, 'request': None}
    try:
        cfg, real, n_elems = check_case(sink, cnt, spec, gobject_gir, cid, n_absence)
        out['n_elems'] = n_elems
    except Exception as e:  # noqa  -- a fault of the harness itself, not of the code under test
        import traceback
        out['harness_error'] = traceback.format_exc()[-1500:]
        out['failures'] = sink.failures
        out['counts'] = cnt.counts
        return out
    # the model's input is read from public attributes of the live namespace; if the code under test
    # no longer offers them the correspondence is reported as broken and the oracle results stand
    try:
        if 'crash' in real:
            out['crash'] = {'type': real['crash'].type, 'where': real['crash'].where, 'text': real['crash'].text[:200],
                            'class': classify_crash(spec, real['crash'])}
            req, nodes = model_request_crashed(cfg)
            out['request'], out['nodes'] = req, nodes
        else:
            out['elems'] = dict((a, {'rec': e['rec'], 'tag': e['tag'], 'name': e['name'], 'path': e['path'],
                                     'serial': e['serial'], 'refs': e['refs']}) for a, e in real['elems'].items())
            out['warnings'] = real['warnings']
            if any(e['rec']['attrs'].get('introspectable') == '0' for e in real['elems'].values()):
                base = run_real(dict(cfg, comments=[]))
                out['base'] = dict((a, {'rec': e['rec']}) for a, e in base.get('elems', {}).items())
            req, nodes, clones = model_request(cfg, real)
            out['clones'] = clones
            out['request'], out['nodes'] = req, nodes
    except Exception as e:  # noqa
        out['request'] = None
        out['model_input_error'] = '%s: %s' % (type(e).__name__, str(e)[:300])
    out['failures'] = sink.failures
    out['counts'] = cnt.counts
    return out


def run(ctx):
    import multiprocessing
    from core import HarnessError
    cnt = Counter()
    for key, what in PENDING_FINDINGS:
        ctx.known.append({'property': 'C03', 'status': 'known', 'key': key, 'what': what, 'pending': True})
    ctx.prove(['gen_identann'], ['GIVerif.Props.C03'], 'GIVerif.Props.C03')
    gobject_gir = os.path.join(ctx.scratch, 'GObject-2.0.gir')
    with open(gobject_gir, 'w') as f:
        f.write(GOBJECT_GIR)
    _GOBJECT_GIR[0] = gobject_gir
    rng = ctx.rng
    ctx.log('proofs rebuilt and audited')
    t_search0 = time.time()          # the budget covers the search, not the wait for the shared lake lock
    t_budget = ctx.n(60, 600)
    n_cases = ctx.n(300, 10000)
    n_mal = ctx.n(40, 1200)
    n_short = ctx.n(40, 1200)
    n_absence = ctx.n(4, 6)
    nkeys = key_correspondence(ctx, cnt)
    corpus = [(cid, c['spec']) for cid, c in load_corpus()]
    n_corpus = len(corpus)

    import random
    srng = random.Random(ctx.seed * 1000003 + 3 + 0x5107)   # (own generator: the other streams are as before)

    krng = random.Random(ctx.seed * 1000003 + 3 + 0xC705)
    n_ctor = ctx.n(40, 1000)

    def tasks():
        for cid, spec in corpus:
            yield (cid, spec, 'corpus', max(n_absence, len(spec['blocks'])), rng.getrandbits(32))
        # short identifiers first: the stream is complete on every run, whatever the time budget does later
        for i in range(n_short):
            yield ('s%d' % i, gen_short(srng), 'short', n_absence, srng.getrandbits(32))
        # annotated constructors taking an instance first: complete on every run as well
        for i in range(n_ctor):
            yield ('k%d' % i, gen_ctor_self(krng), 'ctor-self', n_absence, krng.getrandbits(32))
        for i in range(n_cases):
            yield ('g%d' % i, gen_spec(rng), 'valid', n_absence, rng.getrandbits(32))
        for i in range(n_mal):
            yield ('m%d' % i, gen_malformed(rng), 'malformed', n_absence, rng.getrandbits(32))

    scanpipe.mods()      # import the real modules before forking
    results = []
    nproc = max(1, min(8, (os.cpu_count() or 2) - 1))
    pool = multiprocessing.get_context('fork').Pool(nproc)
    stopped = False
    try:
        for out in pool.imap(work, tasks(), chunksize=4):
            results.append(out)
            if time.time() - t_search0 > t_budget and len(results) >= n_corpus:
                stopped = True
                break
    finally:
        pool.terminate()
        pool.join()
    ctx.log('%d namespaces scanned and judged (%d worker processes)' % (len(results), nproc))
    if stopped:
        ctx.notes.append('time budget reached after %d namespaces' % len(results))
        cnt.hit('budget-stop')

    samples = []
    sizes = []
    requests, req_meta = [], []
    for out in results:
        if 'harness_error' in out:
            raise HarnessError('case %s: %s' % (out['cid'], out['harness_error']))
        spec = out['spec']
        cnt.hit('stream:' + out['stream'])
        for k, v in out['counts'].items():
            cnt.hit(k, v)
        for key, what, rep in out['failures']:
            ctx.report_failure(key, what, rep)
        sizes.append(out.get('n_elems', 0))
        cnt.case(['spec', spec], nontrivial=bool(spec['blocks']) and out.get('n_elems', 0) >= 5)
        for b in spec['blocks']:
            for a, _o in b.get('anns', []):
                cnt.hit('ann:' + a)
            for tg in ('since', 'deprecated', 'stability'):
                if b.get(tg):
                    cnt.hit('tag:' + tg)
            cnt.hit('target:' + (b['target'][0] if b.get('target') else 'none'))
            # identifiers whose own name (after the '.', ':', '::' or the type's symbol prefix) is one character
            if b.get('target') and len(b['target']) == 3 and len(b['target'][2]) == 1:
                cnt.hit('one-char-name:' + b['target'][0])
            elif b.get('target') and b['target'][0] in ('fn', 'member') and re.search(r'_[A-Za-z]$', b['key']):
                cnt.hit('one-char-name:' + b['target'][0])
        if 'model_input_error' in out:
            cnt.hit('correspondence:model-input-unreadable')
            if cnt.counts['correspondence:model-input-unreadable'] <= 2:
                ctx.broken.append('correspondence c03.annotate: the live namespace / parsed blocks no longer offer what '
                                  'the model input is read from (%s); statement oracle still evaluated' % out['model_input_error'])
        if out.get('clones'):
            cnt.hit('outside:cloned-static-functions')
        elif out.get('request') is not None:
            requests.append(out['request'])
            req_meta.append(out)
        if len(samples) < 3 and out['stream'] == 'valid':
            samples.append({'case': out['cid'], 'ns': spec['ns'], 'types': [(t['k'], t['name']) for t in spec['types']],
                            'blocks': [render_block(b).split('\n')[1] for b in spec['blocks']][:12]})

    # ---- model vs real
    mresults = ctx.driver.batch(requests)
    ctx.log('model evaluated on %d namespaces' % len(requests))
    n_dis = 0
    for out, mres in zip(req_meta, mresults):
        cid, spec, nodes = out['cid'], out['spec'], out['nodes']
        if 'crash' in out:
            cr = out['crash']
            where = ' '.join(cr['where'])
            if cr['type'] == 'AttributeError' and '_apply_annotation_rename_to' in where:
                cnt.hit('correspondence:crash-outside-model')
                continue
            agree = mres.get('error') == cr['type'] if isinstance(mres, dict) else False
            cnt.hit('correspondence:crash-' + ('agree' if agree else 'differ'))
            if not agree:
                n_dis += 1
                if n_dis <= 3:
                    ctx.broken.append('correspondence c03.annotate differs: real pipeline raises %s at %s, model gives %s '
                                      '(case %s)' % (cr['type'], cr['where'], str(mres)[:200], cid))
                    ctx.notes.append({'disagreeing_case': cid, 'spec': json.dumps(spec)[:4000]})
            continue
        if 'error' in mres:
            n_dis += 1
            cnt.hit('correspondence:model-error-only')
            if n_dis <= 3:
                ctx.broken.append('correspondence c03.annotate differs: model raises %s, real pipeline succeeds (case %s)'
                                  % (mres['error'], cid))
                ctx.notes.append({'disagreeing_case': cid, 'spec': json.dumps(spec)[:4000]})
            continue
        diffs = compare_model({'elems': out['elems'], 'warnings': out.get('warnings', [])},
                              model_records(nodes, mres), out.get('base', {}), cnt)
        cnt.hit('correspondence:namespaces')
        cnt.hit('correspondence:elements', len(out['elems']))
        if diffs:
            n_dis += 1
            cnt.hit('correspondence:differ')
            if n_dis <= 3:
                ctx.broken.append('correspondence c03.annotate differs (case %s): %s' % (cid, '; '.join(
                    '%s: %s' % d for d in diffs[:3])[:1500]))
                ctx.notes.append({'disagreeing_case': cid, 'spec': json.dumps(spec)[:4000]})
    ctx.coverage.update({
        'evaluations': nkeys + len(results) + cnt.counts.get('absence:blocks-removed', 0),
        'distinct_nontrivial': cnt.n_distinct(),
        'rule': 'seeded generator of namespaces (classes with instance/class structs, properties, signals, fields, virtual '
                'slots, methods, constructors, static functions; interfaces; records; unions; enums; flags; aliases; '
                'callbacks; constants; toplevel functions) with near-colliding names (Foo:bar, Foo::bar, Foo.bar, FooBar, '
                'Bar:bar, FooBar:BAR, shared property/signal/field/slot names across classes), accessor-shaped method '
                'names (get_/set_/is_<prop>, <prop>, dashed property names), defaults reported by the runtime dump '
                '(incl. the empty string), void methods as signal emitters with matching and mismatching signatures, '
                'and a random assignment of '
                'identifier annotations and tags to every element kind, incl. competing / chained / dangling rename-to, '
                '(virtual), role annotations, wrong-kind annotations and near-miss keys; a malformed stream (missing or '
                'surplus options, rename-to an enum member, (virtual) on a record method); a stream of the same namespaces '
                'with one- and two-character field / property / signal / slot / method / member / type names and a '
                'Struct.field block for nearly every field (complete on every run); a stream (complete on every run) of '
                'small and rich namespaces where every class / GType-registered record or union / (foreign) record gets '
                'functions annotated (constructor) that return an instance and take as first parameter an instance of '
                'the constructed type itself, nothing / an int, or a pointer to another type, plus the un-annotated '
                'function of the same shape (judged: the annotated ones are <constructor> of that type). Every namespace: real pipeline '
                'vs model on every element record; statement oracle: presence on the target, absence elsewhere by '
                're-scanning without one block at a time (%d blocks per namespace). non-trivial = at least one block '
                'and five GIR elements; distinct by content hash.' % n_absence,
        'samples': samples,
        'distribution': cnt.counts,
        'corpus_cases': n_corpus,
        'namespaces': len(results),
        'namespace_sizes': {'min': min(sizes) if sizes else 0, 'max': max(sizes) if sizes else 0,
                            'mean': round(sum(sizes) / max(1, len(sizes)), 1)},
        'pending_findings': [k for k, _ in PENDING_FINDINGS],
        'notes': ctx.notes[:6],
        'exhaustive': False,
    })
    ctx.assumptions.extend([
        'the C lexer/parser is not run: declarations start at the symbol stream (scanpipe); GObject-2.0.gir is a stub',
        'comment blocks are taken as the comment parser delivers them (C10); the model input is the parsed block',
        'which function becomes a method/constructor/static function of which type (C04) and the namespace order (C16) '
        'are inputs of the model, read from the live namespace after the run; classes follow all functions in '
        'namespace order (true for types registered through the runtime dump)',
        'parameter/return annotations and @param documentation of fields and enum members are out of scope (C01)',
        'the async/finish/sync name heuristics of pass 3 are not modelled: generated names never end in _async, _sync, '
        '_finish; static functions of records/enums (cloned by the scanner) are not generated',
        'introspectable="0" derived by IntrospectablePass (C05) is accepted in the model comparison only on elements that '
        'mention a type the model marks (skip) -- in their own type, parameters, return value or the callback a field '
        'holds --, on children of such an element, or where the blockless scan already has it; (skip) itself must '
        'always arrive (presence) and the re-scan without the block must not change anything else (absence)',
        "IntrospectablePass's validation of (emitter) against the method's signature is not modelled (outside the "
        "anchors); the statement oracle judges it: with the signal's return type and parameter types the emitter "
        "attribute is required, with other ones a warning and no attribute, an unknown method name is kept verbatim",
        'a function the scanner writes twice (moved-to original + copy inside a type) is outside the model comparison; '
        'the rename oracle looks for the shadows/shadowed-by pair among all copies',
        'annotations given with the wrong number of options are outside the statement (the comment parser warns); the '
        'model reproduces the IndexError / AttributeError the real code raises on them',
        "rename-to naming an enum member's symbol (AttributeError in _apply_annotation_rename_to) is not modelled",
    ])


def replay(ctx, rep):
    for key, what in PENDING_FINDINGS:
        ctx.known.append({'property': 'C03', 'status': 'known', 'key': key, 'what': what, 'pending': True})
    cnt = Counter()
    gobject_gir = os.path.join(ctx.scratch, 'GObject-2.0.gir')
    with open(gobject_gir, 'w') as f:
        f.write(GOBJECT_GIR)
    r = rep['replay']
    spec = r['spec']
    cfg, real, _n = check_case(ctx, cnt, spec, gobject_gir, 'replay', len(spec['blocks']))
    if 'crash' in real:
        print('real pipeline raises %s: %s at %s' % (real['crash'].type, real['crash'].text, real['crash'].where))
    else:
        for b in spec['blocks']:
            print(render_block(b))
        for a, e in sorted(real['elems'].items()):
            if e['rec']['attrs'] or e['rec']['docs'] or e['rec']['attributes']:
                print('%s %s' % (a, json.dumps(e['rec'], sort_keys=True)))
    for v in ctx.violations:
        print('FAILS: ' + v['what'][:800])
    for h in ctx.known_hits:
        print('KNOWN-FINDING: property=C03 %s [%s]' % (h['what'], h['key']))
    return 1 if ctx.violations else 0
