"""C13 — Enumeration members and constants keep correct names, types and values.

Proof: lean/GIVerif/Props/C13.lean over the model lean/GIVerif/Model/EnumConst.lean.
Tie: (1) translators gen_typenames / gen_enumconst re-read ast.type_names, the wrap chain of
`_create_const` (TYPE_* constants, base, exponent), the statements computing `unaliased` and the
body of `resolve_aliases`, the `< 2` member rule, the statement shapes
of `common_prefix`, `_enum_common_prefix`, `_create_enum` and the lexer's identifier pattern;
(2) correspondence of the whole path  symbols -> Transformer.parse -> MainTransformer ->
IntrospectablePass -> GIRWriter -> GIR text -> ElementTree  with the model's `parseDecls` +
writer mapping on generated namespaces, plus direct comparisons of `_enum_common_prefix` and
`_strip_symbol` on arbitrary strings; (3) an oracle written from the property statement
(plain Python, no model code) judged on the REAL implementation's GIR for every declaration;
(4) GType-registered enumerations and flags (a foo_..._get_type() function plus an <enum>/<flags> entry of
the runtime dump, merged by the real GDumpParser): judged by the same oracle against the HEADER, compared
with the model of the header when the dump is the header's 32-bit image, and the merge step itself
(`mergeDump`, op c13.dump_merge) compared with the real result for every registered enumeration.
"""
import ctypes
import json
import os
import signal
import sys
import types
from xml.etree import ElementTree as ET

from core import Counter, VERIF
import scanpipe
from scanpipe import q as Q

# ---------------------------------------------------------------------------------------------
# Widths of the unsigned integer types, written down from the C / GLib definitions (NOT read from
# the scanner): the fixed ones are the same on every ABI GLib supports (`unsigned long long` is 64
# bits on ILP32, LP64 and LLP64 alike); the platform ones are measured on the running platform with
# ctypes (the scanner describes the platform it runs on).
FIXED_UNSIGNED = {'guint8': 8, 'guint16': 16, 'guint32': 32, 'guint64': 64, 'guint': 32, 'gushort': 16,
                  'gunichar': 32, 'unsigned long long': 64}
PLATFORM_UNSIGNED = {'gulong': 8 * ctypes.sizeof(ctypes.c_ulong), 'gsize': 8 * ctypes.sizeof(ctypes.c_size_t),
                     'guintptr': 8 * ctypes.sizeof(ctypes.c_void_p)}

# The one genuine limitation of the unchanged code that is recorded (known_findings.json):
#   const-unwrapped:platform-width   a constant whose declared type resolves -- directly or through any
#                                    number of typedefs -- to gulong / gsize / guintptr is emitted as
#                                    written instead of wrapped modulo the width of the type
# A failing constant is put in this class only when its end type is one of the three AND the GIR shows
# exactly the signature of the defect (right name, c:type and <type>; value = the integer as written,
# i.e. not wrapped at all); anything else is reported under the exact input.  Typedef chains and
# `unsigned long long` were repaired in /repo (ecb96bb, 6ff1643) and are judged with no suppression.
PLATFORM_KEY = 'const-unwrapped:platform-width'
PENDING_FINDINGS = [
    (PLATFORM_KEY,
     "constants of the platform-width unsigned types gulong, gsize, guintptr (and their C spellings unsigned "
     "long, size_t, uintptr_t, ulong) are emitted unwrapped: '#define FOO_X ((gsize) -1)' gives value=\"-1\" "
     '(no branch of the wrap chain in _create_const tests TYPE_ULONG / TYPE_SIZE / TYPE_UINTPTR)'),
]


CONTAINERS = {'GList', 'GSList', 'GByteArray', 'GArray', 'GPtrArray', 'GHashTable', 'GStrv'}

NAMESPACES = [
    ('Foo', ['Foo'], ['foo']),
    ('Foo', ['Foo'], ['foo']),
    ('Foo', ['Foo'], ['foo']),
    ('FooBar', ['FooBar'], ['foo_bar']),
    ('Gtk', ['Gtk', 'Gdk'], ['gtk', 'gdk']),
    ('Xy', ['Xy'], ['xy_']),
    ('Ab', ['Ab', 'AbC'], ['ab', 'ab_c']),
]
WORDS = ['RED', 'GREEN', 'BLUE', 'DARK', 'LIGHT', 'NONE', 'ALL', 'A', 'B', 'C', 'X1', '2D', 'MODE', 'FLAG', 'READ',
         'WRITE', 'EXEC', 'LAST', 'FIRST', 'Mixed', 'lower', 'BARX', 'BARY', 'BAR', 'TYPE', 'Z9', 'E', 'EE']


def impl_types():
    return scanpipe.mods().ast.type_names


# ------------------------------------------------------------------------------- type specs
def type_json(t):
    """C type string -> scanpipe type JSON (pointers as real pointer nodes)"""
    depth = 0
    while t.endswith('*') and t not in impl_types():
        t = t[:-1]
        depth += 1
    return scanpipe.P(scanpipe.T(t), depth) if depth else scanpipe.T(t)


# ------------------------------------------------------------------------------- generators
def gen_value(rng):
    r = rng.random()
    if r < 0.35:
        k = rng.choice([0, 1, 7, 8, 15, 16, 31, 32, 63, 64])
        v = (1 << k) + rng.choice([-2, -1, 0, 1, 2])
        if rng.random() < 0.4:
            v = -v
    elif r < 0.6:
        v = rng.randint(-300, 300)
    elif r < 0.8:
        v = rng.randint(-(1 << 63), (1 << 64) - 1)
    else:
        v = rng.choice([-1, 0, 1, -(1 << 63), (1 << 63) - 1, (1 << 64) - 1, 255, 256, 65535, 65536, (1 << 32) - 1,
                        1 << 32, -128, -32768, -(1 << 31)])
    return max(-(1 << 63), min(v, (1 << 64) - 1))


def gen_enum(rng, ns, idx):
    nsname, idp, symp = ns
    up = symp[0].upper().rstrip('_')
    style = rng.choice(['shared', 'shared', 'shared', 'shared2', 'unshared', 'unshared_ns', 'single', 'empty',
                        'wordprefix', 'partial', 'emptyword', 'lowercase', 'privbreak', 'hidden', 'mixedcase',
                        'noprefix', 'dup'])
    n = rng.choice([2, 2, 3, 3, 4, 5, 6, 8, 12, 20, 40]) if rng.random() < 0.9 else rng.randint(0, 40)
    typeword = rng.choice(['COLOR', 'MODE', 'FLAGS', 'KIND', 'E%d' % idx, 'SOME_TYPE'])
    base = up + '_' + typeword
    idents = []

    def tails(k):
        out = []
        seen = set()
        while len(out) < k:
            t = '_'.join(rng.choice(WORDS) for _ in range(rng.choice([1, 1, 1, 2, 3])))
            if rng.random() < 0.3:
                t += str(len(out))
            if t not in seen and not any(o_is_word_prefix(t, u) or o_is_word_prefix(u, t) for u in out):
                seen.add(t)
                out.append(t)
        return out
    if style == 'shared':
        idents = [base + '_' + t for t in tails(n)]
    elif style == 'shared2':
        mid = rng.choice(WORDS)
        idents = [base + '_' + mid + '_' + t for t in tails(n)]
        if n and rng.random() < 0.5:
            idents[rng.randrange(n)] = base + '_' + rng.choice(WORDS) + 'Q_X'
    elif style == 'unshared':
        idents = [rng.choice([up, 'BAR', 'OTHER', up]) + '_' + t for t in tails(n)]
        if n >= 2:
            idents[0] = 'ZZZ_' + idents[0]
    elif style == 'unshared_ns':
        # every member carries a namespace prefix but no leading word is shared
        ups = [p.upper().rstrip('_') for p in symp]
        variants = ups + [p.rstrip('_') for p in symp] + ['_' + ups[0]]
        idents = [rng.choice(variants) + '_' + t for t in tails(n)]
        if n >= 2:
            idents[0] = ups[0] + '_' + idents[0].split('_', 1)[1] if not idents[0].startswith('_') else idents[0]
            idents[1] = symp[0].rstrip('_') + '_' + 'q' + str(idx)
    elif style == 'single':
        idents = [base + '_' + t for t in tails(1)]
        if rng.random() < 0.3:
            idents = [rng.choice(['BAR_ONLY', up, up + '_', '_' + up + '_H'])]
    elif style == 'empty':
        idents = []
    elif style == 'wordprefix':
        idents = [base + '_' + t for t in tails(max(n, 2))]
        i = rng.randrange(len(idents))
        idents.insert(rng.randrange(len(idents) + 1), rng.choice([base, idents[i] + '_MORE', base + '_',
                                                                   idents[i].rsplit('_', 1)[0]]))
    elif style == 'partial':
        idents = [base + 'X_' + t for t in tails(n // 2)] + [base + 'Y_' + t for t in tails(n - n // 2)]
        rng.shuffle(idents)
    elif style == 'emptyword':
        idents = [base + '__' + t for t in tails(n)]
        if n and rng.random() < 0.5:
            idents[rng.randrange(n)] = base + '_' + 'SOLO%d' % idx
    elif style == 'lowercase':
        idents = [base.lower() + '_' + t.lower() for t in tails(n)]
    elif style == 'privbreak':
        idents = [base + '_' + t for t in tails(max(n, 2))]
    elif style == 'hidden':
        idents = ['_' + base + '_' + t for t in tails(n)]
        if n and rng.random() < 0.5:
            idents[rng.randrange(n)] = base + '_PUBLIC'
    elif style == 'mixedcase':
        idents = [rng.choice([base, base.lower(), base.title()]) + '_' + t for t in tails(n)]
    elif style == 'noprefix':
        idents = ['%s_%s' % (rng.choice(['BAR', 'X', 'q']), t) for t in tails(n)]
    elif style == 'dup':
        idents = [base + '_' + t for t in tails(max(n, 1))]
        idents.append(rng.choice(idents))
    members = []
    v = -1
    for i, ident in enumerate(idents):
        v = v + 1 if rng.random() < 0.6 else gen_value(rng)
        members.append({'name': ident, 'value': v, 'private': rng.random() < 0.12})
    if style == 'privbreak':
        j = rng.randrange(len(members))
        members[j]['name'] = up + '_PRIV%d_%s' % (idx, rng.choice(WORDS))
        members[j]['private'] = rng.random() < 0.8
    r = rng.random()
    tname = idp[0] + typeword.title().replace('_', '') + str(idx)
    if r < 0.08:
        tname = rng.choice(['Bar', 'x', '_']) + tname       # foreign / hidden identifier
    elif r < 0.1:
        tname = '_' + tname
    form = rng.choice(['typedef_tag', 'typedef_anon', 'typedef_anon', 'tagged'])
    return {'d': 'enum', 'form': form, 'name': tname, 'bitfield': rng.random() < 0.3, 'members': members,
            'style': style}


# ------------------------------------------------------------------------------- GType-registered enums / flags
# An enumeration that has a foo_..._get_type() function is described a second time by the runtime dump
# (<enum>/<flags> with <member name= nick= value=>; value printed from GEnumValue.value with %d / from
# GFlagsValue.value with %u).  GDumpParser._introspect_enum replaces the scanned node; the property still
# speaks about the header: identifier, exact value (not the 32-bit dump number) and name.
REG_WORDS = ['NONE', 'CLOSE', 'KEEP', 'OPEN', 'ASYNC', 'NO', 'BUFFER', 'READ', 'WRITE', 'ONLY', 'ALL', 'X1', 'A', 'B',
             'LAST', 'FIRST', 'MODE', 'FROM', 'END']


def as_int32(v):
    v &= 0xffffffff
    return v - (1 << 32) if v & (1 << 31) else v


def camel_to_upper(s):
    out = ''
    for i, ch in enumerate(s):
        if ch.isupper() and i and not s[i - 1].isupper():
            out += '_'
        out += ch.upper()
    return out


def registered_dump(d, repr_):
    """the dump entry glib-mkenums-style registration gives for header enum `d`: nick = identifier minus the
    words shared by all members, lower-cased, '_' -> '-'"""
    idents = [m['name'] for m in d['members']]
    shared = o_shared_words(idents) if len(idents) >= 2 else []
    pre = '_'.join(shared) + '_' if shared else ''
    ms = []
    for m in d['members']:
        v = m['value']
        ms.append({'name': m['name'], 'nick': m['name'][len(pre):].lower().replace('_', '-'),
                   'value': as_int32(v) if repr_ == 'signed' or v < 0 else v & 0xffffffff})
    return {'tag': 'flags' if d.get('bitfield') else 'enum', 'repr': repr_, 'members': ms}


def gen_registered_enum(rng, ns, idx):
    nsname, idp, symp = ns
    up = symp[0].upper().rstrip('_')
    bitfield = rng.random() < 0.5
    camel = rng.choice(['Stream', 'Seek', 'Reg', 'IoMode', 'Open']) + ('Flags' if bitfield else rng.choice(['Mode', 'Kind', 'Type']))
    tname = idp[0] + camel + str(idx)
    base = up + '_' + camel_to_upper(camel) + str(idx)
    n = rng.choice([2, 3, 3, 4, 5, 8])
    tails = []
    while len(tails) < n:
        k = rng.choice([1, 1, 2, 2, 3])
        if len(tails) == 0:
            k = 1                       # a single-word control
        elif len(tails) == 1:
            k = rng.choice([2, 3])      # a multi-word member (nick with '-')
        t = '_'.join(rng.choice(REG_WORDS) for _ in range(k))
        if t not in tails and not any(o_is_word_prefix(t, u) or o_is_word_prefix(u, t) for u in tails):
            tails.append(t)
    rng.shuffle(tails)
    members = []
    v = -1
    for t in tails:
        r = rng.random()
        if bitfield:
            if r < 0.45:
                v = 1 << rng.randrange(0, 31)
            elif r < 0.55:
                v = 0
            elif r < 0.8:
                v = (1 << 31) | rng.choice([0, 1, 2, 1 << 30, rng.randrange(0, 1 << 31)])
            else:
                v = rng.choice([(1 << 32) - 1, (1 << 31) - 1, 3, 0x7fffffff, 0xf0000000])
        else:
            if r < 0.5:
                v = v + 1 if -(1 << 31) <= v + 1 < (1 << 32) else 0
            elif r < 0.6:
                v = rng.randint(-(1 << 31), -1)
            elif r < 0.85:
                v = rng.randint(1 << 31, (1 << 32) - 1)
            else:
                v = rng.choice([1 << 31, (1 << 31) + 1, (1 << 32) - 1, (1 << 31) - 1, -1, -(1 << 31)])
        members.append({'name': base + '_' + t, 'value': v, 'private': False})
    if rng.random() < 0.7:
        # make sure a multi-word member carries a value whose signed 32-bit form is negative
        multi = [m for m in members if m['name'][len(base) + 1:].count('_')]
        if multi:
            rng.choice(multi)['value'] = (1 << 31) | rng.choice([0, 1, 5, rng.randrange(0, 1 << 31)])
    d = {'d': 'enum', 'form': rng.choice(['typedef_tag', 'typedef_anon', 'typedef_anon']), 'name': tname,
         'bitfield': bitfield, 'members': members, 'style': 'registered',
         'get_type': '%s_%s%d_get_type' % (symp[0].rstrip('_'), camel_to_upper(camel).lower(), idx)}
    d['dump'] = registered_dump(d, rng.choice(['signed', 'unsigned']) if bitfield else 'signed')
    if rng.random() < 0.06:
        # a hand-written nick that is not derived from the identifier: outside the statement
        j = rng.randrange(len(members))
        d['dump']['members'][j]['nick'] = 'custom-%d' % j
    return d


def gen_registered_case(rng, keys):
    ns = rng.choice([NAMESPACES[0], NAMESPACES[0], NAMESPACES[3], NAMESPACES[4], NAMESPACES[5]])
    decls = [gen_registered_enum(rng, ns, i) for i in range(rng.choice([1, 1, 2]))]
    if rng.random() < 0.3:
        e = gen_enum(rng, ns, 7)            # an unregistered neighbour
        if e['name'] not in [d['name'] for d in decls]:
            decls.insert(rng.randrange(len(decls) + 1), e)
    if rng.random() < 0.3:
        decls.append(gen_const(rng, ns, 0, keys, [], []))
    return {'namespace': ns[0], 'id_prefixes': ns[1], 'sym_prefixes': ns[2], 'decls': decls}


def dump_agrees(d):
    """the dump lists exactly the header's members, in order, under the nicks derived from the identifiers,
    with the 32-bit image of each value, and with the tag matching the flags marking"""
    du = d.get('dump')
    if du is None:
        return True
    for r in ('signed', 'unsigned'):
        ref = registered_dump(d, r)
        if ref['tag'] == du.get('tag') and ref['members'] == du.get('members'):
            return True
    return False


def dump_xml_of(case):
    out = []
    for d in case['decls']:
        if d['d'] == 'enum' and d.get('dump') is not None:
            du = d['dump']
            out.append('  <%s name="%s" get-type="%s">' % (du['tag'], d['name'], d['get_type']))
            for mm in du['members']:
                out.append('    <member name="%s" nick="%s" value="%d"/>' % (mm['name'], mm['nick'], mm['value']))
            out.append('  </%s>' % du['tag'])
    if not out:
        return None
    return '\n'.join(['<?xml version="1.0"?>', '<dump>'] + out + ['</dump>'])


def gen_typedefs(rng, ns, keys):
    """typedef chains: depth-1 aliases of type_names keys, then aliases of aliases"""
    nsname, idp, symp = ns
    out = []
    names = []
    for i in range(rng.randint(0, 5)):
        r = rng.random()
        if names and r < 0.45:
            target = rng.choice(names)
        elif r < 0.47:
            target = idp[-1] + 'Missing%d' % i      # a name of this namespace that is never declared
        elif r < 0.49 and len(idp) > 1:
            target = idp[1] + 'T%d' % i             # undeclared; under idp[0] its stripped name is the typedef's own
        else:
            target = rng.choice(keys)
            if rng.random() < 0.05:
                target += '*'
        r = rng.random()
        if target == idp[-1] + 'T%d' % i and len(idp) > 1:
            name = '%sT%d' % (idp[0], i)
        elif r < 0.85:
            name = '%sT%d' % (rng.choice(idp), i)
        elif r < 0.9:
            name = 'OtherT%d' % i          # foreign: dropped with a warning
        elif r < 0.95:
            name = idp[0] + rng.choice(['int', 'guint8', 'utf8', 'X_autoptr'])   # filtered by _create_typedef
        else:
            name = '_%sT%d' % (idp[0], i)
        if name in names:
            continue
        names.append(name)
        out.append({'d': 'typedef', 'name': name, 'target': target})
    return out


def gen_const(rng, ns, idx, keys, typedef_names, enum_names):
    nsname, idp, symp = ns
    up = symp[0].upper().rstrip('_')
    r = rng.random()
    if r < 0.82:
        name = '%s_C%d_%s' % (rng.choice([p.upper().rstrip('_') for p in symp]), idx, rng.choice(WORDS).upper())
    elif r < 0.86:
        name = '%s_c%d' % (symp[0].rstrip('_'), idx)
    elif r < 0.9:
        name = 'BAR_C%d' % idx
    elif r < 0.94:
        name = '_%s_C%d' % (up, idx)
    elif r < 0.96:
        name = up + '_'
    else:
        name = rng.choice([up, 'C%d' % idx, up.title() + '_C%d' % idx])
    d = {'d': 'const', 'name': name}
    r = rng.random()
    if r < 0.08:
        d['file'] = rng.choice(['/src/foo.c', None, '/src/foo.hh', '/src/h', '/src/foo.H', '.h'])
    elif r < 0.15:
        d['file'] = rng.choice(['/src/other.h', '/src/a b.h', '/src/x.c.h'])
    kind = rng.choice(['int'] * 12 + ['string', 'string', 'bool', 'double', 'double'])
    if kind == 'int':
        d['int'] = gen_value(rng)
        r = rng.random()
        if r < 0.6:
            d['type'] = rng.choice(keys)
        elif r < 0.85 and typedef_names:
            d['type'] = rng.choice(typedef_names)
        elif r < 0.88 and enum_names:
            d['type'] = rng.choice(enum_names)
        elif r < 0.9:
            d['type'] = rng.choice(['FooUnknown', 'Unknown', 'bool', '_Bool', 'guint8*', 'char**', idp[0] + 'Nope'])
        else:
            d['type'] = None
    elif kind == 'string':
        alphabet = 'abc XYZ09_"\'<>&;%\\/éß中😀\n\t\r'   # C string escapes \n \t \r arrive decoded
        d['string'] = ''.join(rng.choice(alphabet) for _ in range(rng.randint(0, 12)))
        if rng.random() < 0.2:
            d['type'] = rng.choice(['char*', 'gchar*'])
    elif kind == 'bool':
        d['bool'] = rng.random() < 0.5
    else:
        d['double'] = rng.choice([0.0, 1.5, -2.25, 3.14159265358979, 1e10, -1e-7, 123456.789, 0.1, 2.0 ** 40,
                                  rng.uniform(-1e6, 1e6)])
        if rng.random() < 0.2:
            d['type'] = rng.choice(['gfloat', 'gdouble', 'float'])
    return d


def gen_case(rng, keys, kind=None):
    ns = rng.choice(NAMESPACES)
    kind = kind or rng.choice(['enums', 'consts', 'mixed'])
    decls = []
    tds = gen_typedefs(rng, ns, keys) if kind != 'enums' else []
    decls.extend(tds)
    enums = []
    if kind in ('enums', 'mixed'):
        for i in range(rng.choice([1, 1, 2, 3])):
            enums.append(gen_enum(rng, ns, i))
    decls.extend(enums)
    if kind in ('consts', 'mixed'):
        tnames = [t['name'] for t in tds]
        enames = [e['name'] for e in enums]
        for i in range(rng.randint(1, 10)):
            decls.append(gen_const(rng, ns, i, keys, tnames, enames))
        if rng.random() < 0.1 and decls:
            decls.append(dict(rng.choice([d for d in decls if d['d'] == 'const']), int=7))   # duplicate constant
    return {'namespace': ns[0], 'id_prefixes': ns[1], 'sym_prefixes': ns[2], 'decls': decls}


# ------------------------------------------------------------------------------- running the real code
def to_scanpipe(case):
    decls = []
    for i, d in enumerate(case['decls']):
        line = i + 1
        if d['d'] == 'enum':
            members = [{'name': m['name'], 'value': m['value'], 'private': m.get('private', False)}
                       for m in d['members']]
            form = d.get('form', 'typedef_anon')
            if form == 'tagged':
                decls.append({'d': 'enum', 'name': d['name'], 'members': members, 'bitfield': d.get('bitfield', False),
                              'line': line})
            else:
                tag = '_' + d['name'] if form == 'typedef_tag' else None
                decls.append({'d': 'typedef', 'name': d['name'], 'line': line,
                              'type': {'k': 'enum', 'n': tag, 'members': members,
                                       'bitfield': d.get('bitfield', False)}})
            if d.get('get_type'):
                decls.append({'d': 'function', 'name': d['get_type'], 'ret': {'k': 'typedef', 'n': 'GType'},
                              'params': [], 'line': line})
        elif d['d'] == 'typedef':
            decls.append({'d': 'typedef', 'name': d['name'], 'type': type_json(d['target']), 'line': line})
        else:
            c = {'d': 'const', 'name': d['name'], 'line': line}
            if 'file' in d:
                c['file'] = d['file']
            for k in ('int', 'string', 'bool', 'double'):
                if d.get(k) is not None:
                    c[k] = d[k]
            if d.get('type'):
                c['type'] = type_json(d['type'])
            decls.append(c)
    cfg = {'namespace': case['namespace'], 'id_prefixes': case['id_prefixes'], 'sym_prefixes': case['sym_prefixes'],
           'decls': decls}
    dump = dump_xml_of(case)
    if dump is not None:
        cfg['dump'] = dump
    return cfg


class ScanTimeout(BaseException):
    """the real scanner did not come back (BaseException: nothing inside the scanner swallows it)"""


SCAN_TIMEOUT_S = 30


def _scan_with_timeout(cfg):
    """scanpipe.scan under an interval timer: a scan that hangs is a failure of the real code on this
    input (reported by the oracle as a crash), not a harness timeout"""
    def on_alarm(signum, frame):
        raise ScanTimeout()
    try:
        prev = signal.signal(signal.SIGALRM, on_alarm)
    except ValueError:                      # not the main thread: no timer available
        return scanpipe.scan(cfg)
    signal.setitimer(signal.ITIMER_REAL, SCAN_TIMEOUT_S)
    try:
        return scanpipe.scan(cfg)
    finally:
        signal.setitimer(signal.ITIMER_REAL, 0)
        signal.signal(signal.SIGALRM, prev)


def run_impl(case):
    """-> {'fatal': kind} | {'nodes': {c:type: record}, 'warnings': [text]}"""
    try:
        res = _scan_with_timeout(to_scanpipe(case))
    except ScanTimeout:
        return {'fatal': 'exception:ScanTimeout: the scanner did not finish within %d s' % SCAN_TIMEOUT_S}
    except SystemExit as e:
        return {'fatal': 'conflict' if 'Namespace conflict' in str(e) else 'exit:' + str(e)[:80]}
    except IndexError:
        return {'fatal': 'index_error'}
    except AssertionError:
        return {'fatal': 'assertion'}
    except Exception as e:  # noqa: the scanner crashed; judged by the oracle, not a harness fault
        return {'fatal': 'exception:%s: %s' % (type(e).__name__, str(e)[:200])}
    warnings = [str(w['text']) for w in res['warnings'] if str(w['text']).startswith('Unknown namespace for')]
    root = ET.fromstring(res['gir'].encode('utf-8'))
    nsel = root.find(Q('namespace'))
    nodes = {}
    order = []
    for el in nsel:
        tag = el.tag.split('}')[1]
        if tag in ('enumeration', 'bitfield'):
            rec = {'kind': tag, 'name': el.get('name'), 'ctype': el.get(Q('c:type')),
                   'members': [[m.get('name'), m.get('value'), m.get(Q('c:identifier'))]
                               for m in el.findall(Q('member'))]}
        elif tag == 'constant':
            ty = el.find(Q('type'))
            rec = {'kind': 'constant', 'name': el.get('name'), 'value': el.get('value'),
                   'ctype': el.get(Q('c:type')),
                   'tname': ty.get('name') if ty is not None else None,
                   'tctype': ty.get(Q('c:type')) if ty is not None else None}
        elif tag == 'alias':
            rec = {'kind': 'alias', 'name': el.get('name'), 'ctype': el.get(Q('c:type'))}
        else:
            rec = {'kind': tag, 'name': el.get('name'), 'ctype': el.get(Q('c:type'))}
        nodes.setdefault(rec['ctype'], rec)
        order.append(rec['ctype'])
    return {'nodes': nodes, 'warnings': warnings, 'order': order}


def model_request(case):
    decls = []
    for d in case['decls']:
        if d['d'] == 'enum':
            decls.append({'d': 'enum', 'name': d['name'], 'bitfield': d.get('bitfield', False),
                          'members': [{'name': m['name'], 'value': m['value'], 'private': m.get('private', False)}
                                      for m in d['members']]})
        elif d['d'] == 'typedef':
            decls.append({'d': 'typedef', 'name': d['name'], 'target': d['target']})
        else:
            decls.append({'d': 'const', 'name': d['name'], 'file': d.get('file', '/src/ns.h'),
                          'string': d.get('string'), 'int': d.get('int'), 'bool': d.get('bool'),
                          'double': d.get('double') is not None, 'type': d.get('type') or None})
    return {'op': 'c13.parse', 'id_prefixes': case['id_prefixes'], 'sym_prefixes': case['sym_prefixes'],
            'decls': decls}


def model_canon(m):
    if 'fatal' in m:
        return {'fatal': m['fatal']['err']}
    nodes = {}
    for n in m['nodes']:
        if n['kind'] in ('enumeration', 'bitfield'):
            attrs = dict(map(tuple, n['attrs']))
            rec = {'kind': n['kind'], 'name': attrs['name'], 'ctype': attrs['c:type'],
                   'members': [[dict(map(tuple, a))[k] for k in ('name', 'value', 'c:identifier')]
                               for a in n['members']],
                   'attr_order': [[a[0] for a in mm] for mm in n['members'][:1]]}
        elif n['kind'] == 'constant':
            rec = {k: n[k] for k in ('kind', 'name', 'value', 'ctype', 'tname', 'tctype')}
        else:
            rec = {'kind': 'alias', 'name': n['name'], 'ctype': n['ctype']}
        nodes.setdefault(rec['ctype'], rec)
    warnings = []
    for w in m['warnings']:
        what = 'symbol' if w['err'] == 'unknown_symbol' else 'identifier'
        warnings.append("Unknown namespace for %s '%s'" % (what, w['name']))
    return {'nodes': nodes, 'warnings': warnings}


def compare(impl, model, case):
    """-> None or a description of the first difference"""
    if 'fatal' in impl or 'fatal' in model:
        return None if impl.get('fatal') == model.get('fatal') else 'fatal: impl=%r model=%r' % (
            impl.get('fatal'), model.get('fatal'))
    doubles = set(d['name'] for d in case['decls'] if d['d'] == 'const' and d.get('double') is not None
                  and d.get('string') is None and d.get('int') is None and d.get('bool') is None)
    if sorted(impl['nodes']) != sorted(model['nodes']):
        return 'emitted c:types differ: impl=%r model=%r' % (sorted(impl['nodes']), sorted(model['nodes']))
    for k, a in impl['nodes'].items():
        b = dict(model['nodes'][k])
        b.pop('attr_order', None)
        a = dict(a)
        if a['kind'] == 'constant' and b.get('value') is None and k in doubles:
            a['value'] = None            # '%f' formatting is validated by the oracle only
        if a != b:
            return 'node %s: impl=%r model=%r' % (k, a, b)
    if impl['warnings'] != model['warnings']:
        return 'warnings: impl=%r model=%r' % (impl['warnings'], model['warnings'])
    return None


# ------------------------------------------------------------------------------- oracle (from the statement)
def o_words(s):
    return s.split('_')


def o_is_word_prefix(a, b):
    wa, wb = o_words(a), o_words(b)
    return len(wa) <= len(wb) and wb[:len(wa)] == wa


def o_shared_words(idents):
    ws = [o_words(i) for i in idents]
    shared = []
    for column in zip(*ws):
        if any(w != column[0] for w in column):
            break
        shared.append(column[0])
    return shared


def o_ascii_ident(s):
    return s != '' and all(c in 'abcdefghijklmnopqrstuvwxyzABCDEFGHIJKLMNOPQRSTUVWXYZ0123456789_' for c in s) \
        and not s[0].isdigit()


def o_ns_strip(ident, symp):
    """ident minus the namespace symbol prefix (upper-cased for upper-case identifiers), or None"""
    if ident.startswith('_') or not ident:
        return None
    for p in symp:
        p = p if p.endswith('_') else p + '_'
        if ident[0].isupper():
            p = p.upper()
        if ident.startswith(p):
            return ident[len(p):]
    return None


def o_id_strip(ident, idp):
    if ident.startswith('_'):
        return None
    for p in idp:
        if ident.startswith(p):
            return ident[len(p):]
    return None


def oracle_enum(ctx, cnt, case, d, impl, key_base):
    """judge one enumeration of the case on the implementation's output"""
    idents = [m['name'] for m in d['members']]
    if not all(o_ascii_ident(i) for i in idents) or not o_ascii_ident(d['name']):
        return 'outside:non-identifier'
    if len(set(idents)) != len(idents):
        return 'outside:duplicate-member'
    for i, a in enumerate(idents):
        for j, b in enumerate(idents):
            if i != j and o_is_word_prefix(a, b):
                return 'outside:word-prefix'
    if not dump_agrees(d):
        # the statement speaks about the header; a runtime registration that names its values differently
        # (hand-written nicks, other members) is not what it quantifies over
        return 'outside:dump-differs-from-header'
    ename = o_id_strip(d['name'], case['id_prefixes'])
    others = [x for x in case['decls'] if x is not d and x['d'] != 'const' and x['name'] == d['name']]
    if others:
        return 'outside:name-clash'
    public = [m for m in d['members'] if not m.get('private')]
    shared = o_shared_words(idents) if len(idents) >= 2 else []
    if shared:
        pre = '_'.join(shared) + '_'
        names = [m['name'][len(pre):].lower() for m in public]
        branch = 'prefix'
    else:
        if any(m['name'].startswith('_') for m in public):
            return 'outside:hidden-member-in-fallback'
        stripped = [o_ns_strip(m['name'], case['sym_prefixes']) for m in public]
        if any(s is None for s in stripped):
            # the statement's fallback presupposes the namespace prefix; what we do check: the
            # enumeration is dropped with a warning rather than emitted with made-up names
            if 'fatal' in impl:
                return 'outside:fatal'
            if d['name'] in impl['nodes'] or not any('Unknown namespace for symbol' in w for w in impl['warnings']):
                ctx.report_failure('enum-fallback:' + json.dumps([case['sym_prefixes'], d], sort_keys=True),
                                   'enumeration %s whose members share no word and lack the namespace prefix was '
                                   'emitted (%r) or dropped silently (warnings %r)'
                                   % (d['name'], impl['nodes'].get(d['name']), impl['warnings']),
                                   {'kind': 'case', 'case': case})
                return 'fail'
            return 'outside:no-namespace-prefix(warned)'
        names = [s.lower() for s in stripped]
        branch = 'fallback'
    if ename is None or ename == '':
        if 'fatal' not in impl and (d['name'] in impl['nodes'] or
                                    (ename is None and not any('Unknown namespace for identifier' in w
                                                               for w in impl['warnings']))):
            if not d['name'].startswith('_'):
                ctx.report_failure('enum-foreign:' + json.dumps([case['id_prefixes'], d['name']]),
                                   'enumeration %s outside the namespace was emitted or dropped silently' % d['name'],
                                   {'kind': 'case', 'case': case})
                return 'fail'
        return 'outside:foreign-enum-name'
    if 'fatal' in impl:
        return 'outside:fatal'
    want = {'kind': 'bitfield' if d.get('bitfield') else 'enumeration', 'name': ename, 'ctype': d['name'],
            'members': [[n, str(m['value']), m['name']] for n, m in zip(names, public)]}
    got = impl['nodes'].get(d['name'])
    if got != want:
        ctx.report_failure('enum:' + json.dumps([case['id_prefixes'], case['sym_prefixes'], d], sort_keys=True),
                           'enumeration %s: the GIR has %r, the property requires %r' % (d['name'], got, want),
                           {'kind': 'case', 'case': case, 'decl': d, 'got': got, 'required': want})
        return 'fail'
    return 'ok:' + branch + (':registered-' + d['dump']['tag'] if d.get('dump') else '')


def o_resolve(t, case, upto, depth=0):
    """follow typedefs declared before position `upto` down to a fundamental type name"""
    tn = impl_types()
    if '*' in t:
        return 'unregistered', depth              # pointer types are outside the statement's "integer type alias"
    if t in tn:
        return tn[t].target_fundamental, depth
    if depth > 10:
        return None, depth
    for x in case['decls'][:upto]:
        if x['d'] == 'typedef' and x['name'] == t:
            n = o_id_strip(t, case['id_prefixes'])
            if not n or n in tn or n.endswith('_autoptr'):
                return 'unregistered', depth      # a typedef the scanner does not describe as an alias
            return o_resolve(x['target'], case, upto, depth + 1)
    return None, depth


def oracle_const(ctx, cnt, case, pos, d, impl):
    name = d['name']
    if not o_ascii_ident(name):
        return 'outside:non-identifier'
    if name.startswith('_'):
        return 'outside:hidden'
    f = d.get('file', '/src/ns.h')
    if f is None or not f.endswith('.h'):
        return 'outside:not-a-header'
    if 'fatal' in impl:
        return 'outside:fatal'
    stripped = o_ns_strip(name, case['sym_prefixes'])
    if stripped is None:
        if name in impl['nodes'] or not any("'%s'" % name in w for w in impl['warnings']):
            ctx.report_failure('const-foreign:' + json.dumps([case['sym_prefixes'], name]),
                               'constant %s outside the namespace was emitted or dropped silently' % name,
                               {'kind': 'case', 'case': case})
            return 'fail'
        return 'outside:no-namespace-prefix(warned)'
    if stripped == '':
        return 'outside:empty-name'
    if [x['name'] for x in case['decls']].count(name) > 1:
        return 'outside:duplicate'
    got = impl['nodes'].get(name)
    t = d.get('type')
    if d.get('string') is not None:
        want = {'value': d['string'], 'tname': 'utf8'}
        kind = 'string'
    elif d.get('int') is not None:
        v = d['int']
        if t is None:
            want = {'value': str(v), 'tname': 'gint', 'tctype': 'gint'}
            kind = 'int:plain'
        else:
            if '*' in t or t in CONTAINERS or t in ('bool', '_Bool'):
                return 'outside:pointer-or-container-type'
            fund, depth = o_resolve(t, case, pos)
            want = {'tctype': t}
            if fund == 'unregistered':
                return 'outside:typedef-not-an-alias'
            if fund is None:
                want['value'] = str(v)
                kind = 'int:unknown-type'
            elif '*' in fund or impl_types()[t].target_fundamental != fund if t in impl_types() else False:
                return 'outside:odd-type'
            else:
                if depth == 0:
                    want['tname'] = fund
                width = FIXED_UNSIGNED.get(fund) or PLATFORM_UNSIGNED.get(fund)
                if width:
                    want['value'] = str(v % (1 << width))
                    kind = 'int:unsigned%d%s' % (width, ':alias%d' % depth if depth else '')
                else:
                    want['value'] = str(v)
                    kind = 'int:signed%s' % (':alias%d' % depth if depth else '')
                if got is not None and got.get('value') != want['value'] and width:
                    # a recorded class only when the GIR shows exactly its signature: everything right
                    # except that the integer was emitted as written (not wrapped at all)
                    signature = got.get('value') == str(v) and got.get('ctype') == name and \
                        got.get('name') == stripped and \
                        all(got.get(k) == val for k, val in want.items() if k != 'value')
                    if signature and fund in PLATFORM_UNSIGNED:
                        key = PLATFORM_KEY
                    else:
                        key = 'const:' + json.dumps([d, case['decls'][:pos]], sort_keys=True)
                    ctx.report_failure(key, 'constant %s of type %s (= %s through %d typedefs) has value=%r; the '
                                       'property requires %r (0 <= value < 2**%d, congruent to %d)'
                                       % (name, t, fund, depth, got.get('value'), want['value'], width, v),
                                       {'kind': 'case', 'case': case, 'decl': d, 'got': got, 'required': want})
                    cnt.hit('oracle:const:unwrapped-class:' + (key if key.startswith('const-unwrapped:') else 'none'))
                    return 'known-or-fail:' + kind
    elif d.get('bool') is not None:
        want = {'value': 'true' if d['bool'] else 'false', 'tname': 'gboolean'}
        kind = 'bool'
    else:
        want = {'tname': 'gdouble'}
        kind = 'double'
    bad = got is None or got.get('ctype') != name or got.get('name') != stripped or \
        any(got.get(k) != val for k, val in want.items())
    if not bad and kind == 'double':
        try:
            bad = abs(float(got['value']) - d['double']) > 5.1e-7
        except (TypeError, ValueError):
            bad = True
    if bad:
        ctx.report_failure('const:' + json.dumps([d, case['decls'][:pos]], sort_keys=True),
                           'constant %s: the GIR has %r, the property requires c:type=%r name=%r and %r'
                           % (name, got, name, stripped, want),
                           {'kind': 'case', 'case': case, 'decl': d, 'got': got, 'required': want})
        return 'fail'
    return 'ok:' + kind


def judge_case(ctx, cnt, case, impl):
    if str(impl.get('fatal', '')).startswith('exception:'):
        cnt.hit('oracle:crash')
        ctx.report_failure('crash:' + json.dumps(case, sort_keys=True),
                           'the scanner pipeline raised %s on a namespace of enumerations/constants'
                           % impl['fatal'][len('exception:'):], {'kind': 'case', 'case': case})
        return
    for pos, d in enumerate(case['decls']):
        if d['d'] == 'enum':
            v = oracle_enum(ctx, cnt, case, d, impl, None)
            cnt.hit('oracle:enum:' + v)
        elif d['d'] == 'const':
            v = oracle_const(ctx, cnt, case, pos, d, impl)
            cnt.hit('oracle:const:' + v)


# ------------------------------------------------------------------------------- direct function level
class _Obj(object):
    pass


def fake_enum_symbol(idents):
    sym = _Obj()
    sym.base_type = _Obj()
    kids = []
    for i in idents:
        k = _Obj()
        k.ident = i
        k.private = False
        kids.append(k)
    sym.base_type.child_list = kids
    return sym


FALLBACK = object()


def call_prefix(ctx, tr, idents, private_ok):
    """Transformer._enum_common_prefix is private: guard against it disappearing or changing"""
    if not private_ok['prefix']:
        return FALLBACK
    try:
        r = tr._enum_common_prefix(fake_enum_symbol(idents))
        if r is not None and not isinstance(r, str):
            raise TypeError('returned %r' % (r, ))
        return r
    except (AttributeError, TypeError) as e:
        private_ok['prefix'] = False
        ctx.broken.append('correspondence c13.prefix: Transformer._enum_common_prefix has changed: %r' % (e, ))
        return FALLBACK


def gen_ident_list(rng):
    alphabet = rng.choice(['AB_', 'AB_', 'ab_AB', 'A_', 'AB_é', 'A_0'])
    n = rng.choice([0, 1, 2, 2, 2, 3, 3, 4, 6])
    out = []
    base = ''.join(rng.choice(alphabet) for _ in range(rng.randint(0, 5)))
    for _ in range(n):
        r = rng.random()
        if r < 0.6:
            out.append(base + ''.join(rng.choice(alphabet) for _ in range(rng.randint(0, 4))))
        elif r < 0.8 and out:
            out.append(rng.choice(out) + rng.choice(['', '_', '_A', 'A', '__']))
        else:
            out.append(''.join(rng.choice(alphabet) for _ in range(rng.randint(0, 6))))
    return out


def shrink_case(case):
    """one-declaration-removed and one-member-removed neighbours"""
    out = []
    ds = case['decls']
    for i in range(len(ds)):
        out.append(dict(case, decls=ds[:i] + ds[i + 1:]))
        if ds[i]['d'] == 'enum':
            ms = ds[i]['members']
            for j in range(len(ms)):
                out.append(dict(case, decls=ds[:i] + [dict(ds[i], members=ms[:j] + ms[j + 1:])] + ds[i + 1:]))
    return out[:150]


# ------------------------------------------------------------------------------- run
def run(ctx):
    cnt = Counter()
    for key, what in PENDING_FINDINGS:
        ctx.known.append({'property': 'C13', 'status': 'known', 'key': key, 'what': what, 'pending': True})
    ctx.log('regenerating tables, building and auditing the proofs')
    ctx.prove(['gen_typenames', 'gen_enumconst'], ['GIVerif.Props.C13'], 'GIVerif.Props.C13')
    ctx.log('proofs done: %s' % ('ok' if not ctx.broken else ctx.broken[:2]))
    m = scanpipe.mods()
    rng = ctx.rng
    keys = sorted(k for k in impl_types() if k not in CONTAINERS)
    samples = []

    corpus = []
    cpath = os.path.join(VERIF, 'corpus', 'C13')
    if os.path.isdir(cpath):
        for fn in sorted(os.listdir(cpath)):
            if fn.endswith('.json'):
                with open(os.path.join(cpath, fn)) as f:
                    corpus.extend(json.load(f))

    # ---- (a) whole-pipeline cases: corpus, then every type_names key, then the seeded stream
    cases = [c['case'] for c in corpus if c.get('kind') == 'case']
    ncorpus = len(cases)
    # every key of type_names, directly and through one and two typedefs, at -1 and at a large value
    sweep = []
    for i, k in enumerate(keys):
        decls = [{'d': 'typedef', 'name': 'FooA', 'target': k}, {'d': 'typedef', 'name': 'FooB', 'target': 'FooA'},
                 {'d': 'typedef', 'name': 'FooC', 'target': 'FooB'}]
        for j, (t, v) in enumerate([(k, -1), (k, gen_value(rng)), ('FooA', -1), ('FooA', gen_value(rng)),
                                    ('FooB', -1), (k, (1 << 64) - 1), (k, -(1 << 63)), ('FooB', gen_value(rng)),
                                    ('FooC', -1), ('FooC', gen_value(rng))]):
            decls.append({'d': 'const', 'name': 'FOO_K%d' % j, 'int': v, 'type': t})
        sweep.append({'namespace': 'Foo', 'id_prefixes': ['Foo'], 'sym_prefixes': ['foo'], 'decls': decls})
    cases.extend(sweep)
    n_cases = ctx.n(2200, 60000)
    while len(cases) < ncorpus + len(sweep) + n_cases:
        cases.append(gen_case(rng, keys))
    # GType-registered enumerations / flags (runtime dump merged by the real GDumpParser), after the main stream
    n_reg = ctx.n(300, 6000)
    for _ in range(n_reg):
        cases.append(gen_registered_case(rng, keys))
    ndecl = 0
    model_out = ctx.driver.batch([model_request(c) for c in cases])
    disagreeing = []
    merge_reqs = []
    for c, mo in zip(cases, model_out):
        impl = run_impl(c)
        judge_case(ctx, cnt, c, impl)
        ndecl += len(c['decls'])
        for d in c['decls']:
            cnt.hit('decl:' + d['d'] + (':' + d['style'] if 'style' in d else ''))
            if d['d'] == 'enum':
                cnt.hit('enum:members=%s' % ('0' if not d['members'] else '1' if len(d['members']) == 1 else
                                             '2-5' if len(d['members']) <= 5 else '6-40'))
                cnt.hit('enum:form=' + d.get('form', 'typedef_anon'))
        cnt.hit('case:' + ('fatal:' + impl['fatal'] if 'fatal' in impl else 'gir'))
        cnt.case(c, nontrivial=bool(c['decls']))
        for d in c['decls']:
            if d['d'] == 'enum' and d.get('dump'):
                multi = [mm for mm, hm in zip(d['dump']['members'], d['members'])
                         if '-' in mm['nick'] and mm['value'] != hm['value']]
                cnt.hit('registered:%s:%s:%s' % (d['dump']['tag'], d['dump'].get('repr'),
                                                 'multiword-nick-with-wrapped-value' if multi else 'plain'))
        mc = model_canon(mo)
        for d in c['decls']:
            # the dump-merge step on its own: model mergeDump(scanned members per the model, dump members) against
            # the members the real GDumpParser left in the GIR (also for dumps that differ from the header)
            if d['d'] == 'enum' and d.get('dump') and 'fatal' not in impl and 'fatal' not in mc and \
                    d['name'] in mc['nodes'] and d['name'] in impl['nodes'] and \
                    [x['name'] for x in c['decls']].count(d['name']) == 1:
                merge_reqs.append(({'op': 'c13.dump_merge',
                                    'prev': [{'name': a, 'value': int(b), 'cident': i}
                                             for a, b, i in mc['nodes'][d['name']]['members']],
                                    'dump': d['dump']['members']}, impl['nodes'][d['name']].get('members'), c))
        if not all(dump_agrees(d) for d in c['decls'] if d['d'] == 'enum'):
            continue            # the model describes the header; it applies when the dump is the header's image
        diff = compare(impl, model_canon(mo), c)
        if diff:
            disagreeing.append(c)
            if len(disagreeing) <= 3:
                ctx.broken.append('correspondence c13.parse differs: %s  case=%s' % (diff, json.dumps(c)[:1500]))
    samples.append({'op': 'parse', 'case': cases[-1]})
    nd = 0
    for (req, got, c), mo in zip(merge_reqs, ctx.driver.batch([r[0] for r in merge_reqs])):
        cnt.hit('dump_merge:' + ('same' if mo == got else 'differs'))
        if mo != got:
            nd += 1
            if nd <= 3:
                ctx.broken.append('correspondence c13.dump_merge differs: impl=%r model=%r case=%s'
                                  % (got, mo, json.dumps(c)[:1500]))
    ctx.log('pipeline cases done: %d cases, %d declarations, %d disagreements' % (len(cases), ndecl, len(disagreeing)))
    # failing-input search in the neighbourhood of disagreements
    for c in disagreeing[:5]:
        for sc in shrink_case(c):
            judge_case(ctx, cnt, sc, run_impl(sc))
            cnt.hit('search:shrunk')

    # ---- (b) _enum_common_prefix directly, on arbitrary strings (malformed stream)
    tr = m.transformer.Transformer(m.ast.Namespace('Foo', '1.0'))
    private_ok = {'prefix': callable(getattr(tr, '_enum_common_prefix', None)),
                  'strip': callable(getattr(tr, '_strip_symbol', None)) and
                  isinstance(getattr(m.transformer, 'TransformerException', None), type)}
    if not private_ok['prefix']:
        ctx.broken.append('correspondence c13.prefix: Transformer._enum_common_prefix no longer exists')
    if not private_ok['strip']:
        ctx.broken.append('correspondence c13.strip_symbol: Transformer._strip_symbol / TransformerException no '
                          'longer exists')
    lists = [c['idents'] for c in corpus if c.get('kind') == 'prefix']
    n_lists = ctx.n(3000, 120000)
    while len(lists) < n_lists:
        lists.append(gen_ident_list(rng))
    exhaustive_note = None
    if ctx.tier == 'thorough':
        # exhaustive small scope: every pair of strings of length <= 4 and every triple of strings of
        # length <= 3 over the alphabet {A, B, _}
        import itertools
        s4 = [''.join(t) for n in range(5) for t in itertools.product('AB_', repeat=n)]
        s3 = [x for x in s4 if len(x) <= 3]
        lists.extend([a, b] for a in s4 for b in s4)
        lists.extend([a, b, c] for a in s3 for b in s3 for c in s3)
        exhaustive_note = ('_enum_common_prefix: all %d pairs of strings of length <= 4 and all %d triples of '
                           'strings of length <= 3 over {A,B,_}' % (len(s4) ** 2, len(s3) ** 3))
    mp = ctx.driver.batch([{'op': 'c13.prefix', 'idents': l} for l in lists])
    nd = 0
    for l, mo in zip(lists, mp):
        impl = call_prefix(ctx, tr, l, private_ok)
        if impl is FALLBACK:
            # the private entry point is gone or has changed: drive the same behaviour through the public
            # pipeline (an enumeration with these members) and judge it with the statement oracle
            if len(l) >= 1 and all(o_ascii_ident(i) for i in l):
                fc = {'namespace': 'Foo', 'id_prefixes': ['Foo'], 'sym_prefixes': ['foo'],
                      'decls': [{'d': 'enum', 'name': 'FooFallback', 'form': 'typedef_anon', 'bitfield': False,
                                 'members': [{'name': i, 'value': k, 'private': False} for k, i in enumerate(l)]}]}
                judge_case(ctx, cnt, fc, run_impl(fc))
                cnt.hit('prefix:fallback-through-pipeline')
            continue
        cnt.hit('prefix:' + ('none' if impl is None else 'empty' if impl == '' else 'some'))
        cnt.case(['p', l], nontrivial=len(l) >= 2)
        if impl != mo:
            nd += 1
            if nd <= 3:
                ctx.broken.append('correspondence c13.prefix differs: idents=%r impl=%r model=%r' % (l, impl, mo))
        # statement oracle: >= 2 members, none a word-prefix of another => shared whole words + '_'
        ok_q = len(l) >= 2 and all(l) and not any(o_is_word_prefix(a, b) for i, a in enumerate(l)
                                                  for j, b in enumerate(l) if i != j)
        if ok_q:
            shared = o_shared_words(l)
            want = '_'.join(shared) + '_' if shared else None
            cnt.hit('oracle:prefix:' + ('shared' if shared else 'unshared'))
            if (impl or None) != want:
                ctx.report_failure('prefix:' + json.dumps(l), '_enum_common_prefix(%r) = %r; the property requires %r'
                                   % (l, impl, want), {'kind': 'prefix', 'idents': l, 'impl': impl, 'required': want})
            # independent of member order
            l2 = list(l)
            rng.shuffle(l2)
            impl2 = call_prefix(ctx, tr, l2, private_ok)
            if impl2 is not FALLBACK and (impl2 or None) != (impl or None):
                ctx.report_failure('prefix-order:' + json.dumps(l), '_enum_common_prefix depends on member order: %r '
                                   '-> %r, %r -> %r' % (l, impl, l2, impl2),
                                   {'kind': 'prefix', 'idents': l, 'impl': impl, 'shuffled': l2, 'impl2': impl2})
    samples.append({'op': 'prefix', 'idents': lists[-1]})

    # ---- (c) _strip_symbol directly
    strip_cases = []
    n_strip = ctx.n(1500, 40000)
    while len(strip_cases) < n_strip:
        ns = rng.choice(NAMESPACES)
        p = rng.choice(ns[2])
        ident = rng.choice(['', '_', '__']) if rng.random() < 0.03 else \
            rng.choice([p, p.upper(), p.title(), 'bar', 'BAR', '_' + p.upper(), '_' + p, p.rstrip('_')]) + \
            rng.choice(['_', '', '__', '_x', 'x']) + ''.join(rng.choice('aA_1') for _ in range(rng.randint(0, 4)))
        strip_cases.append((ns, ident))
    ms = ctx.driver.batch([{'op': 'c13.strip_symbol', 'sym_prefixes': ns[2], 'ident': i} for ns, i in strip_cases])
    nd = 0
    for (ns, ident), mo in zip(strip_cases, ms):
        if not private_ok['strip']:
            break
        scanpipe.install_logger(None)
        tr2 = m.transformer.Transformer(m.ast.Namespace(ns[0], '1.0', identifier_prefixes=ns[1],
                                                        symbol_prefixes=ns[2]))
        s = _Obj()
        s.ident = ident
        try:
            impl = {'ok': tr2._strip_symbol(s)}
        except m.transformer.TransformerException as e:
            impl = {'error': 'unknown_symbol' if 'Unknown namespace for symbol' in str(e) else str(e)}
        except IndexError:
            impl = {'error': 'index_error'}
        except (AttributeError, TypeError) as e:
            private_ok['strip'] = False
            ctx.broken.append('correspondence c13.strip_symbol: Transformer._strip_symbol has changed: %r' % (e, ))
            break
        got = {'ok': mo['ok']} if 'ok' in mo else {'error': mo['error']['err']}
        cnt.hit('strip:' + ('ok' if 'ok' in impl else impl['error']))
        cnt.case(['s', ns[2], ident], nontrivial=len(ident) > 2)
        if impl != got:
            nd += 1
            if nd <= 3:
                ctx.broken.append('correspondence c13.strip_symbol differs: prefixes=%r ident=%r impl=%r model=%r'
                                  % (ns[2], ident, impl, got))
    samples.append({'op': 'strip_symbol', 'ident': strip_cases[-1][1], 'sym_prefixes': strip_cases[-1][0][2]})

    ctx.coverage.update({
        'evaluations': ndecl + len(lists) + len(strip_cases) + cnt.counts.get('search:shrunk', 0),
        'distinct_nontrivial': cnt.n_distinct(),
        'rule': 'seeded generators: namespaces (1-2 identifier/symbol prefixes) holding typedef chains over every key '
                'of ast.type_names, 1-3 enumerations (0-40 members; shared / two-level shared / unshared / partially '
                'shared words, empty words, word-prefix members, private members incl. one breaking the prefix, hidden, '
                'lower and mixed case, duplicates; negative and 64-bit values; typedef of tagged/anonymous enum and '
                'tagged enum symbol; bitfield flag) and 1-10 constants (int with every type_names key / aliases of '
                'aliases / enum / unknown / pointer type or none, values around every power-of-two boundary; strings '
                'with quotes and non-ASCII; booleans; doubles; with/without namespace prefix, hidden, non-.h file, '
                'duplicates), each run through the real pipeline to GIR text and through the model; GType-registered '
                'enums and flags (get_type function + dump <enum>/<flags> through the real GDumpParser: single- and '
                'multi-word members i.e. nicks with "-", values on both sides of 2**31 up to 2**32-1 and negative, dump '
                'numbers signed (%d) and unsigned (%u), a few hand-written nicks counted outside; directed cases in '
                'corpus/C13/registered_enums.json); a sweep of every '
                'type_names key x {direct, 1, 2, 3 typedefs}; typedefs of undeclared names (also one that resolves to the typedef itself through a second identifier prefix); ident lists over small alphabets for '
                '_enum_common_prefix; _strip_symbol on prefix look-alikes. non-trivial = non-empty declaration list / '
                '>= 2 idents / ident longer than 2; distinct by content hash. Every case: model vs real code, and '
                'the statement oracle on the real code.',
        'samples': samples,
        'distribution': cnt.counts,
        'corpus_cases': len(corpus),
        'pipeline_cases': len(cases),
        'pending_findings': [k for k, _ in PENDING_FINDINGS],
        'exhaustive': False,
        'exhaustive_small_scope': exhaustive_note,
    })
    ctx.assumptions.extend([
        'identifiers are what the C lexer can deliver: [a-zA-Z_][a-zA-Z_0-9]* (pattern re-read from scannerlexer.l '
        'every run); on them str.lower/upper/isupper are the ASCII maps of the model; namespace prefixes are ASCII',
        'one namespace without includes, non-empty identifier and symbol prefix lists, no --symbol-filter-cmd / '
        '--identifier-filter-cmd, accept_unprefixed off',
        "the C lexer/parser is not run: inputs start at the symbol stream (enum symbols reach _create_enum through "
        "typedefs in the real lexer; the tagged CSYMBOL_TYPE_ENUM form is exercised as well)",
        'registered enumerations: the dump lists the header\'s members in declaration order under nicks derived from '
        'the identifiers (identifier minus the shared words, lower-cased, "_" -> "-") with the 32-bit image of each '
        'value; registrations with hand-written nicks or other members are outside the statement (counted, and still '
        'compared with the model of the merge step)',
        "double constants: '%f' formatting is not modelled; the oracle checks type gdouble and |value - x| <= 5e-7",
        'declared types of integer constants are C type strings without GLib container names / GStrv; theorems '
        'about ranges assume no pointer stars in the declared type and in alias targets (correspondence covers them)',
        'no namespace node is named like a fundamental type (so _resolve_type_from_ctype leaves fundamental '
        'types alone); value annotations on constants belong to C03',
        'platform-width unsigned types (gulong, gsize, guintptr) are judged at the widths ctypes measures on the '
        'running platform (%s); `unsigned long long` is 64 bits on every ABI GLib supports' % (
            ', '.join('%s=%d' % kv for kv in sorted(PLATFORM_UNSIGNED.items())), ),
    ])


def replay(ctx, rep):
    for key, what in PENDING_FINDINGS:
        ctx.known.append({'property': 'C13', 'status': 'known', 'key': key, 'what': what, 'pending': True})
    cnt = Counter()
    r = rep['replay']
    m = scanpipe.mods()
    if r['kind'] == 'case':
        impl = run_impl(r['case'])
        print('impl=%s' % json.dumps({k: v for k, v in impl.items() if k != 'order'}, sort_keys=True)[:3000])
        judge_case(ctx, cnt, r['case'], impl)
        for v in ctx.violations:
            print('FAILS: ' + v['what'][:800])
        for h in ctx.known_hits:
            print('KNOWN-FINDING: property=C13 %s [%s]' % (h['what'], h['key']))
        return 1 if ctx.violations else 0
    if r['kind'] == 'prefix':
        tr = m.transformer.Transformer(m.ast.Namespace('Foo', '1.0'))
        impl = call_prefix(ctx, tr, r['idents'], {'prefix': callable(getattr(tr, '_enum_common_prefix', None))})
        if impl is FALLBACK:
            print('Transformer._enum_common_prefix no longer exists/has changed')
            return 1
        print('impl=%r required=%r' % (impl, r.get('required')))
        return 0 if (impl or None) == r.get('required') else 1
    return 2
