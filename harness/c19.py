"""C19 — Library names resolve to the right shared objects or fail loudly.

Proof: lean/GIVerif/Props/C19.lean over the model lean/GIVerif/Model/Shlibs.lean.
Tie: (1) translators gen_pyclasses/gen_shlibs re-read the regexes and CPython character
classes; (2) correspondence of matcher, resolver and dlname extraction with the real
giscanner.shlibs / giscanner.utils on generated listings; (3) an oracle written from
the property statement (plain string operations, no regex) evaluated on the REAL
implementation's output for every case — that is the failing-input search.
"""
import io
import itertools
import json
import os
import sys

from core import REPO, Counter

LIBCHARS = 'abcdefghijklmnopqrstuvwxyzABCDEFGHIJKLMNOPQRSTUVWXYZ0123456789_-'
SEPCHARS = '.+~=,:;@%^!#$&*()[]{}|\\<>?"\'`é中'
NAME_POOL = ['foo', 'bar', 'pango', 'pangoft2', 'pango-1.0', 'pangoft2-1.0', 'gobject-2.0', 'glib-2.0',
             'a+b', 'x.y', 'lib', 'foo_bar', 'foo-bar', 'stdc++', 'z', 'GL', 'café', 'f', 'libfoo',
             'fo', 'oo', 'foo2', 'X11', 'a(b', 'a[b', 'a\\b', 'a|b', 'a*', '.', '^', '$', 'foo.so', '(?i)foo']


def impl_setup():
    if REPO not in sys.path:
        sys.path.insert(0, REPO)
    from giscanner import shlibs, utils  # noqa
    return shlibs, utils


# ---------------------------------------------------------------- oracle (from the statement)
def spec_basename(path):
    return path.rsplit('/', 1)[-1]


def spec_matches(name, word):
    """base name is lib<name> followed by a character other than letter, digit, _ or -"""
    base = spec_basename(word)
    pre = 'lib' + name
    if not base.startswith(pre) or len(base) <= len(pre):
        return False
    c = base[len(pre)]
    return not (c in LIBCHARS)


def spec_words(output):
    words = []
    for line in output.splitlines():
        if line.endswith(':'):
            continue
        words.extend(line.split())
    return words


def spec_resolve(libs, files, output):
    """Returns ('ok', [basenames]) / ('unresolved', set(names)) / None when the case is outside
    the property's quantifier (a listed file could satisfy two requests, or a name has '/')."""
    reqs = []
    for l in libs:
        if l not in files and l not in reqs:
            reqs.append(l)
    if any('/' in r for r in reqs):
        return None
    words = spec_words(output)
    for w in words:
        if sum(1 for r in reqs if spec_matches(r, w)) > 1:
            return None
    first = {}
    for i, w in enumerate(words):
        for r in reqs:
            if r not in first and spec_matches(r, w):
                first[r] = i
    missing = [r for r in reqs if r not in first]
    if missing:
        return ('unresolved', sorted(missing))
    return ('ok', [spec_basename(words[i]) for i in sorted(first.values())])


# ---------------------------------------------------------------- generators
def gen_name(rng):
    r = rng.random()
    if r < 0.7:
        return rng.choice(NAME_POOL)
    n = rng.randint(1, 6)
    return ''.join(rng.choice(LIBCHARS + '.+' if rng.random() < 0.8 else SEPCHARS) for _ in range(n))


def gen_word_for(rng, name):
    """a word related to `name`: matching, near-miss, or in a look-alike directory"""
    kind = rng.random()
    dirs = ['', '/usr/lib/', '/usr/lib/x86_64-linux-gnu/', './', '@rpath/', 'lib' + name + '.d/',
            '/opt/lib' + name + '.so/', 'lib', '/lib' + name + '/', '/a b/'.replace(' ', '_'), '//', '/']
    d = rng.choice(dirs)
    if kind < 0.45:
        sep = rng.choice('.....+~=' + SEPCHARS)
        rest = rng.choice(['so', 'so.0', 'so.1.2.3', 'dylib', '0.dylib', 'a', '', 'so.0 ', 'la'])
        return d + 'lib' + name + sep + rest.strip()
    if kind < 0.7:
        cont = rng.choice(LIBCHARS) + rng.choice(['', 'x', '-1.0', 'ft2-1.0'])
        return d + 'lib' + name + cont + '.so.0'
    if kind < 0.8:
        return d + 'liblib' + name + '.so'
    if kind < 0.9:
        return d + 'lib' + name            # nothing after the name
    return d + name + '.so'


def gen_listing(rng, names):
    lines = []
    style = rng.choice(['ldd', 'ldd', 'otool', 'mixed', 'noise'])
    pool = list(names) + [gen_name(rng) for _ in range(rng.randint(0, 3))]
    if rng.random() < 0.3:
        lines.append(rng.choice(['/tmp/tmp-introspect/Foo-1.0:', '\t/tmp/x/libfoo.so.0:', 'binary: ', 'a.out:']))
    for _ in range(rng.randint(0, 8)):
        nm = rng.choice(pool) if pool else 'c'
        w = gen_word_for(rng, nm)
        if style == 'ldd' or (style == 'mixed' and rng.random() < 0.5):
            base = w.rsplit('/', 1)[-1]
            if rng.random() < 0.15:
                lines.append('\t%s => not found' % base)
            else:
                path = w if '/' in w else '/usr/lib/' + w
                lines.append('\t%s => %s (0x%08x)' % (base, path, rng.getrandbits(32)))
        elif style == 'otool' or style == 'mixed':
            lines.append('\t%s (compatibility version 1.0.0, current version 1.2.3)' % w)
        else:
            lines.append(' '.join(rng.choice([w, 'linux-vdso.so.1', '=>', '(0x1)', 'lib', ':', w + ':'])
                                  for _ in range(rng.randint(0, 4))))
        if rng.random() < 0.08:
            lines.append(rng.choice(['', ' ', 'libfoo.so:', 'statically linked', '\tlibc.so.6 => /lib/libc.so.6 (0x1)']))
    rng.shuffle(lines) if rng.random() < 0.3 else None
    sep = rng.choice(['\n'] * 8 + ['\r\n', '\x0b', ' ', '\r', '\x1c\n'])
    out = sep.join(lines)
    if rng.random() < 0.7:
        out += '\n'
    if rng.random() < 0.05:
        out = out.replace(' ', ' ', 1)
    return out


def gen_case(rng):
    k = rng.choice([0, 1, 1, 2, 2, 3, 4])
    libs = [gen_name(rng) for _ in range(k)]
    if libs and rng.random() < 0.15:
        libs.append(rng.choice(libs))          # duplicate request
    if libs and rng.random() < 0.2:
        # prefix/suffix-related names
        b = rng.choice(libs)
        libs.append(rng.choice([b + '2', b + '-1.0', b[:-1] or 'q', 'lib' + b, b + 'ft2']))
    files = []
    if libs and rng.random() < 0.15:
        f = rng.choice(libs)                   # an existing file with that name: skipped by the resolver
        if '/' not in f and f not in ('.', '..') and '\x00' not in f:
            files.append(f)
    return {'libs': libs, 'files': files, 'output': gen_listing(rng, libs)}


def mutants(case, rng):
    """one-edit neighbours of a case, for the failing-input search around a disagreement"""
    out = []
    o = case['output']
    for i in range(len(o)):
        out.append(dict(case, output=o[:i] + o[i + 1:]))
    for i, l in enumerate(case['libs']):
        out.append(dict(case, libs=case['libs'][:i] + case['libs'][i + 1:]))
    lines = o.split('\n')
    for i in range(len(lines)):
        out.append(dict(case, output='\n'.join(lines[:i] + lines[i + 1:])))
    rng.shuffle(out)
    return out[:200]


# ---------------------------------------------------------------- running the real code
def impl_resolve(shlibs, case, scratch):
    cwd = os.getcwd()
    os.chdir(scratch)
    try:
        for f in os.listdir('.'):
            os.unlink(f)
        for f in case['files']:
            if '/' not in f and f not in ('.', '..') and '\x00' not in f:
                open(f, 'w').close()
        try:
            res = shlibs.resolve_from_ldd_output(list(case['libs']), case['output'])
            return {'ok': [shlibs.sanitize_shlib_path(x) for x in res]}
        except SystemExit as e:
            return {'exit': str(e)}
    finally:
        os.chdir(cwd)


def model_to_impl_shape(r):
    if 'ok' in r:
        return {'ok': r['ok']}
    return {'exit': "ERROR: can't resolve libraries to shared libraries: " + ', '.join(r['unresolved'])}


def check_oracle(ctx, case, impl):
    spec = spec_resolve(case['libs'], case['files'], case['output'])
    if spec is None:
        return 'outside'
    if spec[0] == 'ok':
        good = impl.get('ok') == spec[1]
    else:
        msg = impl.get('exit')
        good = msg is not None and msg.startswith("ERROR: can't resolve libraries")
        if good:
            named = msg.split(': ', 1)[1] if ': ' in msg else ''
            good = all(m in named for m in spec[1])
    if not good:
        key = 'resolve:' + json.dumps(case, sort_keys=True)
        ctx.report_failure(key, 'resolve_from_ldd_output gives %r where the property requires %r for libs=%r output=%r'
                           % (impl, spec, case['libs'], case['output']),
                           {'kind': 'resolve', 'case': case, 'impl': impl, 'required': spec})
    return spec[0]


def run(ctx):
    cnt = Counter()
    ctx.prove(['gen_pyclasses', 'gen_shlibs'], ['GIVerif.Props.C19'], 'GIVerif.Props.C19')
    shlibs, utils = impl_setup()
    rng = ctx.rng
    scratch = os.path.join(ctx.scratch, 'cwd')
    os.makedirs(scratch)
    samples = []

    # ---- corpus first
    corpus = []
    cpath = os.path.join(os.path.dirname(os.path.dirname(os.path.abspath(__file__))), 'corpus', 'C19')
    if os.path.isdir(cpath):
        for fn in sorted(os.listdir(cpath)):
            with open(os.path.join(cpath, fn)) as f:
                corpus.extend(json.load(f))

    # ---- (a) matcher level
    n_match = ctx.n(4000, 150000)
    pairs = [(c['name'], c['word']) for c in corpus if c.get('kind') == 'match']
    while len(pairs) < n_match:
        nm = gen_name(rng)
        if rng.random() < 0.85:
            w = gen_word_for(rng, rng.choice([nm, nm, gen_name(rng)]))
        else:
            w = ''.join(rng.choice('lib/' + nm + '.-_2é+') for _ in range(rng.randint(0, 12)))
        if rng.random() < 0.1:
            i = rng.randint(0, len(w))
            w = w[:i] + rng.choice('/.-_axé\t ') + w[i:]
        if '\n' in w:
            continue
        pairs.append((nm, w))
    if ctx.tier == 'thorough':
        # exhaustive words over a small alphabet against two names
        alpha = 'libf/.-2'
        for L in range(0, 7):
            for t in itertools.product(alpha, repeat=L):
                w = ''.join(t)
                pairs.append(('f', w))
                pairs.append(('f.', w))
    model = ctx.driver.batch([{'op': 'c19.match', 'name': a, 'word': b} for a, b in pairs])
    n_dis = 0
    have_internal = hasattr(shlibs, '_ldd_library_pattern')
    if not have_internal:
        ctx.broken.append('correspondence c19.match: giscanner.shlibs._ldd_library_pattern no longer exists; '
                          'the matcher is exercised through resolve_from_ldd_output only')

    def impl_match(name, word):
        """the matcher as seen through the public function (one request, one-word listing)"""
        if have_internal:
            return shlibs._ldd_library_pattern(name).match(word) is not None
        if not word or any(ch.isspace() for ch in word) or word.endswith(':'):
            return None
        os.chdir(scratch)
        try:
            try:
                return len(shlibs.resolve_from_ldd_output([name], word)) == 1
            except SystemExit:
                return False
        finally:
            os.chdir(ctx.scratch)
    for (a, b), m in zip(pairs, model):
        impl = impl_match(a, b)
        if impl is None:
            continue
        cnt.hit('match:%s' % impl)
        cnt.case(['m', a, b], nontrivial=('lib' in b))
        if impl != m:
            n_dis += 1
            if n_dis <= 3:
                ctx.broken.append('correspondence c19.match differs: name=%r word=%r impl=%r model=%r' % (a, b, impl, m))
        # property oracle on the implementation (names without '/', words without whitespace)
        if '/' not in a and not any(ch.isspace() for ch in b):
            want = spec_matches(a, b)
            if impl != want:
                ctx.report_failure('match:' + json.dumps([a, b]),
                                   '_ldd_library_pattern(%r).match(%r) is %r; the property requires %r' % (a, b, impl, want),
                                   {'kind': 'match', 'name': a, 'word': b, 'impl': impl, 'required': want})
    samples.append({'op': 'match', 'name': pairs[-1][0], 'word': pairs[-1][1]})

    # ---- (b) resolver level
    n_res = ctx.n(2500, 120000)
    cases = [c['case'] for c in corpus if c.get('kind') == 'resolve']
    while len(cases) < n_res:
        cases.append(gen_case(rng))
    model = ctx.driver.batch([dict(op='c19.resolve', **c) for c in cases])
    disagreeing = []
    for c, m in zip(cases, model):
        impl = impl_resolve(shlibs, c, scratch)
        verdict = check_oracle(ctx, c, impl)
        cnt.hit('resolve:' + verdict + ':' + ('ok' if 'ok' in impl else 'exit'))
        cnt.hit('resolve:nlibs=%d' % len(c['libs']))
        cnt.case(['r', c], nontrivial=bool(c['libs']) and bool(c['output'].strip()))
        if impl != model_to_impl_shape(m):
            disagreeing.append(c)
            if len(disagreeing) <= 3:
                ctx.broken.append('correspondence c19.resolve differs: case=%r impl=%r model=%r' % (c, impl, m))
    samples.append({'op': 'resolve', 'case': cases[-1]})
    # failing-input search around disagreements
    for c in disagreeing[:5]:
        for mc in mutants(c, rng):
            impl = impl_resolve(shlibs, mc, scratch)
            check_oracle(ctx, mc, impl)
            cnt.hit('search:mutant')

    # ---- (c) libtool archives
    def random_dlname(r):
        # every character a shared-object name may be built from: letters, digits, '_', '-', '.', '+'
        alphabet = 'abzABZ059_-.+'
        return ''.join(r.choice(alphabet) for _ in range(r.randint(1, 12)))

    n_la = ctx.n(600, 20000)
    datas = [c['data'] for c in corpus if c.get('kind') == 'dlname']
    while len(datas) < n_la:
        nm = rng.choice(['libfoo.so.0', 'libfoo-1.0.so.0', 'a/libx.so', 'libz.so+', "x'y", '', 'lib foo', 'lib[x]^_`.so',
                         'café.so', 'libgst_plugin.so.0', 'libfoo_bar-2.0.so.3', 'libstdc++.so.6', '_lib.so', 'LIBX_Y.DLL',
                         'lib-x_.so.1.2.3', 'libZ9_z0-A.so', random_dlname(rng)])
        pieces = ["# libfoo.la - a libtool library file\n", "dlname='%s'\n" % nm, "library_names='x y z'\n",
                  "old_library='libfoo.a'\n", " dlname='%s'\n" % rng.choice(['second.so', nm]),
                  "dlname='%s'" % nm, "dlname=%s\n" % nm, "libdir='/usr/lib'\n", "dlname=''\n", "xdlname='q.so'\n"]
        k = rng.randint(0, 6)
        data = ''.join(rng.choice(pieces) for _ in range(k))
        datas.append(data)
    model = ctx.driver.batch([{'op': 'c19.dlname', 'data': d} for d in datas])
    la = os.path.join(ctx.scratch, 'x.la')
    n_dl = 0
    for d, m in zip(datas, model):
        with open(la, 'w', encoding='utf-8', newline='') as f:
            f.write(d)
        impl = utils.extract_libtool_shlib(la)
        cnt.hit('dlname:%s' % ('some' if impl is not None else 'none'))
        cnt.case(['d', d], nontrivial='dlname' in d)
        if impl != m:
            n_dl += 1
            if n_dl <= 3:
                ctx.broken.append('correspondence c19.dlname differs: data=%r impl=%r model=%r' % (d, impl, m))
        # oracle (statement: "libtool archives resolve to their dlname"): judged only on
        # well-formed archives = exactly one line mentions dlname=, it is dlname='<V>' with V a
        # plain file name
        lines = d.split('\n')[:-1]
        ment = [l for l in lines if 'dlname=' in l]
        if len(ment) == 1 and d.count('dlname=') == 1 and ment[0].startswith("dlname='") and ment[0].endswith("'"):
            v = ment[0][len("dlname='"):-1]
            if v and all(ch in LIBCHARS + '.+' for ch in v):
                cnt.hit('dlname:oracle')
                if impl != v:
                    ctx.report_failure('dlname:' + json.dumps(d),
                                       'extract_libtool_shlib gives %r for an archive whose dlname is %r' % (impl, v),
                                       {'kind': 'dlname', 'data': d, 'impl': impl, 'required': v})
    samples.append({'op': 'dlname', 'data': datas[-1]})

    # ---- (d) the glue: resolve_shlibs with .la and plain requests, ldd output through subprocess
    import types
    n_glue = ctx.n(400, 15000)
    glue = []
    ladir = os.path.join(ctx.scratch, 'la')
    os.makedirs(ladir)
    while len(glue) < n_glue:
        c = gen_case(rng)
        c['files'] = []
        la_names, la_datas = [], []
        for i in range(rng.choice([0, 0, 1, 1, 2])):
            nm = os.path.join(ladir, 'lib%s%d.la' % (rng.choice(['x', 'y', 'foo']), i))
            v = rng.choice(['libx.so.0', 'liby-1.0.so.3', 'lib+z.so', '', 'a/b.so'])
            data = rng.choice(["# gen\n", ""]) + rng.choice(["dlname='%s'\n" % v, "dlname='%s'\n" % v,
                                                             "old_library='libx.a'\n"]) + "libdir='/usr/lib'\n"
            la_names.append(nm)
            la_datas.append(data)
        libs = list(c['libs'])
        for nm in la_names:
            libs.insert(rng.randint(0, len(libs)), nm)
        glue.append({'libs': libs, 'files': [], 'output': c['output'], 'la_names': la_names, 'la_datas': la_datas})
    model = ctx.driver.batch([dict(op='c19.resolve_shlibs', **g) for g in glue])
    opts = types.SimpleNamespace(nolibtool=True, ldd_wrapper=None, libtool_path=None)
    real_subprocess = shlibs.subprocess
    n_gl = 0
    cwd = os.getcwd()
    os.chdir(scratch)
    try:
        for f in os.listdir('.'):
            os.unlink(f)
        for g, m in zip(glue, model):
            for nm, data in zip(g['la_names'], g['la_datas']):
                with open(nm, 'w', encoding='utf-8', newline='') as f:
                    f.write(data)
            shlibs.subprocess = types.SimpleNamespace(check_output=lambda args, _o=g['output']: _o.encode('utf-8'))
            try:
                try:
                    impl = {'ok': shlibs.resolve_shlibs(opts, types.SimpleNamespace(args=['/bin/true']), list(g['libs']))}
                except SystemExit as e:
                    impl = {'exit': str(e)}
            finally:
                shlibs.subprocess = real_subprocess
            cnt.hit('glue:' + ('ok' if 'ok' in impl else 'exit'))
            cnt.case(['g', g], nontrivial=bool(g['libs']))
            if impl != model_to_impl_shape(m):
                n_gl += 1
                if n_gl <= 3:
                    ctx.broken.append('correspondence c19.resolve_shlibs differs: case=%r impl=%r model=%r' % (g, impl, m))
            # statement oracle: every .la with a well-formed dlname contributes it; the others as (b)
            plain = [l for l in g['libs'] if not l.endswith('.la')]
            spec = spec_resolve(plain, [], g['output']) if plain else ('ok', [])
            want_la = []
            in_scope = spec is not None
            la_map = dict(zip(g['la_names'], g['la_datas']))
            for nm in [l for l in g['libs'] if l.endswith('.la')]:
                data = la_map[nm]
                ment = [l for l in data.split('\n') if 'dlname=' in l]
                if len(ment) == 1 and ment[0].startswith("dlname='") and ment[0].endswith("'") and \
                        ment[0][8:-1] and all(ch in LIBCHARS + '.+' for ch in ment[0][8:-1]):
                    want_la.append(ment[0][8:-1])
                else:
                    in_scope = False     # archive without a plain dlname: outside the quantifier
            if in_scope:
                cnt.hit('glue:oracle')
                if spec[0] == 'ok':
                    good = impl.get('ok') == want_la + spec[1]
                else:
                    good = 'exit' in impl and all(x in impl['exit'] for x in spec[1])
                if not good:
                    ctx.report_failure('glue:' + json.dumps(g, sort_keys=True),
                                       'resolve_shlibs gives %r; the property requires %r + %r for %r'
                                       % (impl, want_la, spec, g),
                                       {'kind': 'glue', 'case': g, 'impl': impl, 'required': [want_la, spec]})
    finally:
        os.chdir(cwd)
    samples.append({'op': 'resolve_shlibs', 'case': glue[-1]})

    ctx.coverage.update({
        'evaluations': len(pairs) + len(cases) + len(datas) + len(glue) + cnt.counts.get('search:mutant', 0),
        'distinct_nontrivial': cnt.n_distinct(),
        'rule': 'seeded generators: (name, word) pairs built around lib<name> with separator / continuation / '
                'look-alike-directory variants; ldd/otool/noise listings with related names, duplicates, existing '
                'files, header lines, exotic line separators; .la files. non-trivial = word contains "lib" / listing '
                'and request list non-empty / data mentions dlname; distinct by content hash. Every case: model vs '
                'real code, and the statement oracle on the real code.',
        'samples': samples,
        'distribution': cnt.counts,
        'corpus_cases': len(corpus),
        'exhaustive': False,
    })
    ctx.assumptions.extend([
        'os.path.isfile is a parameter of the model (the harness creates the files in a scratch cwd)',
        'macOS/Windows branches (absolute paths on darwin, resolve_windows_libs) are not modelled',
        "Python re: `$` before a trailing newline is not modelled (words from str.split() contain no newline)",
        'running ldd/otool itself (subprocess) is outside the model: the property starts at the listing text',
    ])


def replay(ctx, rep):
    shlibs, utils = impl_setup()
    r = rep['replay']
    if r['kind'] == 'match':
        if hasattr(shlibs, '_ldd_library_pattern'):
            impl = shlibs._ldd_library_pattern(r['name']).match(r['word']) is not None
        else:
            try:
                impl = len(shlibs.resolve_from_ldd_output([r['name']], r['word'])) == 1
            except SystemExit:
                impl = False
        want = spec_matches(r['name'], r['word'])
        print('impl=%r required=%r' % (impl, want))
        return 0 if impl == want else 1
    if r['kind'] == 'resolve':
        scratch = os.path.join(ctx.scratch, 'cwd')
        os.makedirs(scratch)
        impl = impl_resolve(shlibs, r['case'], scratch)
        print('impl=%r required=%r' % (impl, spec_resolve(r['case']['libs'], r['case']['files'], r['case']['output'])))
        check_oracle(ctx, r['case'], impl)
        return 1 if ctx.violations else 0
    return 2
