"""C07 — GIR files survive a read/write cycle unchanged.

Proof (lean/GIVerif/Props/C07.lean over lean/GIVerif/Model/GirCodec.lean): vocabulary
W ⊆ R over the table re-extracted from girwriter.py / girparser.py on every run
(translators/gen_girvocab_rw.py), type / parameter / callable round trip and the write
fixed point of the modelled fragment.

Validated here on the REAL code (this is the failing-input search, it does not need the model):
  * whole-file byte identity  w1 == w2 == w3  (w2 = write(parse(w1)), w3 = write(parse(w2)))
    through the public passthrough path (GIRParser().parse + GIRWriter, exactly what
    scannermain.passthrough_gir does, and Transformer.parse_from_gir + GIRWriter when the
    includes can be satisfied) for freshly scanned generated namespaces, for every *.gir in
    the repository and for the files produced by a write;
  * an AST-equality walk between the model that was written and the model read back;
  * pairs of namespaces, one including the other and naming its types in every position (PairGen: the including
    namespace's name a leading part of the included one's, the reverse, unrelated), judged the same way and also as
    a text the writer under test has not produced (judge_pair).
Tie of the Lean fragment model: generated Ty / parameter / callable values (functions, methods,
constructors, virtual methods, callbacks, signals) and member lists of records / unions (typed
fields with array lengths, fields holding a callback, anonymous struct / union members) are written
by the real GIRWriter and parsed by the real GIRParser and compared, as trees, with the model; the
member- and callable-level write fixed point is also judged on the real code alone.
"""
import copy
import glob
import io
import json
import os
import sys
import time
import traceback
import warnings

from core import REPO, VERIF, Counter

warnings.filterwarnings('ignore', category=DeprecationWarning)

import scanpipe  # noqa: E402
from scanpipe import T, P  # noqa: E402

# Failing inputs of the UNCHANGED tree, reported through ctx.report_failure (the integrator moves
# them to known_findings.json or commits a fix).  Keys are `class` keys: see classify_failure().
PENDING_FINDINGS = {}

GLIB_GIR = '''<?xml version="1.0"?>
<repository version="1.2" xmlns="http://www.gtk.org/introspection/core/1.0" xmlns:c="http://www.gtk.org/introspection/c/1.0" xmlns:glib="http://www.gtk.org/introspection/glib/1.0">
<namespace name="GLib" version="2.0" c:identifier-prefixes="G" c:symbol-prefixes="g,glib">
<alias name="Quark" c:type="GQuark"><type name="guint32" c:type="guint32"/></alias>
<alias name="Strv" c:type="GStrv"><type name="gpointer" c:type="gpointer"/></alias>
<record name="List" c:type="GList"/><record name="SList" c:type="GSList"/>
<record name="HashTable" c:type="GHashTable" glib:type-name="GHashTable" glib:get-type="g_hash_table_get_type" c:symbol-prefix="hash_table"/>
<record name="Error" c:type="GError" glib:type-name="GError" glib:get-type="g_error_get_type" c:symbol-prefix="error"/>
<record name="Array" c:type="GArray"/><record name="PtrArray" c:type="GPtrArray"/><record name="ByteArray" c:type="GByteArray"/>
<record name="Variant" c:type="GVariant"/>
<callback name="DestroyNotify" c:type="GDestroyNotify"><return-value transfer-ownership="none"><type name="none" c:type="void"/></return-value><parameters><parameter name="data" transfer-ownership="none"><type name="gpointer" c:type="gpointer"/></parameter></parameters></callback>
</namespace></repository>
'''
GOBJECT_GIR = '''<?xml version="1.0"?>
<repository version="1.2" xmlns="http://www.gtk.org/introspection/core/1.0" xmlns:c="http://www.gtk.org/introspection/c/1.0" xmlns:glib="http://www.gtk.org/introspection/glib/1.0">
<include name="GLib" version="2.0"/>
<namespace name="GObject" version="2.0" c:identifier-prefixes="G" c:symbol-prefixes="g">
<class name="Object" c:symbol-prefix="object" c:type="GObject" glib:type-name="GObject" glib:get-type="g_object_get_type" glib:type-struct="ObjectClass"/>
<class name="InitiallyUnowned" c:symbol-prefix="initially_unowned" parent="Object" c:type="GInitiallyUnowned" glib:type-name="GInitiallyUnowned" glib:get-type="g_initially_unowned_get_type"/>
<record name="ObjectClass" c:type="GObjectClass" glib:is-gtype-struct-for="Object"/>
<record name="TypeInterface" c:type="GTypeInterface"/>
<record name="TypeInstance" c:type="GTypeInstance"/>
<record name="TypeClass" c:type="GTypeClass"/>
<record name="Value" c:type="GValue" glib:type-name="GValue" glib:get-type="g_value_get_type" c:symbol-prefix="value"/>
<record name="Closure" c:type="GClosure" glib:type-name="GClosure" glib:get-type="g_closure_get_type" c:symbol-prefix="closure"/>
<callback name="Callback" c:type="GCallback"><return-value transfer-ownership="none"><type name="none" c:type="void"/></return-value></callback>
<alias name="Type" c:type="GType"><type name="gsize" c:type="gsize"/></alias>
</namespace></repository>
'''

GIO_GIR = '''<?xml version="1.0"?>
<repository version="1.2" xmlns="http://www.gtk.org/introspection/core/1.0" xmlns:c="http://www.gtk.org/introspection/c/1.0" xmlns:glib="http://www.gtk.org/introspection/glib/1.0">
<include name="GObject" version="2.0"/>
<namespace name="Gio" version="2.0" c:identifier-prefixes="G" c:symbol-prefixes="g">
<class name="Cancellable" c:symbol-prefix="cancellable" parent="GObject.Object" c:type="GCancellable" glib:type-name="GCancellable" glib:get-type="g_cancellable_get_type"/>
<interface name="AsyncResult" c:symbol-prefix="async_result" c:type="GAsyncResult" glib:type-name="GAsyncResult" glib:get-type="g_async_result_get_type"/>
<callback name="AsyncReadyCallback" c:type="GAsyncReadyCallback"><return-value transfer-ownership="none"><type name="none" c:type="void"/></return-value></callback>
</namespace></repository>
'''
CAIRO_GIR = '''<?xml version="1.0"?>
<repository version="1.2" xmlns="http://www.gtk.org/introspection/core/1.0" xmlns:c="http://www.gtk.org/introspection/c/1.0" xmlns:glib="http://www.gtk.org/introspection/glib/1.0">
<namespace name="cairo" version="1.0" c:identifier-prefixes="cairo" c:symbol-prefixes="cairo">
<record name="Context" c:type="cairo_t" foreign="1" glib:type-name="CairoContext" glib:get-type="cairo_gobject_context_get_type"/>
<record name="Surface" c:type="cairo_surface_t" foreign="1" glib:type-name="CairoSurface" glib:get-type="cairo_gobject_surface_get_type"/>
</namespace></repository>
'''

PROLOGUE = ('<?xml version="1.0" encoding="utf-8"?>\n'
            '<!-- This file was automatically generated from C sources - DO NOT EDIT!\n')


def setup_includes(scratch):
    inc = os.path.join(scratch, 'inc')
    os.makedirs(inc, exist_ok=True)
    with open(os.path.join(inc, 'GLib-2.0.gir'), 'w') as f:
        f.write(GLIB_GIR)
    with open(os.path.join(inc, 'GObject-2.0.gir'), 'w') as f:
        f.write(GOBJECT_GIR)
    # stand-ins so that Transformer.parse_from_gir can also be run on the repository's expected files
    # (only the NAMES of included namespaces matter on that path); used AFTER the repository's own directories
    with open(os.path.join(inc, 'Gio-2.0.gir'), 'w') as f:
        f.write(GIO_GIR)
    with open(os.path.join(inc, 'cairo-1.0.gir'), 'w') as f:
        f.write(CAIRO_GIR)
    return inc


# ------------------------------------------------------------------ the real read/write cycle
class CycleError(Exception):
    def __init__(self, stage, exc, tb):
        Exception.__init__(self, '%s: %r' % (stage, exc))
        self.stage = stage
        self.exc = exc
        self.tb = tb


def passthrough(path):
    """scannermain.passthrough_gir, with the namespace kept: (bytes, namespace)"""
    m = scanpipe.mods()
    parser = m.girparser.GIRParser()
    parser.parse(path)
    writer = m.girwriter.GIRWriter(parser.get_namespace())
    return writer.get_encoded_xml(), parser.get_namespace()


def passthrough_transformer(path, incdirs):
    """Transformer.parse_from_gir + GIRWriter.  Returns bytes, or None when an include cannot be found."""
    m = scanpipe.mods()
    scanpipe.install_logger(None)
    err = sys.stderr
    sys.stderr = io.StringIO()
    try:
        try:
            tr = m.transformer.Transformer.parse_from_gir(path, list(incdirs))
        except SystemExit:
            return None
    finally:
        sys.stderr = err
    return m.girwriter.GIRWriter(tr.namespace).get_encoded_xml()


def cycle_bytes(w1, name, scratch, incdirs=None, want_tr=True):
    """w1 (bytes) -> dict(w2, w3, ns1, ns2, tr).  ns1 = parse(w1), ns2 = parse(w2)."""
    d = os.path.join(scratch, 'cyc')
    os.makedirs(d, exist_ok=True)
    p1 = os.path.join(d, name)
    with open(p1, 'wb') as f:
        f.write(w1)
    try:
        w2, ns1 = passthrough(p1)
    except Exception as e:  # noqa
        raise CycleError('read/write of w1', e, traceback.format_exc())
    d2 = os.path.join(d, 'second')
    os.makedirs(d2, exist_ok=True)
    p2 = os.path.join(d2, name)
    with open(p2, 'wb') as f:
        f.write(w2)
    try:
        w3, ns2 = passthrough(p2)
    except Exception as e:  # noqa
        raise CycleError('read/write of w2', e, traceback.format_exc())
    res = {'w2': w2, 'w3': w3, 'ns1': ns1, 'ns2': ns2, 'tr': None}
    if want_tr and incdirs is not None:
        try:
            res['tr'] = passthrough_transformer(p1, incdirs)
        except Exception as e:  # noqa
            raise CycleError('Transformer.parse_from_gir of w1', e, traceback.format_exc())
    return res


def first_diff(a, b):
    """a compact description of the first differing line of two texts"""
    la = a.decode('utf-8', 'replace').split('\n')
    lb = b.decode('utf-8', 'replace').split('\n')
    for i in range(max(len(la), len(lb))):
        x = la[i] if i < len(la) else '<eof>'
        y = lb[i] if i < len(lb) else '<eof>'
        if x != y:
            ctx = [l.strip() for l in la[max(0, i - 3):i]]
            return {'line': i + 1, 'first': x.strip()[:160], 'second': y.strip()[:160], 'before': ctx}
    return None


# ------------------------------------------------------------------ histories on ONE reader object
# GIRParser is a reusable object: parse() / parse_tree() may be called any number of times and get_namespace()
# returns the model of the document read last.  A history is a sequence of documents read with one instance.
import re as _re

HEADER_LINE = _re.compile(r'^\s*<(include|package|c:include|doc:format)\b[^>]*/>\s*$')


def edit_header(text, spec):
    """A GIR text with another header: spec = None (unchanged) or a dict
    {'includes': [[name, version]...], 'packages': [...], 'c_includes': [...], 'doc_format': name|None,
     'drop_identifier_prefixes': bool}.  Every <include>/<package>/<c:include>/<doc:format> line before <namespace>
    is replaced by the listed ones."""
    if not spec:
        return text
    lines = text.split('\n')
    out, done = [], False
    for ln in lines:
        if not done and '<namespace' in ln:
            for n, v in spec.get('includes', []):
                out.append('  <include name="%s" version="%s"/>' % (n, v))
            for n in spec.get('packages', []):
                out.append('  <package name="%s"/>' % n)
            for n in spec.get('c_includes', []):
                out.append('  <c:include name="%s"/>' % n)
            if spec.get('doc_format') is not None:
                out.append('  <doc:format name="%s"/>' % spec['doc_format'])
            done = True
        if not done and HEADER_LINE.match(ln):
            continue
        out.append(ln)
    text = '\n'.join(out)
    if spec.get('drop_identifier_prefixes'):
        text = _re.sub(r'\s+c:identifier-prefixes="[^"]*"', '', text, count=1)
    return text


def header_of(ns):
    return {'name': ns.name, 'version': ns.version, 'includes': sorted(str(i) for i in ns.includes),
            'packages': sorted(ns.exported_packages), 'c_includes': sorted(ns.c_includes),
            'doc_format': ns.doc_format, 'identifier_prefixes': list(ns.identifier_prefixes),
            'symbol_prefixes': list(ns.symbol_prefixes), 'shared_libraries': list(ns.shared_libraries)}


def header_items(text):
    """the header children of <repository> in document order, for the Lean state-machine model"""
    from xml.etree import ElementTree as ET
    items = []
    root = ET.fromstring(text.encode('utf-8') if isinstance(text, str) else text)
    for el in root:
        t = _qn(el.tag)
        if t == 'include':
            items.append({'k': 'include', 'name': el.attrib.get('name'), 'version': el.attrib.get('version')})
        elif t == 'package':
            items.append({'k': 'package', 'name': el.attrib.get('name')})
        elif t == 'c:include':
            items.append({'k': 'c_include', 'name': el.attrib.get('name')})
        elif t == 'doc:format':
            items.append({'k': 'doc_format', 'name': el.attrib.get('name')})
    return items


BAD_DOCS = [
    ('Old-1.0.gir', '<?xml version="1.0"?>\n<repository version="1.0" xmlns="http://www.gtk.org/introspection/core/1.0">\n'
                    '  <include name="Stale" version="9.9"/>\n  <namespace name="Old" version="1.0"/>\n</repository>\n'),
    ('NoNs-1.0.gir', '<?xml version="1.0"?>\n<repository version="1.2" xmlns="http://www.gtk.org/introspection/core/1.0" '
                     'xmlns:c="http://www.gtk.org/introspection/c/1.0">\n  <include name="Stale" version="9.9"/>\n'
                     '  <package name="stale-1.0"/>\n  <c:include name="stale.h"/>\n</repository>\n'),
]


def gen_history(rng, pool):
    """2-4 documents with differing headers for one reader"""
    steps = []
    for _ in range(rng.choice([2, 2, 3, 3, 4])):
        if rng.random() < 0.06:
            name, text = rng.choice(BAD_DOCS)     # rejected by every reader: must leave nothing behind either
            steps.append({'name': name, 'src': {'text': text}, 'header': None, 'via_tree': False})
            continue
        e = rng.choice(pool)
        r = rng.random()
        if r < 0.35:
            spec = None
        elif r < 0.6:
            spec = {'includes': [], 'packages': [], 'c_includes': [], 'doc_format': None}
        else:
            spec = {'includes': rng.sample([['GLib', '2.0'], ['GObject', '2.0'], ['Gio', '2.0'], ['cairo', '1.0'],
                                            ['Dep', '0.1']], rng.randint(0, 3)),
                    'packages': rng.sample(['a-1.0', 'z-2.0', 'gobject-2.0'], rng.randint(0, 2)),
                    'c_includes': rng.sample(['a.h', 'b/b.h', 'glib-object.h'], rng.randint(0, 2)),
                    'doc_format': rng.choice([None, None, 'gi-docgen', 'gtk-doc-markdown', 'unknown', 'hotdoc'])}
        if spec is not None and rng.random() < 0.15:
            spec['drop_identifier_prefixes'] = True
        steps.append({'name': e['name'], 'src': e['src'], 'header': spec, 'via_tree': rng.random() < 0.25})
    return {'types_only': rng.random() < 0.15, 'steps': steps}


def history_steps(h):
    out = []
    for st in h['steps']:
        src = st['src']
        if 'repo' in src:
            with open(os.path.join(REPO, src['repo']), encoding='utf-8') as f:
                text = f.read()
        else:
            text = src['text']
        out.append({'name': st['name'], 'text': edit_header(text, st.get('header')), 'via_tree': st.get('via_tree', False)})
    return out


def run_history(steps, types_only, scratch):
    """steps = [{'name': file name, 'text': GIR text, 'via_tree': bool}].  -> (failures, per-step headers of the
    namespaces the ONE reader returned).  Oracle: the i-th write is byte-identical to what a FRESH reader gives
    for that document (same exception class when the fresh reader raises), and the namespaces returned earlier
    are unchanged after every later parse."""
    from xml.etree import ElementTree as ET
    m = scanpipe.mods()
    d = os.path.join(scratch, 'hist')
    os.makedirs(d, exist_ok=True)
    fails = []
    headers = []

    def read(parser, i, st):
        sub = os.path.join(d, str(i))
        os.makedirs(sub, exist_ok=True)
        path = os.path.join(sub, st['name'])
        with open(path, 'w', encoding='utf-8') as f:
            f.write(st['text'])
        try:
            if st.get('via_tree'):
                parser.parse_tree(ET.parse(path))
            else:
                parser.parse(path)
            ns = parser.get_namespace()
            return ('ok', ns, m.girwriter.GIRWriter(ns).get_encoded_xml())
        except (Exception, SystemExit) as e:  # noqa
            return ('error', type(e).__name__, None)

    shared = m.girparser.GIRParser(types_only=types_only)
    earlier = []        # (step index, namespace object, header snapshot, bytes written right after the parse)
    for i, st in enumerate(steps):
        fresh = read(m.girparser.GIRParser(types_only=types_only), 'fresh%d' % i, st)
        got = read(shared, 'shared%d' % i, st)
        if fresh[0] == 'error':
            headers.append(None)
            if got[0] != 'error' or got[1] != fresh[1]:
                fails.append(('history-exception-differs', i,
                              'step %d (%s): a fresh reader ends in %s, the reused reader in %s'
                              % (i, st['name'], fresh[1], got[1] if got[0] == 'error' else 'a namespace')))
            continue
        if got[0] == 'error':
            headers.append(None)
            fails.append(('history-exception', i, 'step %d (%s): the reused reader raises %s, a fresh reader does not'
                          % (i, st['name'], got[1])))
            continue
        headers.append(header_of(got[1]))
        if got[2] != fresh[2]:
            fails.append(('history-not-byte-identical', i,
                          'step %d (%s) read with a reader that had read %d document(s) before is written differently '
                          'than when read with a fresh reader: %s; header fresh=%s reused=%s'
                          % (i, st['name'], i, short(first_diff(fresh[2], got[2]), 300), short(header_of(fresh[1]), 300),
                             short(header_of(got[1]), 300))))
        for j, ns, snap, w in earlier:
            now = header_of(ns)
            if now != snap:
                fails.append(('history-earlier-model-changed', i,
                              'the namespace returned for step %d (%s) changed when step %d (%s) was read with the same '
                              'reader: %s' % (j, steps[j]['name'], i, st['name'],
                                              '; '.join('%s: %s -> %s' % (p, short(a, 80), short(b, 80))
                                                        for p, a, b in deep_diff(snap, now)[:4]))))
            elif len(w) < 300000 and m.girwriter.GIRWriter(ns).get_encoded_xml() != w:
                fails.append(('history-earlier-model-changed', i,
                              'the namespace returned for step %d (%s) is written differently after step %d (%s) was read '
                              'with the same reader' % (j, steps[j]['name'], i, st['name'])))
        earlier.append((i, got[1], header_of(got[1]), got[2]))
    return fails, headers


# ------------------------------------------------------------------ AST-equality walk
# canonical form of "what a GIR carries" of an ast object, following the statement's list: names,
# types, flags, ownership, indices, documentation, positions, attributes.  Canonicalisation (stated
# in ctx.assumptions): ctype = complete_ctype or ctype; direction None = 'in'; nullable means
# nullable and not not_nullable; caller_allocates only for non-in directions; introspectable means
# introspectable and not skip on nodes (one attribute in the format); '' = None for optional
# strings; line numbers compared as text; file names relative to the source roots; of a node's
# positions only the main one.
def _s(x):
    return x if x else None


class Canon(object):
    def __init__(self, roots):
        self.roots = roots
        self.m = scanpipe.mods()

    def rel(self, filename):
        res = filename
        for root in self.roots:
            try:
                r = os.path.relpath(filename, root)
            except ValueError:
                r = filename
            if len(r) < len(res):
                res = r
        return res

    def ty(self, t):
        ast = self.m.ast
        if t is None:
            return None
        d = {'ctype': _s(t.complete_ctype) or _s(t.ctype)}
        if isinstance(t, ast.Varargs):
            return {'k': 'varargs'}
        if isinstance(t, ast.Array):
            d.update(k='array', array_type=t.array_type, zt=bool(t.zeroterminated), size=t.size,
                     length=t.length_param_name, elem=self.ty(t.element_type))
        elif isinstance(t, ast.List):
            d.update(k='list', name=_s(t.name), elem=self.ty(t.element_type))
        elif isinstance(t, ast.Map):
            d.update(k='map', key=self.ty(t.key_type), value=self.ty(t.value_type))
        else:
            d.update(k='type', giname=_s(t.target_giname), fund=None if t.target_giname else _s(t.target_fundamental))
            if not d['giname'] and not d['fund'] and not d['ctype']:
                return {'k': 'unknown'}
        return d

    def docs(self, n):
        d = {'attributes': [[k, v] for k, v in n.attributes.items()],
             'doc': _s(getattr(n, 'doc', None)), 'version_doc': _s(getattr(n, 'version_doc', None)),
             'deprecated_doc': _s(getattr(n, 'deprecated_doc', None)),
             'stability_doc': _s(getattr(n, 'stability_doc', None))}
        if d['doc']:
            p = n.doc_position
            d['doc_pos'] = [self.rel(p.filename), str(p.line), str(p.column) if p.column else None]
        gp = getattr(n, 'get_main_position', None)
        if gp is not None:
            p = gp()
            if p is not None:
                d['pos'] = [self.rel(p.filename), str(p.line), str(p.column) if p.column else None]
        return d

    def node_generic(self, n, version=True):
        d = self.docs(n)
        if version:
            d['version'] = _s(n.version)
        d['introspectable'] = bool(n.introspectable) and not n.skip
        d['deprecated'] = _s(n.deprecated)
        d['stability'] = _s(n.stability)
        return d

    def param(self, p):
        d = self.docs(p)
        direction = p.direction or 'in'
        d.update(name=p.argname, type=self.ty(p.type), direction=direction, transfer=_s(p.transfer),
                 nullable=bool(p.nullable and not p.not_nullable), optional=bool(p.optional), scope=_s(p.scope),
                 caller_allocates=bool(p.caller_allocates) if direction != 'in' else False,
                 closure=p.closure_name, destroy=p.destroy_name, skip=bool(p.skip))
        return d

    def retval(self, r):
        if not r:
            return None
        d = self.docs(r)
        # a skipped return value is always written with transfer-ownership (mandatory in the GIR): 'none' when unset
        d.update(type=self.ty(r.type), transfer=_s(r.transfer) or ('none' if r.skip else None),
                 nullable=bool(r.nullable and not r.not_nullable), skip=bool(r.skip))
        return d

    def callable(self, f, tag, anonymous=False):
        ast = self.m.ast
        d = self.node_generic(f)
        d.update(tag=tag, name=f.name, throws=bool(f.throws), retval=self.retval(f.retval),
                 params=[self.param(p) for p in f.parameters],
                 instance=self.param(f.instance_parameter) if f.instance_parameter else None,
                 finish_func=f.finish_func, sync_func=f.sync_func, async_func=f.async_func)
        if isinstance(f, ast.Function):
            d.update(symbol=f.symbol, shadowed_by=_s(f.shadowed_by),
                     shadows=None if f.shadowed_by else _s(f.shadows), moved_to=f.moved_to,
                     set_property=f.set_property, get_property=f.get_property)
        if isinstance(f, ast.VFunction):
            d['invoker'] = _s(f.invoker)
        if isinstance(f, ast.Callback):
            # the callback of a field is named after the field: its c:type is only written when it differs
            d['ctype'] = f.ctype if not anonymous or f.ctype != f.name else None
        if isinstance(f, ast.Signal):
            d.update(when=_s(f.when), no_recurse=bool(f.no_recurse), detailed=bool(f.detailed),
                     action=bool(f.action), no_hooks=bool(f.no_hooks), emitter=_s(f.emitter))
        return d

    def function(self, f, context):
        if f.internal_skipped:
            return None
        if context == 'method':
            tag = 'method-inline' if f.is_inline else 'method'
        elif context == 'constructor':
            tag = 'constructor'
        elif context == 'static':
            tag = 'function'
        else:
            tag = 'function-inline' if f.is_inline else 'function'
        return self.callable(f, tag)

    def functions(self, fs, context):
        return [x for x in (self.function(f, context) for f in sorted(fs)) if x is not None]

    def field(self, f):
        ast = self.m.ast
        if f.anonymous_node is not None:
            an = f.anonymous_node
            if isinstance(an, ast.Callback):
                d = self.docs(f)
                d.update(k='field-callback', name=f.name, introspectable=bool(f.introspectable) and not f.skip,
                         version=_s(f.version), deprecated=_s(f.deprecated), stability=_s(f.stability),
                         callback=self.callable(an, 'callback', anonymous=True))
                return d
            return {'k': 'field-anon', 'node': self.node(an)}
        d = self.node_generic(f)
        d.update(k='field', name=f.name, type=self.ty(f.type), readable=bool(f.readable), writable=bool(f.writable),
                 bits=str(f.bits) if f.bits else None, private=bool(f.private))
        return d

    def registered(self, n):
        if n.get_type:
            return {'gtype_name': n.gtype_name, 'get_type': n.get_type}
        return {}

    def member(self, mb):
        d = self.node_generic(mb)
        d.update(name=mb.name, value=str(mb.value), symbol=mb.symbol, nick=mb.nick, dump_name=mb.dump_name)
        return d

    def prop(self, p):
        d = self.node_generic(p)
        d.update(name=p.name, type=self.ty(p.type), readable=bool(p.readable), writable=bool(p.writable),
                 construct=bool(p.construct), construct_only=bool(p.construct_only), transfer=_s(p.transfer),
                 setter=_s(p.setter), getter=_s(p.getter), default_value=_s(p.default_value))
        return d

    def tyname(self, t):
        return t.target_giname if t is not None else None

    def node(self, n):
        ast = self.m.ast
        if isinstance(n, ast.Function):
            return self.function(n, 'toplevel')
        if isinstance(n, ast.FunctionMacro):
            d = self.node_generic(n)
            d.update(k='function-macro', name=n.name, symbol=n.symbol,
                     params=[dict(self.docs(p), name=p.argname) for p in n.parameters])
            return d
        if isinstance(n, (ast.Enum, ast.Bitfield)):
            d = self.node_generic(n)
            d.update(self.registered(n))
            d.update(k='bitfield' if isinstance(n, ast.Bitfield) else 'enumeration', name=n.name, ctype=n.ctype,
                     members=[self.member(x) for x in n.members],
                     static_methods=self.functions(n.static_methods, 'static'))
            if isinstance(n, ast.Enum):
                d['error_domain'] = _s(n.error_domain)
            return d
        if isinstance(n, (ast.Class, ast.Interface)):
            d = self.node_generic(n)
            d.update(k='class' if isinstance(n, ast.Class) else 'interface', name=n.name,
                     c_symbol_prefix=n.c_symbol_prefix, ctype=n.ctype, gtype_name=n.gtype_name, get_type=n.get_type,
                     type_struct=self.tyname(n.glib_type_struct),
                     static_methods=self.functions(n.static_methods, 'static'),
                     virtual_methods=[self.callable(v, 'virtual-method') for v in sorted(n.virtual_methods)],
                     methods=self.functions(n.methods, 'method'),
                     properties=[self.prop(p) for p in sorted(n.properties)],
                     fields=[self.field(f) for f in n.fields],
                     signals=[self.callable(s, 'glib:signal') for s in sorted(n.signals)])
            if isinstance(n, ast.Class):
                d.update(parent=self.tyname(n.parent_type), abstract=bool(n.is_abstract), final=bool(n.is_final),
                         fundamental=bool(n.fundamental), ref_func=_s(n.ref_func), unref_func=_s(n.unref_func),
                         set_value_func=_s(n.set_value_func), get_value_func=_s(n.get_value_func),
                         interfaces=sorted(self.tyname(i) for i in n.interfaces),
                         constructors=self.functions(n.constructors, 'constructor'))
            else:
                d['prerequisites'] = sorted(self.tyname(i) for i in n.prerequisites)
            return d
        if isinstance(n, ast.Callback):
            return self.callable(n, 'callback')
        if isinstance(n, (ast.Record, ast.Union)):
            d = self.node_generic(n)
            d.update(self.registered(n))
            d.update(k='record' if isinstance(n, ast.Record) else 'union', name=n.name, ctype=n.ctype,
                     c_symbol_prefix=_s(n.c_symbol_prefix), copy_func=_s(n.copy_func), free_func=_s(n.free_func),
                     fields=[self.field(f) for f in n.fields],
                     constructors=self.functions(n.constructors, 'constructor'),
                     methods=self.functions(n.methods, 'method'),
                     static_methods=self.functions(n.static_methods, 'static'))
            if isinstance(n, ast.Record):
                d.update(disguised=bool(n.disguised), opaque=bool(n.opaque), pointer=bool(n.pointer),
                         foreign=bool(n.foreign), is_gtype_struct_for=self.tyname(n.is_gtype_struct_for))
            return d
        if isinstance(n, ast.Boxed):
            d = self.docs(n)
            d.update(self.registered(n))
            d.update(k='boxed', name=n.name, c_symbol_prefix=n.c_symbol_prefix,
                     constructors=self.functions(n.constructors, 'constructor'),
                     methods=self.functions(n.methods, 'method'),
                     static_methods=self.functions(n.static_methods, 'static'))
            return d
        if isinstance(n, ast.Alias):
            d = self.node_generic(n)
            d.update(k='alias', name=n.name, ctype=n.ctype, target=self.ty(n.target))
            return d
        if isinstance(n, ast.Constant):
            d = self.node_generic(n)
            d.update(k='constant', name=n.name, value=n.value, ctype=n.ctype, type=self.ty(n.value_type))
            return d
        if isinstance(n, ast.DocSection):
            d = self.docs(n)
            d.update(k='docsection', name=n.name)
            return d
        if isinstance(n, ast.Member):
            return None
        return {'k': 'UNHANDLED ' + type(n).__name__}

    def namespace(self, ns):
        ast = self.m.ast
        nodes = {}
        for n in ns.values():
            c = self.node(n)
            if c is not None:
                nodes[n.name] = c
        return {'name': ns.name, 'version': ns.version,
                'shared_libraries': [x for x in ns.shared_libraries if x],
                'identifier_prefixes': list(ns.identifier_prefixes), 'symbol_prefixes': list(ns.symbol_prefixes),
                'includes': sorted(str(i) for i in ns.includes), 'c_includes': sorted(set(ns.c_includes)),
                'packages': sorted(set(ns.exported_packages)), 'doc_format': ns.doc_format,
                'nodes': nodes}


def deep_diff(a, b, path='', out=None, limit=6):
    if out is None:
        out = []
    if len(out) >= limit:
        return out
    if isinstance(a, dict) and isinstance(b, dict):
        for k in sorted(set(a) | set(b)):
            if k not in a or k not in b:
                out.append((path + '/' + str(k), a.get(k, '<absent>'), b.get(k, '<absent>')))
            else:
                deep_diff(a[k], b[k], path + '/' + str(k), out, limit)
            if len(out) >= limit:
                break
    elif isinstance(a, list) and isinstance(b, list):
        if len(a) != len(b):
            out.append((path + '/#len', len(a), len(b)))
        for i, (x, y) in enumerate(zip(a, b)):
            deep_diff(x, y, path + '/%d' % i, out, limit)
            if len(out) >= limit:
                break
    elif a != b:
        out.append((path, a, b))
    return out


def short(x, n=120):
    s = json.dumps(x, default=str, ensure_ascii=False)
    return s if len(s) <= n else s[:n] + '…'


# ------------------------------------------------------------------ generator: whole namespaces
Q_CONST = scanpipe.Q_CONST
WORDS = ['alpha', 'beta', 'gamma', 'delta', 'eps', 'zeta', 'eta', 'theta', 'iota', 'kappa', 'lam', 'mu', 'nu', 'xi',
         'omi', 'pi', 'rho', 'sigma', 'tau', 'ups', 'phi', 'chi', 'psi', 'omega', 'get_x', 'set_x', 'make', 'run',
         'to_string', 'from_data', 'with_len', 'peek', 'poke', 'lookup', 'insert', 'steal']
DOC_ATOMS = ['plain words', 'a\ttab', 'amp & lt < gt > quote " apos \'', 'café üß 中文 \U0001f600',
             'trailing space ', ' leading', 'x', '%TRUE or %NULL, #FooObj::sig and @param', '|[ code <b>bold</b> ]|',
             ']]> cdata end', '&amp; already escaped', 'line sep   inside', 'nbsp here', '<!-- c -->',
             'a  double  space', 'percent %s %d', 'back\\slash', '0', 'zero​width', '(not an annotation)',
             'colon: in text', 'Returns: in text']
ATTR_VALUES = ['v', 'a b', 'x<y', 'q"uote', "a'p", 'a&b', 'café', '1', 'tab\there', ' sp ', '']


def gen_doc(rng, multi=True):
    n = rng.choice([1, 1, 1, 2, 3])
    paras = []
    for _ in range(n):
        lines = [rng.choice(DOC_ATOMS) for _ in range(rng.choice([1, 1, 2, 3]))]
        paras.append('\n'.join(lines))
    if not multi:
        return paras[0].split('\n')[0]
    sep = rng.choice(['\n\n', '\n\n', '\n\n\n', '\n'])
    return sep.join(paras)


def comment_lines(text, indent=' * '):
    return ''.join(indent + l + '\n' if l else ' *\n' for l in text.split('\n'))


class NsGen(object):
    """Builds a scanpipe configuration (C declarations + GTK-Doc comment blocks + runtime dump)
    covering every node kind the writer knows; every optional feature is toggled at random."""

    def __init__(self, rng, cnt, incdir):
        self.rng = rng
        self.cnt = cnt
        self.inc = incdir
        self.decls = []
        self.comments = []
        self.dump = []
        self.line = 10
        self.used = set()
        self.expect = set()     # PENDING_FINDINGS classes this namespace is expected to exhibit (none at present)
        self.triggers = []      # edits that remove the constructs triggering them (see neutralise)
        self.id = rng.choice(['Foo', 'Foo', 'Foo', 'Bar', 'Gx'])
        self.sym = self.id.lower()
        self.records = []
        self.classes = []
        self.ifaces = []
        self.enums = []
        self.flags = []
        self.callbacks = []
        self.aliases = []

    # -- helpers
    def coin(self, p=0.5):
        return self.rng.random() < p

    def nl(self):
        self.line += self.rng.randint(1, 7)
        return self.line

    def fresh(self, base=None):
        for _ in range(100):
            w = base or self.rng.choice(WORDS)
            if base is not None or w in self.used:
                w = (base or w) + self.rng.choice(['', '2', '_b', '_ex', '3', '_alt'])
            if w not in self.used:
                self.used.add(w)
                return w
        w = 'w%d' % len(self.used)
        self.used.add(w)
        return w

    def camel(self, w):
        return ''.join(p.capitalize() for p in w.split('_'))

    def hit(self, label):
        self.cnt.hit('gen:' + label)

    def add_comment(self, text, fname=None):
        self.comments.append((text, fname or '/src/%s/%s.c' % (self.sym, self.sym), self.nl() + 1000))
        self.line += text.count('\n')

    # -- documentation block
    def block(self, ident, params=(), ret=None, ident_anns=(), tags=True, desc=None):
        rng = self.rng
        out = '/**\n * %s:' % ident
        if ident_anns:
            out += ' ' + ' '.join(ident_anns)
        out += '\n'
        for name, anns, doc in params:
            line = ' * @%s:' % name
            if anns:
                line += ' ' + ' '.join(anns) + ':'
            if doc:
                first, _, rest = doc.partition('\n')
                line += ' ' + first
                out += line.rstrip(' ') + '\n' if not first.endswith(' ') else line + '\n'
                if rest:
                    out += comment_lines(rest, ' *   ')
            else:
                out += line + '\n'
        if desc is None and self.coin(0.7):
            desc = gen_doc(rng)
        if desc:
            out += ' *\n' + comment_lines(desc)
        tl = []
        if ret is not None:
            anns, doc = ret
            line = ' * Returns:'
            if anns:
                line += ' ' + ' '.join(anns) + ':'
            if doc:
                line += ' ' + doc.replace('\n', '\n *   ')
            tl.append(line + '\n')
        if tags:
            if self.coin(0.3):
                self.hit('tag-since')
                if self.coin(0.1):
                    # no version number, only a description: version_doc is set, version is not
                    t = ' * Since: ' + rng.choice(['the next stable release', 'soon', 'forever'])
                    self.hit('tag-since-without-version')
                else:
                    t = ' * Since: ' + rng.choice(['1.0', '2.34', '0.1.2'])
                    if self.coin(0.15):
                        t += ': ' + gen_doc(rng, False)
                tl.append(t + '\n')
            if self.coin(0.25):
                self.hit('tag-deprecated')
                t = ' * Deprecated:' + rng.choice([' 1.2', ' 3.0', ' 1.2', ''])
                if self.coin(0.7):
                    t += ': ' + gen_doc(rng).replace('\n\n', '\n').replace('\n', '\n * ')
                tl.append(t + '\n')
            if self.coin(0.15):
                self.hit('tag-stability')
                t = ' * Stability: ' + rng.choice(['Stable', 'Unstable', 'Private'])
                if self.coin(0.3):
                    t += ': ' + gen_doc(rng, False)
                tl.append(t + '\n')
        rng.shuffle(tl)
        if tl:
            out += ' *\n' + ''.join(tl)
        out += ' */'
        return out

    def attrs_ann(self):
        rng = self.rng
        n = rng.choice([1, 1, 2, 3])
        parts = []
        for _ in range(n):
            k = rng.choice(['k', 'org.foo.bar', 'a-b', 'x_y', 'K2'])
            v = rng.choice(['v', 'ab', '1', 'café', 'x-y', ''])
            parts.append('%s=%s' % (k, v) if v else k)
        self.hit('ann-attributes')
        return '(attributes %s)' % ' '.join(parts)

    # -- C types with matching annotations
    def local_type(self, kinds):
        pool = []
        if 'rec' in kinds:
            pool += self.records
        if 'obj' in kinds:
            pool += self.classes + self.ifaces
        return self.rng.choice(pool) if pool else None

    def elem_name(self):
        pool = ['utf8', 'gint', 'guint8', 'gpointer', 'filename', 'gdouble', 'GType']
        pool += [self.id + r for r in self.records + self.classes]
        return self.rng.choice(pool)

    def param_specs(self, nmax=5, allow_varargs=True, for_callback=False):
        """-> list of (json param, name, [annotations], doc) ; extra bookkeeping for indices"""
        rng = self.rng
        n = rng.randint(0, nmax)
        specs = []
        names = set()

        def nm(base):
            w = base
            i = 1
            while w in names:
                i += 1
                w = '%s%d' % (base, i)
            names.add(w)
            return w

        def add(name, ty, anns=(), doc=None):
            if doc is None and self.coin(0.6):
                doc = gen_doc(rng) if self.coin(0.2) else gen_doc(rng, False)
            specs.append(({'name': name, 'type': ty}, name, list(anns), doc))

        for _ in range(n):
            k = rng.choice(['int', 'int', 'basic', 'str', 'str_out', 'int_out', 'rec', 'obj', 'enum', 'flags', 'alias',
                            'list', 'slist', 'hash', 'garray', 'gptrarray', 'gbytearray', 'carray_len', 'carray_fixed',
                            'carray_zt', 'callback', 'gpointer', 'unknown', 'value', 'gtype', 'typeann', 'bytes',
                            'rec_out', 'valist', 'noname', 'hash_array', 'nested_array'])
            self.hit('param:' + k)
            anns = []
            if k == 'int':
                add(nm(rng.choice(['x', 'y', 'count', 'n_items'])), T('int'))
            elif k == 'basic':
                t = rng.choice(['unsigned int', 'double', 'gboolean', 'gsize', 'gint64', 'long', 'unsigned long',
                                'char', 'guint8', 'float', 'gunichar', 'gssize', 'guint16', 'short', 'time_t',
                                'long long', 'goffset', 'gintptr'])
                add(nm('v'), T(t))
            elif k == 'str':
                if self.coin(0.3):
                    anns.append('(nullable)')
                if self.coin(0.2):
                    anns.append('(transfer %s)' % rng.choice(['none', 'full']))
                if self.coin(0.15):
                    anns.append('(type filename)')
                if self.coin(0.1):
                    anns.append('(allow-none)')
                if self.coin(0.1):
                    anns.append('(not nullable)')
                if self.coin(0.1):
                    anns.append('(skip)')
                add(nm('str'), P(T('char', Q_CONST)) if self.coin(0.7) else P(T('gchar')), anns)
            elif k == 'str_out':
                anns.append(rng.choice(['(out)', '(out)', '(inout)', '(out callee-allocates)']))
                if self.coin(0.5):
                    anns.append('(transfer %s)' % rng.choice(['none', 'full']))
                if self.coin(0.3):
                    anns.append('(optional)')
                if self.coin(0.3):
                    anns.append('(nullable)')
                if self.coin(0.15):
                    anns.append('(allow-none)')
                add(nm('out_str'), P(P(T('char'))), anns)
            elif k == 'int_out':
                anns.append(rng.choice(['(out)', '(inout)', '(out caller-allocates)', '(out callee-allocates)', '(in)']))
                if self.coin(0.3):
                    anns.append('(optional)')
                if self.coin(0.1):
                    anns.append('(skip)')
                add(nm('out_val'), P(T(rng.choice(['int', 'double', 'gboolean', 'guint']))), anns)
            elif k in ('rec', 'rec_out'):
                r = self.local_type(['rec'])
                if r is None:
                    continue
                if k == 'rec_out':
                    anns.append(rng.choice(['(out caller-allocates)', '(out)', '(inout)']))
                    add(nm('out_rec'), P(T(self.id + r)) if 'caller' in anns[0] else P(P(T(self.id + r))), anns)
                else:
                    if self.coin(0.3):
                        anns.append('(nullable)')
                    if self.coin(0.3):
                        anns.append('(transfer %s)' % rng.choice(['none', 'full']))
                    add(nm('rec'), P(T(self.id + r, Q_CONST if self.coin(0.3) else 0)), anns)
            elif k == 'obj':
                r = self.local_type(['obj'])
                if r is None:
                    add(nm('gobj'), P(T('GObject')), ['(nullable)'] if self.coin(0.3) else [])
                    continue
                if self.coin(0.3):
                    anns.append('(nullable)')
                if self.coin(0.3):
                    anns.append('(transfer %s)' % rng.choice(['none', 'full', 'floating']))
                add(nm('obj'), P(T(self.id + r)), anns)
            elif k in ('enum', 'flags'):
                pool = self.enums if k == 'enum' else self.flags
                if not pool:
                    continue
                add(nm(k[0] + 'val'), T(self.id + rng.choice(pool)))
            elif k == 'alias':
                if not self.aliases:
                    continue
                add(nm('al'), T(self.id + rng.choice(self.aliases)))
            elif k in ('list', 'slist'):
                if self.coin(0.8):
                    anns.append('(element-type %s)' % self.elem_name())
                if self.coin(0.4):
                    anns.append('(transfer %s)' % rng.choice(['none', 'container', 'full']))
                if self.coin(0.2):
                    anns.append('(nullable)')
                add(nm('lst'), P(T('GList' if k == 'list' else 'GSList')), anns)
            elif k == 'hash':
                if self.coin(0.8):
                    anns.append('(element-type %s %s)' % (rng.choice(['utf8', 'gpointer', 'gint']), self.elem_name()))
                if self.coin(0.3):
                    anns.append('(transfer %s)' % rng.choice(['none', 'container', 'full']))
                add(nm('tbl'), P(T('GHashTable')), anns)
            elif k == 'hash_array':
                # an array as key or value type: <array> nested in <type name="GLib.HashTable"> (fixed by 4965d4a)
                anns.append(rng.choice(['(element-type utf8 GStrv)', '(element-type GStrv utf8)', '(element-type GStrv GStrv)']))
                if self.coin(0.3):
                    anns.append('(transfer %s)' % rng.choice(['none', 'container', 'full']))
                add(nm('tbl'), P(T('GHashTable')), anns)
            elif k == 'garray':
                anns.append('(element-type %s)' % rng.choice(['gint', 'guint8', 'gdouble', 'utf8']))
                if self.coin(0.3):
                    anns.append('(transfer %s)' % rng.choice(['none', 'container', 'full']))
                add(nm('garr'), P(T('GArray')), anns)
            elif k == 'gptrarray':
                if self.coin(0.8):
                    anns.append('(element-type %s)' % self.elem_name())
                add(nm('parr'), P(T('GPtrArray')), anns)
            elif k == 'gbytearray':
                add(nm('barr'), P(T('GByteArray')))
            elif k in ('carray_len', 'bytes'):
                arr = nm('arr' if k == 'carray_len' else 'data')
                ln = nm('n_' + arr)
                opts = 'length=%s' % ln
                if self.coin(0.2):
                    opts += ' zero-terminated=%s' % rng.choice(['1', '0'])
                if self.coin(0.1):
                    opts += ' fixed-size=%d' % rng.choice([0, 3, 16])
                anns.append('(array %s)' % opts)
                d = rng.choice(['', '', '(out)', '(inout)', '(out caller-allocates)'])
                if d:
                    anns.append(d)
                if k == 'bytes':
                    anns.append('(element-type guint8)')
                if self.coin(0.3):
                    anns.append('(transfer %s)' % rng.choice(['none', 'container', 'full']))
                if self.coin(0.2):
                    anns.append('(nullable)')
                base = T('guint8') if k == 'bytes' else T(rng.choice(['int', 'double', 'char']))
                depth = 2 if d in ('(out)', '(inout)') else 1
                lent = T(rng.choice(['int', 'gsize', 'guint']))
                if d in ('(out)', '(inout)'):
                    lent = P(lent)
                first_len = self.coin(0.3)
                if first_len:
                    add(ln, lent, [d] if d in ('(out)', '(inout)') else [])
                add(arr, P(base, depth), anns)
                if not first_len:
                    add(ln, lent, [d] if d in ('(out)', '(inout)') else [])
            elif k == 'carray_fixed':
                anns.append('(array fixed-size=%d%s)' % (rng.choice([0, 1, 4, 255]),
                                                        rng.choice(['', '', ' zero-terminated=1'])))
                add(nm('fix'), P(T('int')), anns)
            elif k == 'carray_zt':
                anns.append(rng.choice(['(array zero-terminated=1)', '(array)', '(array zero-terminated=0)',
                                        '(array zero-terminated)']))
                if self.coin(0.4):
                    anns.append('(transfer %s)' % rng.choice(['none', 'container', 'full']))
                if self.coin(0.3):
                    anns.append('(element-type %s)' % rng.choice(['utf8', 'filename']))
                add(nm('strv'), P(P(T('char'))), anns)
            elif k == 'nested_array':
                # char ***: an array of string arrays (<array><array><type/></array></array>)
                anns.append(rng.choice(['(array zero-terminated=1)', '(array)', '(array fixed-size=2)']))
                if self.coin(0.4):
                    anns.append('(transfer %s)' % rng.choice(['none', 'container', 'full']))
                add(nm('strvv'), P(P(P(T('char')))), anns)
            elif k == 'callback':
                if not self.callbacks or for_callback:
                    continue
                cbn = nm('cb')
                sc = rng.choice(['call', 'async', 'notified', 'forever', None])
                if sc:
                    anns.append('(scope %s)' % sc)
                if self.coin(0.3):
                    anns.append('(nullable)')
                data = destroy = None
                order = []
                if self.coin(0.7):
                    data = nm('user_data' if self.coin(0.6) else 'cb_data')
                    if data != 'user_data' or self.coin(0.5):
                        anns.append('(closure %s)' % data)
                if sc == 'notified' or self.coin(0.2):
                    destroy = nm('notify')
                    anns.append('(destroy %s)' % destroy)
                order.append(('cb', cbn))
                if data:
                    order.append(('data', data))
                if destroy:
                    order.append(('destroy', destroy))
                if self.coin(0.25):
                    rng.shuffle(order)
                for what, name in order:
                    if what == 'cb':
                        add(name, T(self.id + rng.choice(self.callbacks)), anns)
                    elif what == 'data':
                        add(name, T('gpointer'), ['(nullable)'] if self.coin(0.2) else [])
                    else:
                        add(name, T('GDestroyNotify'))
            elif k == 'gpointer':
                add(nm('ptr'), T(rng.choice(['gpointer', 'gconstpointer'])), ['(nullable)'] if self.coin(0.4) else [])
            elif k == 'unknown':
                if self.coin(0.3):
                    add(nm('unk'), P(T(self.id + 'Nope')))
            elif k == 'value':
                add(nm('value'), P(T('GValue')), [rng.choice(['(out caller-allocates)', '(inout)', '(in)'])]
                    if self.coin(0.6) else [])
            elif k == 'gtype':
                add(nm('gtype'), T('GType'))
            elif k == 'typeann':
                t = rng.choice(['GObject.Object', 'utf8', 'GLib.List(utf8)', 'GLib.HashTable(utf8,gint)', 'gint'] +
                               [self.id + '.' + r for r in self.records + self.classes])
                add(nm('any'), T('gpointer'), ['(type %s)' % t])
            elif k == 'valist':
                if self.coin(0.2):
                    add(nm('args'), T('va_list'))
            elif k == 'noname':
                if self.coin(0.15):
                    specs.append(({'name': None, 'type': T('int')}, None, [], None))
        if self.coin(0.12):
            self.hit('param:gerror')
            specs.append(({'name': 'error', 'type': P(P(T('GError')))}, 'error', [], None))
        elif allow_varargs and self.coin(0.08) and specs:
            self.hit('param:varargs')
            specs.append(({'ellipsis': True}, None, [], None))
        return specs

    def ret_spec(self, ctor_of=None, specs=()):
        rng = self.rng
        anns = []
        if ctor_of:
            if self.coin(0.3):
                anns.append('(transfer %s)' % rng.choice(['full', 'none']))
            return P(T(self.id + ctor_of)), anns
        k = rng.choice(['void', 'void', 'int', 'bool', 'str', 'cstr', 'rec', 'obj', 'list', 'strv', 'carray', 'hash',
                        'gpointer', 'enum', 'garray', 'unknown'])
        self.hit('ret:' + k)
        if k == 'void':
            return T('void'), anns
        if k == 'int':
            if self.coin(0.15):
                anns.append('(skip)')
            return T(rng.choice(['int', 'guint', 'double', 'gsize'])), anns
        if k == 'bool':
            if self.coin(0.2):
                anns.append('(skip)')
            return T('gboolean'), anns
        if k in ('str', 'cstr'):
            if self.coin(0.4):
                anns.append('(nullable)')
            if self.coin(0.3):
                anns.append('(transfer %s)' % rng.choice(['full', 'none']))
            if self.coin(0.1):
                anns.append('(type filename)')
            if self.coin(0.1):
                anns.append('(not nullable)')
            return (P(T('char')) if k == 'str' else P(T('char', Q_CONST))), anns
        if k in ('rec', 'obj'):
            r = self.local_type([k])
            if r is None:
                return T('void'), anns
            if self.coin(0.4):
                anns.append('(transfer %s)' % rng.choice(['full', 'none']))
            if self.coin(0.3):
                anns.append('(nullable)')
            return P(T(self.id + r)), anns
        if k == 'list':
            if self.coin(0.8):
                anns.append('(element-type %s)' % self.elem_name())
            if self.coin(0.6):
                anns.append('(transfer %s)' % rng.choice(['none', 'container', 'full']))
            return P(T(rng.choice(['GList', 'GSList']))), anns
        if k == 'strv':
            anns.append(rng.choice(['(array zero-terminated=1)', '(array)', '(array zero-terminated=1 fixed-size=2)']))
            if self.coin(0.6):
                anns.append('(transfer %s)' % rng.choice(['none', 'container', 'full']))
            return P(P(T('char'))), anns
        if k == 'carray':
            outs = [s for s in specs if s[1] and any(a in ('(out)', '(out caller-allocates)') for a in s[2])
                    and s[0]['type']['k'] == 'ptr' and s[0]['type']['to']['k'] in ('basic', 'typedef')
                    and s[0]['type']['to'].get('n') in ('int', 'guint', 'gsize')]
            if outs:
                anns.append('(array length=%s)' % rng.choice(outs)[1])
            else:
                anns.append('(array fixed-size=%d)' % rng.choice([2, 8]))
            if self.coin(0.5):
                anns.append('(transfer %s)' % rng.choice(['none', 'container', 'full']))
            return P(T(rng.choice(['int', 'guint8', 'double']))), anns
        if k == 'hash':
            if self.coin(0.8):
                anns.append('(element-type utf8 %s)' % self.elem_name())
            if self.coin(0.6):
                anns.append('(transfer %s)' % rng.choice(['none', 'container', 'full']))
            return P(T('GHashTable')), anns
        if k == 'gpointer':
            if self.coin(0.3):
                anns.append('(nullable)')
            if self.coin(0.2) and (self.records or self.classes):
                anns.append('(type %s%s)' % (self.id, rng.choice(self.records + self.classes)))
            return T('gpointer'), anns
        if k == 'enum':
            if self.enums:
                return T(self.id + rng.choice(self.enums)), anns
            return T('int'), anns
        if k == 'garray':
            anns.append('(element-type %s)' % rng.choice(['gint', 'utf8']))
            anns.append('(transfer %s)' % rng.choice(['none', 'container', 'full']))
            return P(T(rng.choice(['GArray', 'GPtrArray']))), anns
        if self.coin(0.4):
            anns.append('(skip)')
            self.hit('ret:unknown-skipped')
        return P(T(self.id + 'Nope')), anns

    # -- declarations
    def function(self, csym, first=None, ctor_of=None, documented=None, extra_ident_anns=(), inline=None,
                 allow_varargs=True):
        """a C function `csym` (+ comment block); `first` = (name, type) of a leading instance argument"""
        rng = self.rng
        specs = self.param_specs(allow_varargs=allow_varargs)
        if first:
            specs.insert(0, ({'name': first[0], 'type': first[1]}, first[0],
                             ['(transfer full)'] if self.coin(0.05) else (['(nullable)'] if self.coin(0.05) else []),
                             'the instance' if self.coin(0.5) else None))
        rty, ranns = self.ret_spec(ctor_of, specs)
        if inline is None:
            inline = self.coin(0.15)
        if inline:
            self.hit('function-inline')
        self.decls.append({'d': 'function', 'name': csym, 'ret': rty, 'inline': inline,
                           'params': [s[0] for s in specs], 'line': self.nl(),
                           'file': '/src/%s/%s.h' % (self.sym, rng.choice([self.sym, self.sym + '-extra']))})
        if documented is None:
            documented = self.coin(0.85)
        if not documented:
            return
        ident_anns = list(extra_ident_anns)
        if self.coin(0.08):
            ident_anns.append('(skip)')
        if self.coin(0.12):
            ident_anns.append(self.attrs_ann())
        if self.coin(0.06):
            for a in ('finish-func', 'sync-func', 'async-func'):
                if self.coin(0.5):
                    ident_anns.append('(%s %s)' % (a, rng.choice(WORDS)))
                    self.hit('ann-' + a)
        if first and self.coin(0.08):
            ident_anns.append('(%s %s)' % (rng.choice(['get-property', 'set-property']), rng.choice(['title', 'count', 'x-y'])))
            self.hit('ann-get/set-property')
        params = [(s[1], s[2], s[3]) for s in specs if s[1] and (s[2] or s[3] or self.coin(0.7))]
        ret = None
        if rty.get('k') != 'void' and (ranns or self.coin(0.6)):
            ret = (ranns, gen_doc(rng, False) if self.coin(0.7) else None)
        self.add_comment(self.block(csym, params, ret, ident_anns))

    def fields(self, owner, nmax=6, allow_anon=True, lead=None):
        """-> (json fields, [(name, anns, doc)] for the struct's comment block)"""
        rng = self.rng
        out = list(lead or [])
        docs = []
        names = set(f['name'] for f in out)
        anon_seen = False

        def nm(b):
            w, i = b, 1
            while w in names:
                i += 1
                w = '%s%d' % (b, i)
            names.add(w)
            return w
        for _ in range(rng.randint(0, nmax)):
            k = rng.choice(['int', 'int', 'basic', 'str', 'ptr', 'bits', 'private', 'cb', 'anon_union', 'anon_struct',
                            'arr_len', 'c_array', 'rec', 'obj', 'enum', 'list', 'fnptr_typed'])
            self.hit('field:' + k)
            f = None
            if k == 'int':
                f = {'name': nm(rng.choice(['x', 'y', 'w', 'h'])), 'type': T('int')}
            elif k == 'basic':
                f = {'name': nm('v'), 'type': T(rng.choice(['double', 'guint', 'gboolean', 'gsize', 'gint64', 'char',
                                                            'guint8', 'float', 'long']))}
            elif k == 'str':
                f = {'name': nm('name'), 'type': P(T('char', Q_CONST if self.coin() else 0))}
            elif k == 'ptr':
                f = {'name': nm('data'), 'type': T('gpointer')}
            elif k == 'bits':
                f = {'name': nm('flag'), 'type': T(rng.choice(['guint', 'int'])), 'bits': rng.choice([0, 1, 3, 31])}
            elif k == 'private':
                f = {'name': nm('priv'), 'type': T('gpointer'), 'private': True}
            elif k == 'cb':
                ps = [s[0] for s in self.param_specs(3, allow_varargs=False, for_callback=True) if s[1]]
                f = {'name': nm(rng.choice(['callback', 'handler', 'func'])),
                     'type': P({'k': 'func', 'ret': rng.choice([T('void'), T('int'), P(T('char'))]), 'params': ps})}
            elif k in ('anon_union', 'anon_struct') and allow_anon:
                sub, _d = self.fields(owner, 3, allow_anon=self.coin(0.3))
                if not sub:
                    sub = [{'name': 'z', 'type': T('int')}]
                f = {'name': nm('u' if k == 'anon_union' else 's') if self.coin(0.5) else None,
                     'type': {'k': 'union' if k == 'anon_union' else 'struct', 'n': None, 'fields': sub}}
                anon_seen = True
            elif k == 'arr_len':
                an, ln = nm('items'), nm('n_items')
                lf = {'name': ln, 'type': T(rng.choice(['guint', 'int', 'gsize']))}
                af = {'name': an, 'type': P(T(rng.choice(['int', 'guint8', 'double'])))}
                pair = [af, lf] if self.coin(0.7) else [lf, af]
                out.extend(pair)
                docs.append((an, ['(array length=%s)' % ln], gen_doc(rng, False)))
                if anon_seen:
                    self.hit('field:arr_len-after-anonymous-member')    # (misread before 26f8b24)
                continue
            elif k == 'c_array':
                f = {'name': nm('fixed'), 'type': {'k': 'array', 'of': T(rng.choice(['int', 'char', 'guint8'])),
                                                   'n': rng.choice([1, 4, 16, None])}}
            elif k == 'rec' and self.records:
                r = rng.choice(self.records)
                f = {'name': nm('rec'), 'type': P(T(self.id + r)) if self.coin(0.6) else T(self.id + r)}
            elif k == 'obj' and self.classes:
                f = {'name': nm('obj'), 'type': P(T(self.id + rng.choice(self.classes)))}
            elif k == 'enum' and self.enums:
                f = {'name': nm('mode'), 'type': T(self.id + rng.choice(self.enums))}
            elif k == 'list':
                f = {'name': nm('children'), 'type': P(T(rng.choice(['GList', 'GSList', 'GHashTable', 'GPtrArray'])))}
                if self.coin(0.5):
                    docs.append((f['name'], ['(element-type %s)' % ('utf8 utf8' if 'Hash' in f['type']['to']['n']
                                                                    else self.elem_name())], 'kids'))
            elif k == 'fnptr_typed' and self.callbacks:
                f = {'name': nm('notify'), 'type': T(self.id + rng.choice(self.callbacks))}
            if f is None:
                continue
            f['line'] = self.nl()
            out.append(f)
            if f['name'] and self.coin(0.35) and not any(d[0] == f['name'] for d in docs):
                anns = []
                if self.coin(0.1):
                    anns.append(self.attrs_ann())
                docs.append((f['name'], anns, gen_doc(rng, False)))
        return out, docs

    def compound(self, kind):
        """struct/union FooName (+ optional boxed registration, methods, constructors, static functions)"""
        rng = self.rng
        w = self.fresh(rng.choice(['rect', 'point', 'item', 'entry', 'node', 'info', 'range', 'blob']))
        name = self.camel(w)
        cname = self.id + name
        tag = '_' + cname
        opaque = self.coin(0.15)
        self.decls.append({'d': 'typedef', 'name': cname, 'type': {'k': kind, 'n': tag}, 'line': self.nl()})
        docs = []
        if not opaque:
            fl, docs = self.fields(name)
            self.decls.append({'d': kind, 'name': tag, 'fields': fl, 'line': self.nl()})
        self.hit(kind + (':opaque' if opaque else ''))
        ident_anns = []
        sp = '%s_%s' % (self.sym, w)
        if kind == 'struct' and self.coin(0.08):
            ident_anns.append('(foreign)')
            self.hit('record:foreign')
        boxed = self.coin(0.35)
        if boxed:
            self.hit(kind + ':boxed')
            self.decls.append({'d': 'function', 'name': sp + '_get_type', 'ret': T('GType'), 'params': [],
                               'line': self.nl()})
            self.dump.append('<%s name="%s" get-type="%s_get_type"/>' % (rng.choice(['boxed', 'boxed', 'pointer']),
                                                                        cname, sp))
        (self.records if True else []).append(name)
        if self.coin(0.5):
            self.function(sp + '_new', ctor_of=name)
            self.hit(kind + ':constructor')
        for _ in range(rng.randint(0, 3)):
            self.function('%s_%s' % (sp, self.fresh()), first=('self', P(T(cname))))
            self.hit(kind + ':method')
        if self.coin(0.3):
            self.function('%s_%s' % (sp, self.fresh()))
            self.hit(kind + ':static')
        if self.coin(0.3):
            cf, ff = sp + '_copy', sp + '_free'
            self.decls.append({'d': 'function', 'name': cf, 'ret': P(T(cname)),
                               'params': [{'name': 'self', 'type': P(T(cname))}], 'line': self.nl()})
            self.decls.append({'d': 'function', 'name': ff, 'ret': T('void'),
                               'params': [{'name': 'self', 'type': P(T(cname))}], 'line': self.nl()})
            if self.coin(0.7):
                ident_anns.append('(copy-func %s)' % cf)
                ident_anns.append('(free-func %s)' % ff)
                self.hit(kind + ':copy-free')
        if self.coin(0.7) or ident_anns or docs:
            if self.coin(0.1):
                ident_anns.append(self.attrs_ann())
            if self.coin(0.05):
                ident_anns.append('(skip)')
            self.add_comment(self.block(cname, docs, None, ident_anns))
        # field-level blocks (FooRec.field:) carry their own tags
        if not opaque and self.coin(0.15):
            named = [f['name'] for f in fl if f.get('name') and f['type']['k'] not in ('struct', 'union')]
            if named:
                self.add_comment(self.block('%s.%s' % (cname, rng.choice(named)), [], None,
                                            [self.attrs_ann()] if self.coin(0.3) else []))
                self.hit('field-block')
        return name

    def enum(self, bitfield):
        rng = self.rng
        w = self.fresh(rng.choice(['mode', 'kind', 'state', 'level', 'opts', 'error']))
        name = self.camel(w)
        cname = self.id + name
        up = '%s_%s' % (self.sym.upper(), w.upper())
        n = rng.randint(1, 5)
        mnames = rng.sample(['NONE', 'FIRST', 'SECOND', 'THIRD', 'LAST', 'ALL', 'X_Y', 'A1'], n)
        vals = [(1 << i) if bitfield else rng.choice([i, i, i - 1, i * 100, -i]) for i in range(n)]
        members = [{'name': '%s_%s' % (up, mn), 'value': v} for mn, v in zip(mnames, vals)]
        self.decls.append({'d': 'typedef', 'name': cname, 'line': self.nl(),
                           'type': {'k': 'enum', 'n': None, 'members': members, 'bitfield': bitfield}})
        (self.flags if bitfield else self.enums).append(name)
        self.hit('bitfield' if bitfield else 'enumeration')
        sp = '%s_%s' % (self.sym, w)
        if self.coin(0.4):
            self.hit('enum:registered')
            self.decls.append({'d': 'function', 'name': sp + '_get_type', 'ret': T('GType'), 'params': [],
                               'line': self.nl()})
            ms = ''.join('<member name="%s" nick="%s" value="%d"/>' % (m['name'], mn.lower().replace('_', '-'), m['value'])
                         for m, mn in zip(members, mnames))
            self.dump.append('<%s name="%s" get-type="%s_get_type">%s</%s>' %
                             ('flags' if bitfield else 'enum', cname, sp, ms, 'flags' if bitfield else 'enum'))
        if not bitfield and self.coin(0.3):
            self.hit('enum:error-domain')
            self.decls.append({'d': 'function', 'name': sp + '_quark', 'ret': T('GQuark'), 'params': [],
                               'line': self.nl()})
            self.dump.append('<error-quark function="%s_quark" domain="%s-quark"/>' % (sp, sp.replace('_', '-')))
        if self.coin(0.3):
            self.hit('enum:static-function')
            self.function('%s_%s' % (sp, self.fresh()), documented=self.coin())
        if self.coin(0.6):
            docs = [(m['name'], [self.attrs_ann()] if self.coin(0.1) else [], gen_doc(rng, False))
                    for m in members if self.coin(0.7)]
            ia = [self.attrs_ann()] if self.coin(0.1) else []
            if self.coin(0.05):
                ia.append('(skip)')
            self.add_comment(self.block(cname, docs, None, ia))
        return name

    def callback(self):
        rng = self.rng
        w = self.fresh(rng.choice(['func', 'notify', 'callback', 'visitor', 'filter']))
        name = self.camel(w)
        cname = self.id + name
        specs = self.param_specs(4, allow_varargs=False, for_callback=True)
        if self.coin(0.6):
            specs.append(({'name': 'user_data', 'type': T('gpointer')}, 'user_data',
                          ['(closure)'] if self.coin(0.3) else [], None))
        rty, ranns = self.ret_spec(None, specs)
        self.decls.append({'d': 'typedef', 'name': cname, 'line': self.nl(),
                           'type': P({'k': 'func', 'ret': rty, 'params': [s[0] for s in specs]})})
        self.callbacks.append(name)
        self.hit('callback')
        if self.coin(0.6):
            params = [(s[1], s[2], s[3]) for s in specs if s[1] and (s[2] or s[3])]
            ret = (ranns, gen_doc(rng, False)) if rty.get('k') != 'void' and (ranns or self.coin()) else None
            ia = [self.attrs_ann()] if self.coin(0.1) else []
            if self.coin(0.12):
                for a in ('finish-func', 'sync-func', 'async-func'):
                    if self.coin(0.5):
                        ia.append('(%s %s)' % (a, rng.choice(WORDS)))
                        self.hit('callback:ann-' + a)
            self.add_comment(self.block(cname, params, ret, ia))

    def klass(self, iface=False):
        rng = self.rng
        w = self.fresh(rng.choice(['widget', 'window', 'button', 'model', 'stream', 'buildable', 'source']))
        name = self.camel(w)
        cname = self.id + name
        sp = '%s_%s' % (self.sym, w)
        cls_struct = cname + ('Iface' if iface and self.coin() else ('Interface' if iface else 'Class'))
        self.decls.append({'d': 'typedef', 'name': cname, 'type': {'k': 'struct', 'n': '_' + cname}, 'line': self.nl()})
        self.decls.append({'d': 'typedef', 'name': cls_struct, 'type': {'k': 'struct', 'n': '_' + cls_struct},
                           'line': self.nl()})
        parent = None
        fundamental = False
        if not iface:
            if self.classes and self.coin(0.4):
                parent = rng.choice(self.classes)
            fundamental = parent is None and self.coin(0.12)
            pc = (self.id + parent) if parent else ('GTypeInstance' if fundamental else 'GObject')
            fl, fdocs = self.fields(name, 4, lead=[{'name': 'parent_instance', 'type': T(pc)}])
            # array lengths on instance fields make the scanner itself print an error: not generated
            fl = [f for f in fl]
            fdocs = [d for d in fdocs if not any('length=' in a for a in d[1])]
            self.decls.append({'d': 'struct', 'name': '_' + cname, 'fields': fl, 'line': self.nl()})
        else:
            fdocs = []
        # class / interface structure with virtual functions
        pcs = 'GTypeInterface' if iface else ((self.id + parent + 'Class') if parent else
                                              ('GTypeClass' if fundamental else 'GObjectClass'))
        cfields = [{'name': 'parent_class' if not iface else 'g_iface', 'type': T(pcs)}]
        vnames = []
        for _ in range(rng.randint(0, 3)):
            vn = self.fresh(rng.choice(['clicked', 'changed', 'activate', 'render', 'measure']))
            specs = self.param_specs(3, allow_varargs=False)
            rty, ranns = self.ret_spec(None, specs)
            ps = [{'name': 'self', 'type': P(T(cname))}] + [s[0] for s in specs]
            cfields.append({'name': vn, 'line': self.nl(), 'type': P({'k': 'func', 'ret': rty, 'params': ps})})
            vnames.append((vn, specs, rty, ranns))
            self.hit('virtual-method')
        if self.coin(0.3):
            cfields.append({'name': 'padding', 'type': {'k': 'array', 'of': T('gpointer'), 'n': 4}})
        self.decls.append({'d': 'struct', 'name': '_' + cls_struct, 'fields': cfields, 'line': self.nl()})
        self.decls.append({'d': 'function', 'name': sp + '_get_type', 'ret': T('GType'), 'params': [], 'line': self.nl()})
        # runtime data
        props = []
        for _ in range(rng.randint(0, 3)):
            pn = self.fresh(rng.choice(['title', 'visible', 'count', 'child', 'mode-x'])).replace('_', '-')
            pt = rng.choice(['gchararray', 'gboolean', 'gint', 'gdouble', 'GObject', 'GStrv', 'gpointer', 'GHashTable',
                             cname] + [self.id + e for e in self.enums])
            flags = rng.choice([1, 2, 3, 3, 7, 11, 3 | (1 << 31), 227, 0])
            dv = ''
            if self.coin(0.5):
                dv = ' default-value="%s"' % rng.choice(['0', 'NULL', 'a &lt;b&gt; &amp; &quot;c&quot;', 'TRUE', '1.5', ''])
            props.append((pn, '<property name="%s" type="%s" flags="%d"%s/>' % (pn, pt, flags, dv)))
            self.hit('property')
        sigs = []
        for _ in range(rng.randint(0, 3)):
            sn = self.fresh(rng.choice(['clicked', 'notify-me', 'changed', 'row-added'])).replace('_', '-')
            fl = ''
            if self.coin(0.7):
                fl += ' when="%s"' % rng.choice(['first', 'last', 'cleanup'])
            for a in ('no-recurse', 'detailed', 'action', 'no-hooks'):
                if self.coin(0.25):
                    fl += ' %s="1"' % a
            ptypes = [rng.choice(['gint', 'gchararray', 'GObject', 'gpointer', 'gdouble', cname, 'GStrv', 'gboolean'] +
                                 [self.id + e for e in self.enums]) for _ in range(rng.randint(0, 3))]
            rt = rng.choice(['void', 'void', 'gboolean', 'gint', 'gchararray'])
            arr = None
            if self.coin(0.2):
                # an array argument (and possibly an array return value) whose length is another argument
                ptypes += ['gpointer', 'gint']
                arr = (len(ptypes) - 2, len(ptypes) - 1, self.coin(0.5))
                if arr[2]:
                    rt = 'gpointer'
                self.hit('signal:array-length')
            # gdump lists the signal's own arguments only (no instance): GDumpParser names them object, p0, p1, …
            sigs.append((sn, ptypes, rt, '<signal name="%s" return="%s"%s>%s</signal>' %
                         (sn, rt, fl, ''.join('<param type="%s"/>' % p for p in ptypes)), arr))
            self.hit('signal')
        attrs = ''
        if not iface:
            chain = []
            p = parent
            while p:
                chain.append(self.id + p)
                p = self.parents.get(p)
            if not fundamental:
                chain.append('GObject')
            attrs = ' parents="%s"' % ','.join(chain)
            if self.coin(0.2):
                attrs += ' abstract="1"'
                self.hit('class:abstract')
            elif self.coin(0.15):
                attrs += ' final="1"'
                self.hit('class:final')
        inner = ''.join(p[1] for p in props) + ''.join(sg[3] for sg in sigs)
        if iface:
            inner += '<prerequisite name="%s"/>' % (self.id + rng.choice(self.classes) if self.classes and self.coin(0.3)
                                                     else 'GObject')
        elif self.ifaces:
            for i in rng.sample(self.ifaces, rng.randint(0, min(2, len(self.ifaces)))):
                inner += '<implements name="%s"/>' % (self.id + i)
                self.hit('class:implements')
        tagn = 'interface' if iface else ('fundamental' if fundamental else 'class')
        self.dump.append('<%s name="%s" get-type="%s_get_type"%s>%s</%s>' % (tagn, cname, sp, attrs, inner, tagn))
        self.hit(tagn)
        if iface:
            self.ifaces.append(name)
        else:
            self.classes.append(name)
            self.parents[name] = parent
        # functions
        if not iface and self.coin(0.7):
            self.function(sp + '_new', ctor_of=name)
            self.hit('class:constructor')
            if self.coin(0.3):
                self.function(sp + '_new_' + self.fresh('with'), ctor_of=name)
        for vn, specs, rty, ranns in vnames:
            if self.coin(0.5):      # an invoker with the vfunc's name
                self.decls.append({'d': 'function', 'name': '%s_%s' % (sp, vn), 'ret': rty, 'line': self.nl(),
                                   'params': [{'name': 'self', 'type': P(T(cname))}] + [s[0] for s in specs]})
                self.hit('vfunc:invoker')
            if self.coin(0.5):
                self.add_comment(self.block('%s::%s' % (cname, vn) if False else '%s_%s' % (sp, vn),
                                            [('self', [], 'me')] + [(s[1], s[2], s[3]) for s in specs if s[1]],
                                            (ranns, 'r') if rty.get('k') != 'void' else None,
                                            ['(virtual %s)' % vn] if self.coin(0.2) else []))
        for _ in range(rng.randint(0, 3)):
            self.function('%s_%s' % (sp, self.fresh()), first=('self', P(T(cname))))
            self.hit('class:method')
        if self.coin(0.4):
            self.function('%s_%s' % (sp, self.fresh()))
            self.hit('class:static')
        # comment blocks for the type, its properties and signals
        ident_anns = []
        if fundamental and self.coin(0.8):
            for fn, ann in (('ref', 'ref-func'), ('unref', 'unref-func'), ('set_value', 'set-value-func'),
                            ('get_value', 'get-value-func')):
                if self.coin(0.7):
                    self.decls.append({'d': 'function', 'name': '%s_%s' % (sp, fn), 'ret': T('void'), 'line': self.nl(),
                                       'params': [{'name': 'self', 'type': P(T(cname))}]})
                    ident_anns.append('(%s %s_%s)' % (ann, sp, fn))
                    self.hit('class:' + ann)
        if self.coin(0.7) or ident_anns:
            if self.coin(0.1):
                ident_anns.append(self.attrs_ann())
            if self.coin(0.05):
                ident_anns.append('(skip)')
            self.add_comment(self.block(cname, fdocs, None, ident_anns))
        for pn, _x in props:
            if self.coin(0.6):
                anns = []
                if self.coin(0.2):
                    anns.append('(transfer %s)' % rng.choice(['none', 'full', 'container']))
                if self.coin(0.15):
                    anns.append('(type utf8)')
                if self.coin(0.15):
                    anns.append('(default-value %s)' % rng.choice(['42', 'NULL', 'x']))
                if self.coin(0.1):
                    anns.append(self.attrs_ann())
                self.add_comment(self.block('%s:%s' % (cname, pn), [], None, anns))
        for sn, ptypes, rt, _x, arr in sigs:
            if self.coin(0.6) or arr:
                # names are taken from the block only when it has MORE parameters than the signal (the instance first)
                short_block = self.coin(0.1) and not arr
                pd = [('self', [], 'emitter')] if not short_block else []
                for i in range(len(ptypes)):
                    pa = []
                    if arr and i == arr[0]:
                        pa = ['(array length=arg%d)' % arr[1], '(element-type guint8)']
                    elif self.coin(0.1):
                        pa = [rng.choice(['(nullable)', '(transfer none)', '(type gint)'])] if ptypes[i] == 'gpointer' else []
                    pd.append(('arg%d' % i, pa, gen_doc(rng, False)))
                anns = [self.attrs_ann()] if self.coin(0.1) else []
                if self.coin(0.15):
                    anns.append('(emitter %s)' % rng.choice(WORDS))
                    self.hit('ann-emitter')
                if arr and arr[2]:
                    ret = (['(array length=arg%d)' % arr[1], '(element-type guint8)', '(transfer none)'], 'r')
                elif rt != 'void':
                    ret = ([rng.choice(['(transfer full)', '(nullable)'])] if rt == 'gchararray' and self.coin() else [], 'r')
                else:
                    ret = None
                self.add_comment(self.block('%s::%s' % (cname, sn), pd, ret, anns))
        return name

    def constant(self):
        rng = self.rng
        w = self.fresh(rng.choice(['max', 'min', 'version', 'name', 'ratio', 'enabled'])).upper()
        cn = '%s_%s' % (self.sym.upper(), w)
        k = rng.choice(['int', 'int', 'string', 'double', 'bool', 'typed'])
        d = {'d': 'const', 'name': cn, 'line': self.nl()}
        if k == 'int':
            d['int'] = rng.choice([0, 1, -1, 42, 2 ** 31 - 1, -2 ** 31, 2 ** 40])
        elif k == 'string':
            d['string'] = rng.choice(['hello', '', 'a<b>&"c"\'d', 'tab\there', 'café', ' sp ', 'line\nbreak',
                                      'cr\rx', '中文'])
        elif k == 'double':
            d['double'] = rng.choice([0.0, 1.5, -2.25, 1e10, 3.141592653589793])
        elif k == 'bool':
            d['bool'] = rng.choice([True, False])
        else:
            d['int'] = rng.choice([0, 255, 70000, -1])
            d['type'] = T(rng.choice(['guint8', 'guint', 'gint64', 'gushort', 'gsize']))
        self.decls.append(d)
        self.hit('constant:' + k)
        if self.coin(0.5):
            anns = []
            if self.coin(0.15):
                anns.append('(value %s)' % rng.choice(['7', '100']))
            if self.coin(0.1):
                anns.append('(type gint64)')
            if self.coin(0.1):
                anns.append('(skip)')
            if self.coin(0.1):
                anns.append(self.attrs_ann())
            self.add_comment(self.block(cn, [], None, anns))

    def build(self):
        rng = self.rng
        self.parents = {}
        plan = []
        for kind, lo, hi in (('enum', 0, 2), ('flags', 0, 2), ('callback', 0, 2), ('alias', 0, 2), ('struct', 0, 3),
                             ('union', 0, 2), ('iface', 0, 2), ('class', 0, 3), ('function', 0, 5), ('constant', 0, 3),
                             ('macro', 0, 2), ('section', 0, 2), ('bareboxed', 0, 1)):
            plan += [kind] * rng.randint(lo, hi)
        # types first (so that later declarations can refer to them), the rest shuffled
        order = {'enum': 0, 'flags': 0, 'callback': 2, 'alias': 0, 'struct': 1, 'union': 1, 'iface': 3, 'class': 4}
        plan.sort(key=lambda k: (order.get(k, 9), rng.random()))
        for kind in plan:
            if kind == 'enum':
                self.enum(False)
            elif kind == 'flags':
                self.enum(True)
            elif kind == 'callback':
                self.callback()
            elif kind == 'alias':
                w = self.fresh(rng.choice(['id', 'handle', 'real', 'text']))
                name = self.camel(w)
                target = rng.choice([T('int'), T('guint32'), T('double'), P(T('char')), T('gpointer')] +
                                    [P(T(self.id + r)) for r in self.records[:1]])
                self.decls.append({'d': 'typedef', 'name': self.id + name, 'type': target, 'line': self.nl()})
                self.aliases.append(name)
                self.hit('alias')
                if self.coin(0.4):
                    self.add_comment(self.block(self.id + name, [], None, [self.attrs_ann()] if self.coin(0.2) else []))
            elif kind in ('struct', 'union'):
                self.compound(kind)
            elif kind == 'iface':
                self.klass(True)
            elif kind == 'class':
                self.klass(False)
            elif kind == 'function':
                anns = []
                if self.coin(0.08):
                    for a in ('finish-func', 'sync-func', 'async-func'):
                        if self.coin(0.5):
                            anns.append('(%s %s)' % (a, rng.choice(WORDS)))
                            self.hit('ann-' + a)
                self.function('%s_%s' % (self.sym, self.fresh()), extra_ident_anns=anns)
                self.hit('function')
            elif kind == 'constant':
                self.constant()
            elif kind == 'macro':
                w = self.fresh(rng.choice(['check', 'is_thing', 'cast'])).upper()
                self.decls.append({'d': 'macro', 'name': '%s_%s' % (self.sym.upper(), w), 'line': self.nl(),
                                   'params': rng.sample(['a', 'b', 'obj', 'n'], rng.randint(0, 3))})
                self.hit('function-macro')
                if self.coin(0.5):
                    d = self.decls[-1]
                    self.add_comment(self.block(d['name'], [(p, [], gen_doc(rng, False)) for p in d['params']
                                                            if self.coin(0.7)], None, []))
            elif kind == 'section':
                w = self.fresh(rng.choice(['overview', 'intro', 'misc']))
                self.add_comment('/**\n * SECTION:%s\n * @short_description: %s\n * @title: T\n *\n%s */' %
                                 (w, gen_doc(rng, False), comment_lines(gen_doc(rng))))
                self.hit('docsection')
            elif kind == 'bareboxed':
                w = self.fresh(rng.choice(['token', 'cookie']))
                cname = self.id + self.camel(w)
                sp = '%s_%s' % (self.sym, w)
                self.decls.append({'d': 'function', 'name': sp + '_get_type', 'ret': T('GType'), 'params': [],
                                   'line': self.nl()})
                self.dump.append('<boxed name="%s" get-type="%s_get_type"/>' % (cname, sp))
                self.hit('glib:boxed')
                if self.coin(0.4):
                    # no C struct: the type name resolves to the ast.Boxed itself
                    self.records.append(self.camel(w))
                    # (when the pairing as constructor / method is refused — varargs, a skipped instance … — the
                    # function stays a static function of the boxed type)
                    self.function(sp + '_new', ctor_of=self.camel(w))
                    self.hit('glib:boxed:constructor')
                    for _ in range(rng.randint(0, 2)):
                        self.function('%s_%s' % (sp, self.fresh()), first=('self', P(T(cname))))
                        self.hit('glib:boxed:method')
                if self.coin(0.3):
                    # a static function of a bare boxed type (lost by the reader before 8ec1ba5)
                    self.function('%s_%s' % (sp, self.fresh()), documented=self.coin())
                    self.hit('glib:boxed:static-function')
                if self.coin(0.4):
                    self.add_comment(self.block(cname, [], None, []))
        # rename-to / shadows
        fns = [d for d in self.decls if d['d'] == 'function' and not d['name'].endswith('_get_type')]
        if len(fns) >= 2 and self.coin(0.3):
            a, b = rng.sample(fns, 2)
            if not any(c[0].startswith('/**\n * %s:' % b['name']) for c in self.comments):
                self.add_comment('/**\n * %s: (rename-to %s)\n *\n * shadowing\n */' % (b['name'], a['name']))
                self.hit('ann-rename-to')
        cfg = {'namespace': self.id, 'version': rng.choice(['1.0', '2.0', '0.10']),
               'id_prefixes': [self.id] + (['Fx'] if self.coin(0.1) else []),
               'sym_prefixes': [self.sym], 'decls': self.decls, 'comments': self.comments,
               'includes': [os.path.join(self.inc, 'GObject-2.0.gir')], 'include_paths': [self.inc],
               'dump': '<?xml version="1.0"?><dump>%s</dump>' % ''.join(self.dump),
               'shared_libraries': rng.choice([[], ['lib%s.so.0' % self.sym], ['liba.so.1', 'libb.so.2']]),
               'c_includes': rng.choice([[], ['%s/%s.h' % (self.sym, self.sym)], ['a.h', 'b.h', 'a.h']]),
               'packages': rng.choice([[], ['%s-1.0' % self.sym], ['z-1.0', 'a-2.0']]),
               'sources_top_dirs': rng.choice([['/src'], ['/src/%s' % self.sym], ['/elsewhere'], ['/src', '/src/%s' % self.sym]]),
               'default_file': '/src/%s/%s.h' % (self.sym, self.sym)}
        return cfg


# ------------------------------------------------------------------ two namespaces: one includes the other
# Names of real library families: the including namespace's name is a leading part of the included one's (Gdk /
# GdkPixbuf, Gst / GstBase, Gtk / GtkSource), the other way round, or unrelated.
PAIR_NAMES = [
    # (namespace, symbol prefix, included namespace, its symbol prefix, relation)
    ('Foo', 'foo', 'FooBase', 'foo_base', 'ns-is-prefix-of-included'),
    ('Gdk', 'gdk', 'GdkPixbuf', 'gdk_pixbuf', 'ns-is-prefix-of-included'),
    ('Gst', 'gst', 'GstBase', 'gst_base', 'ns-is-prefix-of-included'),
    ('Bar', 'bar', 'Barcode', 'barcode', 'ns-is-prefix-of-included'),
    ('Gx', 'gx', 'GxExtra', 'gx_extra', 'ns-is-prefix-of-included'),
    ('FooBase', 'foo_base', 'Foo', 'foo', 'included-is-prefix-of-ns'),
    ('GdkPixbuf', 'gdk_pixbuf', 'Gdk', 'gdk', 'included-is-prefix-of-ns'),
    ('Foo', 'foo', 'Pix', 'pix', 'unrelated'),
    ('Bar', 'bar', 'Foo', 'foo', 'unrelated'),
    ('Gdk', 'gdk', 'Gd', 'gd', 'included-is-prefix-of-ns'),
]


def placeholder_name(ns, inc):
    """For `inc` = `ns` + suffix: a name of the same length which does NOT begin with `ns` and sorts the same way
    relative to 'ns.', 'GLib', 'GObject' (last character of the common part replaced by its successor)."""
    if not inc.startswith(ns) or inc == ns or len(ns) < 2:
        return None
    return ns[:-1] + chr(ord(ns[-1]) + 1) + inc[len(ns):]


class PairGen(object):
    """A scanpipe configuration of an included namespace (record, enumeration, flags, callback, class with class
    structure, interface, alias) and one of a namespace that refers to those types in every position the writer
    names a type: <type name> of parameters / return values / fields / properties / signal arguments / element
    types / alias targets, parent=, <implements>, <prerequisite>."""

    def __init__(self, rng, cnt, incdir, names=None):
        self.rng = rng
        self.cnt = cnt
        self.inc = incdir
        self.names = names or rng.choice(PAIR_NAMES)

    def coin(self, p=0.5):
        return self.rng.random() < p

    def build_included(self):
        rng = self.rng
        _n, _s, M, ms, _rel = self.names
        line = [3]

        def nl():
            line[0] += rng.randint(1, 6)
            return line[0]
        w = {k: rng.choice(v) for k, v in (('rec', ['Frame', 'Region', 'Span']), ('enum', ['Format', 'Order']),
                                           ('flags', ['Caps', 'Hints']), ('cb', ['Notify', 'Visit']),
                                           ('cls', ['Loader', 'Engine', 'Sink']), ('iface', ['Source', 'Codec']),
                                           ('alias', ['Stamp', 'Token']))}
        self.w = w
        lo = {k: v.lower() for k, v in w.items()}
        decls, dump = [], []
        decls.append({'d': 'typedef', 'name': M + w['rec'], 'type': {'k': 'struct', 'n': '_' + M + w['rec']}, 'line': nl()})
        decls.append({'d': 'struct', 'name': '_' + M + w['rec'], 'line': nl(),
                      'fields': [{'name': 'width', 'type': T('int')}, {'name': 'next', 'type': P(T(M + w['rec']))}]})
        up = ms.upper()
        decls.append({'d': 'typedef', 'name': M + w['enum'], 'line': nl(),
                      'type': {'k': 'enum', 'n': None, 'bitfield': False,
                               'members': [{'name': '%s_%s_%s' % (up, lo['enum'].upper(), x), 'value': i}
                                           for i, x in enumerate(['NONE', 'FIRST', 'LAST'][:rng.randint(1, 3)])]}})
        decls.append({'d': 'typedef', 'name': M + w['flags'], 'line': nl(),
                      'type': {'k': 'enum', 'n': None, 'bitfield': True,
                               'members': [{'name': '%s_%s_%s' % (up, lo['flags'].upper(), x), 'value': 1 << i}
                                           for i, x in enumerate(['A', 'B'])]}})
        decls.append({'d': 'typedef', 'name': M + w['cb'], 'line': nl(),
                      'type': P({'k': 'func', 'ret': T('void'),
                                 'params': [{'name': 'item', 'type': P(T(M + w['rec']))},
                                            {'name': 'user_data', 'type': T('gpointer')}]})})
        decls.append({'d': 'typedef', 'name': M + w['alias'], 'type': T('guint32'), 'line': nl()})
        c = M + w['cls']
        decls.append({'d': 'typedef', 'name': c, 'type': {'k': 'struct', 'n': '_' + c}, 'line': nl()})
        decls.append({'d': 'typedef', 'name': c + 'Class', 'type': {'k': 'struct', 'n': '_' + c + 'Class'}, 'line': nl()})
        decls.append({'d': 'struct', 'name': '_' + c, 'line': nl(),
                      'fields': [{'name': 'parent_instance', 'type': T('GObject')}]})
        decls.append({'d': 'struct', 'name': '_' + c + 'Class', 'line': nl(),
                      'fields': [{'name': 'parent_class', 'type': T('GObjectClass')},
                                 {'name': 'load', 'line': nl(),
                                  'type': P({'k': 'func', 'ret': T('int'),
                                             'params': [{'name': 'self', 'type': P(T(c))},
                                                        {'name': 'item', 'type': P(T(M + w['rec']))}]})}]})
        decls.append({'d': 'function', 'name': '%s_%s_get_type' % (ms, lo['cls']), 'ret': T('GType'), 'params': [],
                      'line': nl()})
        dump.append('<class name="%s" get-type="%s_%s_get_type" parents="GObject"/>' % (c, ms, lo['cls']))
        i = M + w['iface']
        decls.append({'d': 'typedef', 'name': i, 'type': {'k': 'struct', 'n': '_' + i}, 'line': nl()})
        decls.append({'d': 'typedef', 'name': i + 'Interface', 'type': {'k': 'struct', 'n': '_' + i + 'Interface'},
                      'line': nl()})
        decls.append({'d': 'struct', 'name': '_' + i + 'Interface', 'line': nl(),
                      'fields': [{'name': 'g_iface', 'type': T('GTypeInterface')}]})
        decls.append({'d': 'function', 'name': '%s_%s_get_type' % (ms, lo['iface']), 'ret': T('GType'), 'params': [],
                      'line': nl()})
        dump.append('<interface name="%s" get-type="%s_%s_get_type"><prerequisite name="GObject"/></interface>'
                    % (i, ms, lo['iface']))
        return {'namespace': M, 'version': rng.choice(['2.0', '1.0']), 'id_prefixes': [M], 'sym_prefixes': [ms],
                'decls': decls, 'comments': [], 'dump': '<?xml version="1.0"?><dump>%s</dump>' % ''.join(dump),
                'sources_top_dirs': ['/src'], 'default_file': '/src/%s/%s.h' % (ms, ms)}

    def build(self):
        """-> (cfg of the included namespace, cfg of the namespace that uses it); `includes` / `include_paths` are
        filled in by scan_pair"""
        rng = self.rng
        N, ns, M, ms, rel = self.names
        inc_cfg = self.build_included()
        w = self.w
        g = NsGen(rng, self.cnt, self.inc)
        g.id, g.sym = N, ns
        for x in ('viewer', 'feed', 'slot', 'walker', 'ticket'):
            g.used.add(x)
        cfg = g.build()
        # a (random) second identifier prefix 'Fx' stays; the symbol prefix is the pair's
        rec, enum, flags, cb = M + w['rec'], M + w['enum'], M + w['flags'], M + w['cb']
        cls, iface, alias = M + w['cls'], M + w['iface'], M + w['alias']
        used = []

        def use(label):
            used.append(label)
            self.cnt.hit('pair:use:' + label)
        fhdr = '/src/%s/%s.h' % (ns, ns)
        # 1. a function taking and returning types of the included namespace (always)
        f1 = '%s_peek_%s' % (ns, rng.choice(['first', 'best', 'any']))
        params = [{'name': 'item', 'type': P(T(rec))}]
        blk = ['/**', ' * %s:' % f1, ' * @item: an item']
        if self.coin(0.7):
            params.append({'name': 'how', 'type': T(rng.choice([enum, flags]))})
            blk.append(' * @how: how')
            use('param:enum')
        if self.coin(0.5):
            params.append({'name': 'stamp', 'type': T(alias)})
            use('param:alias')
        if self.coin(0.6):
            params += [{'name': 'fn', 'type': T(cb)}, {'name': 'user_data', 'type': T('gpointer')}]
            blk.append(' * @fn: (scope call): visitor')
            use('param:callback')
        if self.coin(0.5):
            params.append({'name': 'items', 'type': P(T('GList'))})
            blk.append(' * @items: (element-type %s.%s) (transfer none): more' % (M, w['rec']))
            use('param:list-element')
        if self.coin(0.4):
            params += [{'name': 'arr', 'type': P(P(T(cls)))}, {'name': 'n_arr', 'type': T('int')}]
            blk.append(' * @arr: (array length=n_arr) (transfer none): objects')
            use('param:array-element')
        blk += [' *', ' * Returns: (transfer none): the same', ' */']
        g.decls.append({'d': 'function', 'name': f1, 'ret': P(T(rec)), 'params': params, 'line': g.nl(), 'file': fhdr})
        use('param+return:record')
        if self.coin(0.8):
            g.add_comment('\n'.join(blk))
        # 2. a record with fields of foreign types
        if self.coin(0.7):
            c = N + 'Slot'
            g.decls.append({'d': 'typedef', 'name': c, 'type': {'k': 'struct', 'n': '_' + c}, 'line': g.nl()})
            fl = [{'name': 'depth', 'type': T('int')}, {'name': 'item', 'type': P(T(rec))}]
            if self.coin():
                fl.append({'name': 'inline_item', 'type': T(rec)})
            if self.coin():
                fl.append({'name': 'how', 'type': T(enum)})
            if self.coin():
                fl.append({'name': 'obj', 'type': P(T(cls))})
            if self.coin():
                fl.append({'name': 'fn', 'type': T(cb)})
            g.decls.append({'d': 'struct', 'name': '_' + c, 'fields': fl, 'line': g.nl()})
            use('field')
        # 3. a class derived from a foreign class, implementing a foreign interface
        if self.coin(0.8):
            c = N + 'Viewer'
            sp = ns + '_viewer'
            g.decls.append({'d': 'typedef', 'name': c, 'type': {'k': 'struct', 'n': '_' + c}, 'line': g.nl()})
            g.decls.append({'d': 'typedef', 'name': c + 'Class', 'type': {'k': 'struct', 'n': '_' + c + 'Class'},
                            'line': g.nl()})
            g.decls.append({'d': 'struct', 'name': '_' + c, 'line': g.nl(),
                            'fields': [{'name': 'parent_instance', 'type': T(cls)}]})
            cf = [{'name': 'parent_class', 'type': T(cls + 'Class')}]
            if self.coin():
                cf.append({'name': 'show', 'line': g.nl(),
                           'type': P({'k': 'func', 'ret': P(T(rec)),
                                      'params': [{'name': 'self', 'type': P(T(c))}, {'name': 'src', 'type': P(T(iface))}]})})
                use('vfunc')
            g.decls.append({'d': 'struct', 'name': '_' + c + 'Class', 'fields': cf, 'line': g.nl()})
            g.decls.append({'d': 'function', 'name': sp + '_get_type', 'ret': T('GType'), 'params': [], 'line': g.nl()})
            inner = ''
            if self.coin(0.7):
                inner += '<implements name="%s"/>' % iface
                use('implements')
            if g.ifaces and self.coin(0.5):
                inner += '<implements name="%s"/>' % (N + g.ifaces[0])
                use('implements:own-too')
            if self.coin(0.6):
                inner += '<property name="engine" type="%s" flags="3"/>' % cls
                use('property')
            if self.coin(0.6):
                inner += '<signal name="loaded" return="void" when="last"><param type="%s"/></signal>' % cls
                use('signal-param')
            g.dump.append('<class name="%s" get-type="%s_get_type" parents="%s,GObject">%s</class>' % (c, sp, cls, inner))
            use('parent')
            if self.coin(0.7):
                g.decls.append({'d': 'function', 'name': sp + '_new', 'ret': P(T(c)), 'line': g.nl(), 'file': fhdr,
                                'params': [{'name': 'from', 'type': P(T(cls))}]})
                use('constructor-param')
            if self.coin(0.7):
                g.decls.append({'d': 'function', 'name': sp + '_set_source', 'ret': T('void'), 'line': g.nl(), 'file': fhdr,
                                'params': [{'name': 'self', 'type': P(T(c))}, {'name': 'src', 'type': P(T(iface))}]})
                use('method-param:interface')
        # 4. an interface whose prerequisite is a foreign class
        if self.coin(0.6):
            c = N + 'Feed'
            sp = ns + '_feed'
            g.decls.append({'d': 'typedef', 'name': c, 'type': {'k': 'struct', 'n': '_' + c}, 'line': g.nl()})
            g.decls.append({'d': 'typedef', 'name': c + 'Interface', 'type': {'k': 'struct', 'n': '_' + c + 'Interface'},
                            'line': g.nl()})
            g.decls.append({'d': 'struct', 'name': '_' + c + 'Interface', 'line': g.nl(),
                            'fields': [{'name': 'g_iface', 'type': T('GTypeInterface')}]})
            g.decls.append({'d': 'function', 'name': sp + '_get_type', 'ret': T('GType'), 'params': [], 'line': g.nl()})
            g.dump.append('<interface name="%s" get-type="%s_get_type"><prerequisite name="%s"/></interface>'
                          % (c, sp, rng.choice([cls, iface])))
            use('prerequisite')
        # 5. a callback and an alias over foreign types
        if self.coin(0.5):
            g.decls.append({'d': 'typedef', 'name': N + 'Walker', 'line': g.nl(),
                            'type': P({'k': 'func', 'ret': T(enum),
                                       'params': [{'name': 'item', 'type': P(T(rec))},
                                                  {'name': 'user_data', 'type': T('gpointer')}]})})
            use('callback')
        if self.coin(0.5):
            g.decls.append({'d': 'typedef', 'name': N + 'Ticket', 'type': rng.choice([T(alias), P(T(rec)), T(enum)]),
                            'line': g.nl()})
            use('alias-target')
        cfg['decls'] = g.decls
        cfg['comments'] = g.comments
        cfg['dump'] = '<?xml version="1.0"?><dump>%s</dump>' % ''.join(g.dump)
        cfg['namespace'] = N
        cfg['id_prefixes'] = [N] + cfg['id_prefixes'][1:]
        cfg['sym_prefixes'] = [ns]
        self.used = used
        return inc_cfg, {k: v for k, v in cfg.items() if k not in ('includes', 'include_paths')}


def rename_cfg(cfg, old, new):
    """the same configuration with every occurrence of the identifier part `old` spelled `new`"""
    return json.loads(json.dumps(cfg).replace(old, new))


def scan_pair(inc_cfg, cfg, pairdir, inc):
    """Scans the included namespace, stores its GIR in `pairdir` under the name an <include> looks for, then scans
    the namespace that uses it.  -> (out_inc, out, why)"""
    os.makedirs(pairdir, exist_ok=True)
    ic = dict(inc_cfg)
    ic['includes'] = [os.path.join(inc, 'GObject-2.0.gir')]
    ic['include_paths'] = [inc]
    out_inc, why = scan_generated(ic)
    if out_inc is None or out_inc.get('gir') is None:
        return None, None, 'included namespace: %s' % why
    ipath = os.path.join(pairdir, '%s-%s.gir' % (ic['namespace'], ic['version']))
    with open(ipath, 'w', encoding='utf-8') as f:
        f.write(out_inc['gir'])
    c = dict(cfg)
    c['includes'] = [os.path.join(inc, 'GObject-2.0.gir'), ipath]
    c['include_paths'] = [pairdir, inc]
    out, why = scan_generated(c)
    return out_inc, out, why


def judge_pair(judge, inc_cfg, cfg, pairdir, inc, origin, replay, count=True):
    """The property's oracle on a pair of freshly scanned namespaces:
      * the included namespace's GIR and the including namespace's GIR: w1 == w2 == w3, Transformer path, AST walk
        written-vs-read (Judge.judge with the scanned model);
      * when the included namespace's name begins with the including one's: the GIR text of the SAME sources scanned
        with the included namespace spelled differently (same length, same sort order, not beginning with the
        including namespace's name), with the real spelling put back textually — a file as it is found in a source
        tree, which the writer under test has not produced — must be byte-identical after read -> write.
    -> ([status...], failures, [(label, scan result or None, GIR text)...])"""
    sts, fails, outs = [], [], []
    out_inc, out, why = scan_pair(inc_cfg, cfg, pairdir, inc)
    if out is None or out.get('gir') is None:
        if why and why.startswith('WRITER '):
            fails.append({'key': origin + ':writer-exception',
                          'what': 'GIRWriter raised while writing a freshly scanned namespace (%s): %s' % (origin, why[7:]),
                          'replay': dict(replay, failure='writer exception')})
            return ['writer-exception'], fails, outs
        return ['outside(rejected-by-scanner)'], fails, outs
    roots = cfg.get('sources_top_dirs', ['/src'])
    incdirs = [pairdir, inc]
    ifname = '%s-%s.gir' % (inc_cfg['namespace'], inc_cfg['version'])
    fname = '%s-%s.gir' % (cfg['namespace'], cfg['version'])
    st, f, _i = judge.judge(out_inc['gir'].encode('utf-8'), ifname, origin + ':included', dict(replay, which='included'),
                            ns_written=out_inc['namespace'], roots=inc_cfg.get('sources_top_dirs', ['/src']),
                            incdirs=[inc], count=count)
    sts.append('included:' + st)
    fails += f
    outs.append(('included', out_inc, out_inc['gir']))
    st, f, _i = judge.judge(out['gir'].encode('utf-8'), fname, origin, dict(replay, which='including'),
                            ns_written=out['namespace'], roots=roots, incdirs=incdirs, count=count)
    sts.append('including:' + st)
    fails += f
    outs.append(('including', out, out['gir']))
    N, M = cfg['namespace'], inc_cfg['namespace']
    ph = placeholder_name(N, M)
    if ph is not None and ph not in json.dumps([inc_cfg, cfg]):
        _oi, o2, _w = scan_pair(rename_cfg(inc_cfg, M, ph), rename_cfg(cfg, M, ph), os.path.join(pairdir, 'renamed'), inc)
        if o2 is not None and o2.get('gir') is not None:
            text = o2['gir'].replace(ph, M)
            st, f, _i = judge.judge(text.encode('utf-8'), fname, origin + ':as-found-in-a-tree',
                                    {'kind': 'gir-with-includes', 'text': text, 'filename': fname,
                                     'includes': {ifname: out_inc['gir']}, 'derived_from': replay},
                                    must_be_identical=True, incdirs=incdirs, count=count)
            sts.append('as-found-in-a-tree:' + st)
            fails += f
            outs.append(('as-found-in-a-tree', None, text))
    return sts, fails, outs


# ------------------------------------------------------------------ judging one GIR text
class Judge(object):
    """Evaluates the property's oracle on one GIR text.  Returns the list of failures (each a dict
    key/what/replay); the caller files them with ctx (directly, or as a pending finding)."""

    def __init__(self, cnt, scratch, incdir):
        self.cnt = cnt
        self.scratch = scratch
        self.inc = incdir

    def judge(self, w1, fname, origin, replay, ns_written=None, roots=(), must_be_identical=True, incdirs=None,
              want_tr=True, count=True):
        """origin: label used in keys; ns_written: the namespace object w1 was written from (a scanned
        namespace) or None.  -> (status, failures, info)"""
        cnt = self.cnt
        fails = []

        def fail(kind, what, extra):
            fails.append({'key': '%s:%s' % (origin, kind), 'what': what, 'replay': dict(replay, **extra)})
        try:
            r = cycle_bytes(w1, fname, self.scratch, incdirs if incdirs is not None else [self.inc], want_tr)
        except CycleError as e:
            fail('exception:%s' % type(e.exc).__name__,
                 'the GIR reader/writer raised on %s during %s: %r\n%s' % (origin, e.stage, e.exc, e.tb[-700:]),
                 {'failure': 'exception', 'stage': e.stage})
            if count:
                cnt.hit('verdict:exception')
            return 'exception', fails, {}
        w2, w3 = r['w2'], r['w3']
        status = 'ok'
        if w2 != w3:
            d = first_diff(w2, w3)
            fail('not-a-fixed-point',
                 'write(parse(w2)) differs from w2 (a file produced by a write does not survive the next cycle) '
                 'for %s: %s' % (origin, short(d, 400)), {'failure': 'w2!=w3', 'diff': d})
            status = 'w2!=w3'
        if w1 != w2:
            if must_be_identical:
                d = first_diff(w1, w2)
                fail('not-byte-identical', 'write(parse(w1)) differs from w1 for %s: %s' % (origin, short(d, 400)),
                     {'failure': 'w1!=w2', 'diff': d})
                status = 'w1!=w2'
            elif count:
                cnt.hit('verdict:hand-maintained-normalised')
        if want_tr:
            if r['tr'] is None:
                if count:
                    cnt.hit('transformer-path:skipped(includes)')
            else:
                if count:
                    cnt.hit('transformer-path:run')
                if r['tr'] != w2:
                    d = first_diff(w2, r['tr'])
                    fail('transformer-path-differs',
                         'Transformer.parse_from_gir + GIRWriter gives a different text than GIRParser + GIRWriter '
                         'for %s: %s' % (origin, short(d, 400)), {'failure': 'transformer path', 'diff': d})
                    status = 'tr-differs'
        # AST walk: written model vs model read back, and model read back vs model read back again
        pairs = []
        try:
            if ns_written is not None:
                pairs.append(('written-vs-read', Canon(list(roots)).namespace(ns_written),
                              Canon([]).namespace(r['ns1'])))
            pairs.append(('read-vs-reread', Canon([]).namespace(r['ns1']), Canon([]).namespace(r['ns2'])))
        except Exception as e:  # noqa  (an ast class lost an attribute the walk reads)
            fail('ast-walk-error', 'the AST walk could not read the model of %s: %r' % (origin, e),
                 {'failure': 'ast walk', 'error': traceback.format_exc()[-600:]})
        for label, a, b in pairs:
            diffs = deep_diff(a, b)
            if diffs and (label == 'written-vs-read' or w1 == w2 or must_be_identical):
                fail('ast-' + label,
                     'the model read back differs from the model written (%s) for %s: %s'
                     % (label, origin, '; '.join('%s: %s -> %s' % (p, short(x, 80), short(y, 80))
                                                  for p, x, y in diffs[:4])),
                     {'failure': 'ast ' + label, 'diffs': [[p, short(x), short(y)] for p, x, y in diffs]})
                if status == 'ok':
                    status = 'ast'
        if count:
            cnt.hit('verdict:' + status)
        return status, fails, {'w2': w2, 'tr': r['tr'] is not None, 'identical': w1 == w2}


def neutralise(cfg, triggers):
    """The same namespace without the constructs that trigger a pending finding."""
    c = copy.deepcopy(cfg)
    for t in triggers:
        t = t[1:]
        if t[0] == 'drop-function':
            c['decls'] = [d for d in c['decls'] if not (d['d'] == 'function' and d['name'] == t[1])]
            c['comments'] = [x for x in c['comments'] if not x[0].startswith('/**\n * %s:' % t[1])]
        elif t[0] == 'replace-in-comments':
            c['comments'] = [(x[0].replace(t[1], t[2]), x[1], x[2]) for x in c['comments']]
    return c


def scan_generated(cfg):
    """Run the real scanner pipeline; returns (out, None) or (None, reason) when the generated
    input is rejected by the scanner itself (outside the property's quantifier)."""
    err, out_ = sys.stderr, sys.stdout
    sys.stderr = io.StringIO()
    sys.stdout = io.StringIO()
    try:
        try:
            return scanpipe.scan(cfg), None
        except SystemExit as e:
            return None, 'SystemExit(%s)' % (e, )
        except Exception as e:  # noqa
            tb = traceback.format_exc()
            if 'giscanner/girwriter.py' in tb or 'giscanner/xmlwriter.py' in tb:
                # the scan itself went through: it is the GIR writer that cannot write the namespace
                return None, 'WRITER ' + tb[-900:]
            return None, '%s: %s' % (type(e).__name__, str(e)[:200])
    finally:
        sys.stderr, sys.stdout = err, out_


# ------------------------------------------------------------------ fragment correspondence (Lean model vs real code)
XMLNS = {'http://www.gtk.org/introspection/core/1.0': '', 'http://www.gtk.org/introspection/c/1.0': 'c:',
         'http://www.gtk.org/introspection/glib/1.0': 'glib:', 'http://www.gtk.org/introspection/doc/1.0': 'doc:',
         'http://www.w3.org/XML/1998/namespace': 'xml:'}


def _qn(name):
    if name.startswith('{'):
        uri, _, local = name[1:].partition('}')
        return XMLNS.get(uri, '{%s}' % uri) + local
    return name


def et_to_tree(el):
    kids = [et_to_tree(k) for k in el]
    return {'tag': _qn(el.tag), 'attrs': [[_qn(k), v] for k, v in el.attrib.items()], 'kids': kids,
            'text': (el.text if not kids and el.text else None)}


def _esc(s, attr=False):
    s = s.replace('&', '&amp;').replace('<', '&lt;').replace('>', '&gt;')
    if attr:
        s = s.replace('"', '&quot;').replace('\n', '&#10;').replace('\t', '&#9;').replace('\r', '&#13;')
    return s


def tree_to_xml(t):
    out = '<' + t['tag'] + ''.join(' %s="%s"' % (k, _esc(v, True)) for k, v in t['attrs'])
    if not t['kids'] and t['text'] is None:
        return out + '/>'
    return out + '>' + (_esc(t['text']) if t['text'] is not None else '') + ''.join(tree_to_xml(k) for k in t['kids']) \
        + '</' + t['tag'] + '>'


STR_POOL = ['x', 'a b', 'é', '<&>"\'', 'tab\there', ' lead', 'trail ', '1', '0', 'None']
CTYPES = ['int', 'gchar*', 'const char*', 'FooBar*', 'gpointer', 'GList*', 'void', 'int*', 'char**', 'guint8*']
GINAMES = ['Foo.Bar', 'Foo.Baz', 'Other.Thing', 'GObject.Object', 'Foo.Sub.X', 'Foo.int', 'Foo.utf8', 'GLib.Variant',
           'GLib.List', 'GLib.HashTable', 'Foo.GLib.List', 'Foox.Bar', 'Foo.']
FUNDS = ['gint', 'utf8', 'gpointer', 'none', 'gboolean', 'filename', 'long long', 'guint8', 'GType', 'gdouble', 'int', 'any']


class FragGen(object):
    """model-level Ty / Param / Callable values (the JSON the Lean driver reads)"""

    def __init__(self, rng, cnt, wild=0.1):
        self.rng = rng
        self.cnt = cnt
        self.wild = wild

    def coin(self, p=0.5):
        return self.rng.random() < p

    def ostr(self, pool, p_none=0.4, p_empty=0.03):
        r = self.rng.random()
        if r < p_none:
            return None
        if r < p_none + p_empty * (1 if self.coin(self.wild * 3) else 0):
            return ''
        return self.rng.choice(pool)

    def ctypes(self):
        c = self.ostr(CTYPES, 0.2)
        cc = self.ostr(CTYPES, 0.7)
        return c, cc

    def ty(self, depth=0, names=(), top=False):
        rng = self.rng
        kinds = ['plain'] * 6 + ['array'] * 3 + ['list', 'list', 'map', 'unknown']
        if depth == 0:
            kinds += ['varargs']
        if depth >= 2:
            kinds = ['plain'] * 5 + ['unknown']
        k = rng.choice(kinds)
        if self.coin(self.wild) and depth > 0:
            k = rng.choice(['varargs', 'array', 'plain'])
        self.cnt.hit('frag:ty:' + k)
        c, cc = self.ctypes()
        if k == 'unknown':
            return {'k': 'unknown'}
        if k == 'varargs':
            return {'k': 'varargs'}
        if k == 'plain':
            d = {'k': 'plain', 'ctype': c, 'cctype': cc}
            t = rng.choice(['giname', 'giname', 'fundamental', 'fundamental', 'fundamental', 'none', 'foreign'])
            if t == 'giname':
                d['giname'] = rng.choice(GINAMES[:5] if not self.coin(self.wild * 2) else GINAMES)
            elif t == 'fundamental':
                d['fundamental'] = rng.choice(FUNDS) if not self.coin(self.wild) else rng.choice(['notatype', 'GLib.List', 'a.b'])
            elif t == 'foreign':
                if self.coin(self.wild * 3):
                    d['foreign'] = 'Foreign'
                    d['ctype'] = d['ctype'] or 'cairo_t*'
            elif d['ctype'] is None and d['cctype'] is None and not self.coin(self.wild):
                d['ctype'] = 'FooUnresolved'
            return d
        if k == 'array':
            d = {'k': 'array', 'ctype': c, 'cctype': cc,
                 'array_type': rng.choice([None, None, 'GLib.Array', 'GLib.ByteArray', 'GLib.PtrArray']),
                 'zt': self.coin(0.5), 'size': rng.choice([None, None, None, 0, 1, 4, 100, -1]),
                 'length': None, 'elem': self.ty(depth + 1)}
            if names and (top or self.coin(self.wild)) and self.coin(0.5):
                d['length'] = rng.choice([n for n in names if n is not None] or ['nope']) \
                    if not self.coin(self.wild) else 'nope'
            return d
        if k == 'list':
            d = {'k': 'list', 'ctype': c, 'cctype': cc, 'name': rng.choice(['GLib.List', 'GLib.SList']),
                 'elem': self.ty(depth + 1)}
            if self.coin(self.wild):
                d['name'] = rng.choice([None, '', 'GLib.Other'])
            return d
        d = {'k': 'map', 'ctype': c, 'cctype': cc, 'key': self.ty(depth + 1), 'value': self.ty(depth + 1)}
        return d

    def docs(self, node=False):
        rng = self.rng
        d = {'attributes': [], 'doc': None, 'doc_pos': None, 'version_doc': None, 'deprecated_doc': None,
             'stability_doc': None, 'pos': None}
        if self.coin(0.25):
            keys = rng.sample(['k', 'a.b', 'x-y', '', 'é'], rng.randint(1, 3))
            d['attributes'] = [{'name': k, 'value': rng.choice(ATTR_VALUES)} for k in keys]
        if self.coin(0.4):
            d['doc'] = gen_doc(rng) if not self.coin(self.wild) else rng.choice(['', ' ', '\n', 'x\n'])
            if not self.coin(self.wild * 0.5):
                d['doc_pos'] = {'filename': rng.choice(['foo.c', 'src/a b.c', '../x.c', 'é.c']),
                                'line': str(rng.randint(1, 5000)),
                                'column': rng.choice([None, None, None, '3', '17'])}
        for k in ('version_doc', 'deprecated_doc', 'stability_doc'):
            if self.coin(0.1):
                d[k] = gen_doc(rng, False) if not self.coin(self.wild) else ''
        if node and self.coin(0.6):
            d['pos'] = {'filename': rng.choice(['foo.h', 'inc/foo.h', 'a&b.h']), 'line': rng.randint(1, 9999),
                        'column': rng.choice([None, None, 0, 5])}
        return d

    def param(self, name, names):
        rng = self.rng
        d = self.docs()
        d.update(name=name, type=self.ty(0, names, top=True),
                 direction=rng.choice([None, 'in', 'in', 'out', 'out', 'inout']), transfer=self.ostr(['none', 'full', 'container'], 0.2),
                 nullable=self.coin(0.3), not_nullable=self.coin(0.1), optional=self.coin(0.2),
                 scope=self.ostr(['call', 'async', 'notified', 'forever'], 0.75), caller_allocates=self.coin(0.3),
                 closure=None, destroy=None, skip=self.coin(0.1))
        if self.coin(self.wild):
            d['direction'] = rng.choice(['', 'OUT', 'x'])
        real = [n for n in names if n is not None]
        if real and self.coin(0.2):
            d['closure'] = rng.choice(real) if not self.coin(self.wild) else 'missing'
        if real and self.coin(0.1):
            d['destroy'] = rng.choice(real)
        return d

    def callable(self):
        rng = self.rng
        klass = rng.choice(['function'] * 5 + ['callback', 'callback', 'vfunction', 'signal', 'signal'])
        tag = {'function': rng.choice(['function', 'function', 'function-inline', 'method', 'method-inline', 'constructor']),
               'callback': 'callback', 'vfunction': 'virtual-method', 'signal': 'glib:signal'}[klass]
        n = rng.choice([0, 1, 2, 2, 3, 4, 6])
        names = []
        for i in range(n):
            nm = rng.choice(['a', 'b', 'data', 'user_data', 'n', 'len', 'cb', 'notify', 'self', 'x%d' % i])
            if self.coin(0.04):
                nm = None
            names.append(nm)
        if not self.coin(self.wild):
            seen = set()
            for i, nm in enumerate(names):
                if nm in seen:
                    names[i] = '%s%d' % (nm, i)
                seen.add(names[i])
        self.cnt.hit('frag:callable:' + tag)
        self.cnt.hit('frag:nparams=%d' % n)
        d = self.docs(node=True)
        ret = self.docs()
        ret.update(type=self.ty(0, names, top=True), transfer=self.ostr(['none', 'full', 'container'], 0.2),
                   nullable=self.coin(0.2), not_nullable=self.coin(0.1), skip=self.coin(0.1))
        d.update(klass=klass, tag=tag, name=rng.choice(['do_it', 'new', 'frob', 'x', 'é']), retval=ret,
                 params=[self.param(nm, names) for nm in names], instance=None, throws=self.coin(0.2),
                 version=self.ostr(['1.0', '2.34'], 0.6), skip=self.coin(0.1), introspectable=not self.coin(0.15),
                 deprecated=self.ostr(['1.2', '3.0'], 0.8), stability=self.ostr(['Stable', 'Unstable'], 0.85),
                 finish_func=self.ostr(['frob_finish'], 0.9), sync_func=self.ostr(['frob_sync'], 0.93),
                 async_func=self.ostr(['frob_async'], 0.93), symbol=None, shadowed_by=None, shadows=None, moved_to=None,
                 set_property=None, get_property=None, invoker=None, ctype=None,
                 when=None, no_recurse=False, detailed=False, action=False, no_hooks=False, emitter=None)
        if klass == 'signal':
            d.update(when=self.ostr(['first', 'last', 'cleanup', 'bogus'], 0.3), no_recurse=self.coin(0.25),
                     detailed=self.coin(0.25), action=self.coin(0.25), no_hooks=self.coin(0.25),
                     emitter=self.ostr(['frob', 'do_it'], 0.7), name=rng.choice(['clicked', 'row-added', 'notify-me', 'é']))
            if not self.coin(self.wild):
                # `_write_signal` writes neither throws nor the async attributes; no scanner code path sets them
                d.update(throws=False, finish_func=None, sync_func=None, async_func=None)
        if tag in ('method', 'method-inline', 'virtual-method') or (self.coin(self.wild) and klass != 'signal'):
            d['instance'] = self.param('self', names)
            d['instance']['closure'] = d['instance']['destroy'] = None
        if klass == 'function':
            d.update(symbol=self.ostr(['foo_do_it', 'foo_x'], 0.05), shadowed_by=self.ostr(['other'], 0.85),
                     shadows=self.ostr(['base'], 0.85), moved_to=self.ostr(['Bar.frob', ''], 0.9),
                     set_property=self.ostr(['prop'], 0.92), get_property=self.ostr(['prop'], 0.92))
        elif klass == 'vfunction':
            d['invoker'] = self.ostr(['do_it', ''], 0.5)
        elif klass == 'callback':
            d['ctype'] = rng.choice([None, 'FooDoIt', d['name'], 'FooCb'] + ([''] if self.coin(self.wild) else []))
        return d


    def members(self):
        """the fields of a record / union: typed fields (with array lengths naming sibling fields), fields holding
        a callback, anonymous struct / union members"""
        rng = self.rng
        n = rng.choice([0, 1, 2, 3, 3, 4, 5, 7])
        p_anon = rng.choice([0.0, 0.0, 0.15, 0.3])
        names = []
        for i in range(n):
            nm = rng.choice(['x', 'y', 'data', 'len', 'n_items', 'items', 'u', 'cb', 'priv', 'f%d' % i])
            if self.coin(0.05):
                nm = None
            names.append(nm)
        if not self.coin(self.wild):
            seen = set()
            for i, nm in enumerate(names):
                if nm is not None and nm in seen:
                    names[i] = '%s%d' % (nm, i)
                seen.add(names[i])
        out = []
        for nm in names:
            r = rng.random()
            d = self.docs()
            d.update(name=nm, readable=True, writable=False, bits=None, private=False, version=None, skip=False,
                     introspectable=True, deprecated=None, stability=None)
            if r < p_anon:
                self.cnt.hit('frag:member:anon')
                d['body'] = {'k': 'anon', 'tag': rng.choice(['record', 'union'])}
                d.update(attributes=[], doc=None, doc_pos=None, version_doc=None, deprecated_doc=None, stability_doc=None)
                if self.coin(self.wild):
                    d['writable'] = True        # not carried by the format: folded by canonMember
            else:
                d.update(version=self.ostr(['1.0', '2.34'], 0.7), skip=self.coin(0.05), introspectable=not self.coin(0.1),
                         deprecated=self.ostr(['1.2'], 0.85), stability=self.ostr(['Stable', 'Unstable'], 0.9))
                if r < p_anon + 0.15:
                    self.cnt.hit('frag:member:callback')
                    c = self.callable()
                    while c['klass'] != 'callback':
                        c = self.callable()
                    c['instance'] = None
                    c['name'] = nm if nm is not None and not self.coin(0.2) else c['name']
                    d['body'] = {'k': 'callback', 'callable': c}
                else:
                    self.cnt.hit('frag:member:typed')
                    d['body'] = {'k': 'typed', 'type': self.ty(0, names, top=True)}
                    d.update(readable=not self.coin(0.2), writable=self.coin(0.6), private=self.coin(0.15),
                             bits=rng.choice([None, None, None, '1', '3', '31'] + (['', '0'] if self.coin(self.wild) else [])))
            out.append(d)
        self.cnt.hit('frag:nmembers=%d' % n)
        return out


class RealFrag(object):
    """builds real giscanner.ast objects from the model JSON, writes them with the real GIRWriter,
    reads them with the real GIRParser; every use of a non-public name is guarded."""

    def __init__(self, scratch):
        self.m = scanpipe.mods()
        self.scratch = scratch
        self.ast = self.m.ast
        from giscanner.message import Position
        self.Position = Position

    def ty(self, j):
        ast = self.ast
        k = j['k']
        if k == 'unknown':
            return ast.TypeUnknown()
        if k == 'varargs':
            return ast.Varargs()
        if k == 'plain':
            t = ast.Type(ctype='x')
            t.ctype = j.get('ctype')
            t.complete_ctype = j.get('cctype')
            t.target_giname = j.get('giname')
            t.target_fundamental = j.get('fundamental') if j.get('giname') is None else None
            t.target_foreign = j.get('foreign') if j.get('giname') is None and j.get('fundamental') is None else None
            return t
        if k == 'array':
            t = ast.Array(j.get('array_type'), self.ty(j['elem']), ctype=j.get('ctype'), complete_ctype=j.get('cctype'))
            t.zeroterminated = j['zt']
            t.size = j.get('size')
            t.length_param_name = j.get('length')
            return t
        if k == 'list':
            return ast.List(j.get('name'), self.ty(j['elem']), ctype=j.get('ctype'), complete_ctype=j.get('cctype'))
        return ast.Map(self.ty(j['key']), self.ty(j['value']), ctype=j.get('ctype'), complete_ctype=j.get('cctype'))

    def docs(self, obj, j):
        from collections import OrderedDict
        obj.attributes = OrderedDict((a['name'], a['value']) for a in j.get('attributes', []))
        obj.doc = j.get('doc')
        dp = j.get('doc_pos')
        if dp is not None:
            line = int(dp['line']) if dp['line'] is not None and dp['line'].isdigit() else dp['line']
            col = int(dp['column']) if dp['column'] is not None and dp['column'].isdigit() else dp['column']
            obj.doc_position = self.Position(dp['filename'], line, col)
        obj.version_doc = j.get('version_doc')
        obj.deprecated_doc = j.get('deprecated_doc')
        obj.stability_doc = j.get('stability_doc')
        if j.get('pos') is not None:
            obj.add_file_position(self.Position(j['pos']['filename'], j['pos']['line'], j['pos']['column']))

    def param(self, j):
        p = self.ast.Parameter(j['name'], self.ty(j['type']), j['direction'], j['transfer'], j['nullable'], j['optional'],
                               False, j['scope'], j['caller_allocates'], j['not_nullable'])
        p.closure_name = j['closure']
        p.destroy_name = j['destroy']
        p.skip = j['skip']
        self.docs(p, j)
        return p

    def make_callable(self, j):
        ast = self.ast
        r = j['retval']
        ret = ast.Return(self.ty(r['type']), r['nullable'], r['not_nullable'], r['transfer'])
        ret.skip = r['skip']
        self.docs(ret, r)
        params = [self.param(p) for p in j['params']]
        if j['klass'] == 'function':
            f = ast.Function(j['name'], ret, params, j['throws'], j['symbol'])
            f.shadowed_by, f.shadows, f.moved_to = j['shadowed_by'], j['shadows'], j['moved_to']
            f.set_property, f.get_property = j['set_property'], j['get_property']
            f.is_inline = j['tag'].endswith('-inline')
        elif j['klass'] == 'callback':
            f = ast.Callback(j['name'], ret, params, j['throws'], j['ctype'])
        elif j['klass'] == 'signal':
            f = ast.Signal(j['name'], ret, params, when=j['when'], no_recurse=j['no_recurse'], detailed=j['detailed'],
                           action=j['action'], no_hooks=j['no_hooks'])
            f.emitter = j['emitter']
            f.throws = j['throws']
        else:
            f = ast.VFunction(j['name'], ret, params, j['throws'])
            f.invoker = j['invoker']
        if j['instance'] is not None:
            f.instance_parameter = self.param(j['instance'])
        f.version, f.skip, f.introspectable = j['version'], j['skip'], j['introspectable']
        f.deprecated, f.stability = j['deprecated'], j['stability']
        f.finish_func, f.sync_func, f.async_func = j['finish_func'], j['sync_func'], j['async_func']
        self.docs(f, j)
        return f

    def build(self, j):
        """-> (namespace, path to the callable's element)"""
        ast = self.ast
        ns = ast.Namespace('Foo', '1.0')
        f = self.make_callable(j)
        tag = j['tag']
        if tag in ('function', 'function-inline', 'callback'):
            ns.append(f)
            return ns, [tag]
        if tag in ('virtual-method', 'glib:signal'):
            c = ast.Class('Holder', None, ctype='FooHolder', gtype_name='FooHolder', get_type='foo_holder_get_type',
                          c_symbol_prefix='holder')
            (c.virtual_methods if tag == 'virtual-method' else c.signals).append(f)
            ns.append(c)
            return ns, ['class', tag]
        rec = ast.Record('Holder', ctype='FooHolder')
        if tag == 'constructor':
            rec.constructors.append(f)
        else:
            f.is_method = True
            rec.methods.append(f)
        ns.append(rec)
        return ns, ['record', tag]

    # ---- members of a record / union
    MEMBER_TAGS = ('field', 'record', 'union', 'callback')

    def make_member(self, j):
        ast = self.ast
        b = j['body']
        bits = j['bits']
        if b['k'] == 'typed':
            f = ast.Field(j['name'], self.ty(b['type']), j['readable'], j['writable'], bits)
        elif b['k'] == 'callback':
            f = ast.Field(j['name'], None, j['readable'], j['writable'], bits,
                          anonymous_node=self.make_callable(b['callable']))
        else:
            # Transformer._create_member_compound: name and ctype are the member's identifier
            cls = ast.Record if b['tag'] == 'record' else ast.Union
            f = ast.Field(j['name'], None, j['readable'], j['writable'], bits, anonymous_node=cls(j['name'], j['name']))
        f.private = j['private']
        f.version, f.skip, f.introspectable = j['version'], j['skip'], j['introspectable']
        f.deprecated, f.stability = j['deprecated'], j['stability']
        self.docs(f, j)
        return f

    def write_members(self, ms, union=False):
        """the member elements the real writer produces for a record / union with these fields
        -> ('ok', [trees], bytes) | ('error', ExceptionName, None)"""
        from xml.etree import ElementTree as ET
        ast = self.ast
        try:
            ns = ast.Namespace('Foo', '1.0')
            rec = (ast.Union if union else ast.Record)('Holder', ctype='FooHolder')
            rec.fields.extend(self.make_member(m) for m in ms)
            ns.append(rec)
            data = self.m.girwriter.GIRWriter(ns).get_encoded_xml()
        except (KeyError, ValueError, AssertionError, AttributeError, IndexError, TypeError) as e:
            return ('error', type(e).__name__, None)
        root = ET.fromstring(data)
        el = root.find(scanpipe.q('namespace'))
        el = [k for k in el if _qn(k.tag) == ('union' if union else 'record')][0]
        trees = [et_to_tree(k) for k in el if _qn(k.tag) in self.MEMBER_TAGS]
        for t in trees:
            # an empty anonymous <record> / <union> is written as open tag, indentation, close tag
            if t['tag'] in ('record', 'union') and t['text'] is not None and not t['text'].strip():
                t['text'] = None
        return ('ok', trees, data)

    def member_json(self, f):
        ast = self.ast
        an = f.anonymous_node
        if isinstance(an, ast.Callback):
            body = {'k': 'callback', 'callable': self.callable_json(an, 'callback', 'callback')}
        elif isinstance(an, ast.Record):
            body = {'k': 'anon', 'tag': 'record'}
        elif isinstance(an, ast.Union):
            body = {'k': 'anon', 'tag': 'union'}
        else:
            body = {'k': 'typed', 'type': self.ty_json(f.type)}
        d = self.docs_json(f, False)
        d.update(name=f.name, body=body, readable=bool(f.readable), writable=bool(f.writable),
                 bits=(str(f.bits) if f.bits else None) if isinstance(f.bits, int) else f.bits,   # `if field.bits:`
                 private=bool(f.private), version=f.version,
                 skip=bool(f.skip), introspectable=bool(f.introspectable), deprecated=f.deprecated,
                 stability=f.stability)
        return d

    def parse_members(self, trees, union=False):
        """real GIRParser on <record name="Holder">members</record> -> ('ok', [member json]) | ('error', name)"""
        from xml.etree import ElementTree as ET
        tag = 'union' if union else 'record'
        inner = '<%s name="Holder" c:type="FooHolder">%s</%s>' % (tag, ''.join(tree_to_xml(t) for t in trees), tag)
        doc = ('<?xml version="1.0"?><repository version="1.2" xmlns="http://www.gtk.org/introspection/core/1.0" '
               'xmlns:c="http://www.gtk.org/introspection/c/1.0" xmlns:doc="http://www.gtk.org/introspection/doc/1.0" '
               'xmlns:glib="http://www.gtk.org/introspection/glib/1.0"><namespace name="Foo" version="1.0" '
               'shared-library="" c:identifier-prefixes="Foo" c:symbol-prefixes="foo">%s</namespace></repository>' % inner)
        p = self.m.girparser.GIRParser()
        try:
            p.parse_tree(ET.ElementTree(ET.fromstring(doc.encode('utf-8'))))
            return ('ok', [self.member_json(f) for f in p.get_namespace().get('Holder').fields])
        except (KeyError, ValueError, AssertionError, AttributeError, IndexError, TypeError) as e:
            return ('error', type(e).__name__)

    def write(self, j):
        """-> ('ok', tree, xml bytes) | ('error', ExceptionName)"""
        from xml.etree import ElementTree as ET
        try:
            ns, path = self.build(j)
            data = self.m.girwriter.GIRWriter(ns).get_encoded_xml()
        except (KeyError, ValueError, AssertionError, AttributeError, IndexError, TypeError) as e:
            return ('error', type(e).__name__, None)
        root = ET.fromstring(data)
        el = root.find(scanpipe.q('namespace'))
        for t in path:
            el = [k for k in el if _qn(k.tag) == t][0]
        return ('ok', et_to_tree(el), data)

    # ---- reading
    def wrap(self, tree, klass):
        inner = tree_to_xml(tree)
        if tree['tag'] in ('virtual-method', 'glib:signal'):
            inner = ('<class name="Holder" c:symbol-prefix="holder" c:type="FooHolder" glib:type-name="FooHolder" '
                     'glib:get-type="foo_holder_get_type">%s</class>' % inner)
        elif tree['tag'] in ('method', 'method-inline', 'constructor'):
            inner = '<record name="Holder" c:type="FooHolder">%s</record>' % inner
        return ('<?xml version="1.0"?><repository version="1.2" xmlns="http://www.gtk.org/introspection/core/1.0" '
                'xmlns:c="http://www.gtk.org/introspection/c/1.0" xmlns:doc="http://www.gtk.org/introspection/doc/1.0" '
                'xmlns:glib="http://www.gtk.org/introspection/glib/1.0"><namespace name="Foo" version="1.0" '
                'shared-library="" c:identifier-prefixes="Foo" c:symbol-prefixes="foo">%s</namespace></repository>' % inner)

    def ty_json(self, t):
        ast = self.ast
        if isinstance(t, ast.TypeUnknown):
            return {'k': 'unknown'}
        if isinstance(t, ast.Varargs):
            return {'k': 'varargs'}
        if isinstance(t, ast.Array):
            return {'k': 'array', 'ctype': t.ctype, 'cctype': t.complete_ctype,
                    'array_type': None if t.array_type == ast.Array.C else t.array_type, 'zt': t.zeroterminated,
                    'size': t.size, 'length': t.length_param_name, 'elem': self.ty_json(t.element_type)}
        if isinstance(t, ast.List):
            return {'k': 'list', 'ctype': t.ctype, 'cctype': t.complete_ctype, 'name': t.name, 'elem': self.ty_json(t.element_type)}
        if isinstance(t, ast.Map):
            return {'k': 'map', 'ctype': t.ctype, 'cctype': t.complete_ctype, 'key': self.ty_json(t.key_type),
                    'value': self.ty_json(t.value_type)}
        d = {'k': 'plain', 'ctype': t.ctype, 'cctype': t.complete_ctype}
        if t.target_giname is not None:
            d['giname'] = t.target_giname
        elif t.target_fundamental is not None:
            d['fundamental'] = t.target_fundamental
        elif t.target_foreign is not None:
            d['foreign'] = t.target_foreign
        return d

    def docs_json(self, o, node):
        d = {'attributes': [{'name': k, 'value': v} for k, v in o.attributes.items()], 'doc': o.doc, 'doc_pos': None,
             'version_doc': o.version_doc, 'deprecated_doc': o.deprecated_doc, 'stability_doc': o.stability_doc,
             'pos': None}
        if o.doc_position is not None:
            p = o.doc_position
            d['doc_pos'] = {'filename': p.filename, 'line': None if p.line is None else str(p.line),
                            'column': None if p.column is None else str(p.column)}
        if node:
            p = o.get_main_position()
            if p is not None:
                d['pos'] = {'filename': p.filename, 'line': p.line, 'column': p.column}
        return d

    def param_json(self, p):
        d = self.docs_json(p, False)
        d.update(name=p.argname, type=self.ty_json(p.type), direction=p.direction, transfer=p.transfer,
                 nullable=bool(p.nullable), not_nullable=bool(p.not_nullable), optional=bool(p.optional), scope=p.scope,
                 caller_allocates=bool(p.caller_allocates), closure=p.closure_name, destroy=p.destroy_name,
                 skip=bool(p.skip))
        return d

    def callable_json(self, f, klass, tag):
        ast = self.ast
        d = self.docs_json(f, True)
        r = self.docs_json(f.retval, False)
        r.update(type=self.ty_json(f.retval.type), transfer=f.retval.transfer, nullable=bool(f.retval.nullable),
                 not_nullable=bool(f.retval.not_nullable), skip=bool(f.retval.skip))
        fn = klass == 'function'
        d.update(klass=klass, tag=tag, name=f.name, retval=r, params=[self.param_json(p) for p in f.parameters],
                 instance=self.param_json(f.instance_parameter) if f.instance_parameter is not None else None,
                 throws=bool(f.throws), version=f.version, skip=bool(f.skip), introspectable=bool(f.introspectable),
                 deprecated=f.deprecated, stability=f.stability, finish_func=f.finish_func, sync_func=f.sync_func,
                 async_func=f.async_func, symbol=f.symbol if fn else None,
                 shadowed_by=f.shadowed_by if fn else None, shadows=f.shadows if fn else None,
                 moved_to=f.moved_to if fn else None, set_property=f.set_property if fn else None,
                 get_property=f.get_property if fn else None, invoker=f.invoker if klass == 'vfunction' else None,
                 ctype=f.ctype if klass == 'callback' else None)
        sig = klass == 'signal'
        d.update(when=f.when if sig else None, no_recurse=bool(f.no_recurse) if sig else False,
                 detailed=bool(f.detailed) if sig else False, action=bool(f.action) if sig else False,
                 no_hooks=bool(f.no_hooks) if sig else False, emitter=f.emitter if sig else None)
        return d

    def parse(self, tree, klass, n):
        """real GIRParser on the element -> ('ok', callable json) | ('error', name)"""
        from xml.etree import ElementTree as ET
        p = self.m.girparser.GIRParser()
        try:
            # GIRParser.parse_tree is the public entry point parse(filename) itself goes through
            p.parse_tree(ET.ElementTree(ET.fromstring(self.wrap(tree, klass).encode('utf-8'))))
            ns = p.get_namespace()
            tag = tree['tag']
            if tag == 'glib:signal':
                fobj = ns.get('Holder').signals[0]
            elif tag == 'virtual-method':
                fobj = ns.get('Holder').virtual_methods[0]
            elif tag == 'constructor':
                fobj = ns.get('Holder').constructors[0]
            elif tag in ('method', 'method-inline'):
                fobj = ns.get('Holder').methods[0]
            else:
                fobj = [v for v in ns.values()][0]
            return ('ok', self.callable_json(fobj, klass, tag))
        except (KeyError, ValueError, AssertionError, AttributeError, IndexError, TypeError) as e:
            return ('error', type(e).__name__)


def mutate_tree(rng, tree):
    """one malformed/unusual variant of an element: attribute values perturbed, attributes or
    children removed, duplicated or reordered"""
    t = copy.deepcopy(tree)
    nodes = []

    def walk(x):
        nodes.append(x)
        for k in x['kids']:
            walk(k)
    walk(t)
    x = rng.choice(nodes)
    op = rng.choice(['setval', 'setval', 'delattr', 'addattr', 'delkid', 'dupkid', 'swapkids', 'addkid'])
    vals = ['0', '1', '2', '', 'x', '-1', '+1', '007', '99', 'in', 'out', 'inout', 'GLib.List', 'GLib.HashTable', 'gint',
            'Foo.Bar', 'utf8', 'full', '<c>', 'GLib.Array', 'bogus']
    names = ['name', 'c:type', 'zero-terminated', 'fixed-size', 'length', 'direction', 'caller-allocates', 'nullable',
             'allow-none', 'optional', 'closure', 'destroy', 'skip', 'introspectable', 'throws', 'transfer-ownership',
             'version', 'deprecated-version', 'stability', 'scope', 'filename', 'line', 'column', 'value', 'invoker',
             'c:identifier', 'shadows', 'shadowed-by', 'moved-to', 'foreign', 'when', 'no-recurse', 'detailed', 'action',
             'no-hooks', 'emitter', 'c:type', 'glib:finish-func']
    if op == 'setval' and x['attrs']:
        i = rng.randrange(len(x['attrs']))
        x['attrs'][i][1] = rng.choice(vals)
    elif op == 'delattr' and x['attrs']:
        del x['attrs'][rng.randrange(len(x['attrs']))]
    elif op == 'addattr':
        n = rng.choice(names)
        if n not in [a[0] for a in x['attrs']]:
            x['attrs'].append([n, rng.choice(vals)])
    elif op == 'delkid' and x['kids']:
        del x['kids'][rng.randrange(len(x['kids']))]
    elif op == 'dupkid' and x['kids']:
        i = rng.randrange(len(x['kids']))
        x['kids'].insert(rng.randrange(len(x['kids']) + 1), copy.deepcopy(x['kids'][i]))
    elif op == 'swapkids' and len(x['kids']) > 1:
        rng.shuffle(x['kids'])
    elif op == 'addkid':
        x['kids'].insert(rng.randrange(len(x['kids']) + 1),
                         rng.choice([{'tag': 'varargs', 'attrs': [], 'kids': [], 'text': None},
                                     {'tag': 'type', 'attrs': [['name', 'gint']], 'kids': [], 'text': None},
                                     {'tag': 'array', 'attrs': [['length', '0']],
                                      'kids': [{'tag': 'type', 'attrs': [['name', 'utf8']], 'kids': [], 'text': None}], 'text': None},
                                     {'tag': 'source-position', 'attrs': [['filename', 'a.h'], ['line', '3']], 'kids': [], 'text': None},
                                     {'tag': 'attribute', 'attrs': [['name', 'k'], ['value', 'again']], 'kids': [], 'text': None},
                                     {'tag': 'doc', 'attrs': [], 'kids': [], 'text': 'other doc'}]))
        if x['kids'] and x['text'] is not None:
            x['text'] = None
    return t, op


def norm_model_result(r):
    if 'ok' in r:
        return ('ok', r['ok'])
    return ('error', r['error'])


# ------------------------------------------------------------------ run
def fast_scratch(ctx):
    """GIR texts are written and re-read thousands of times; a memory file system makes that
    an order of magnitude faster when the machine is busy.  Removed in run()'s finally."""
    import tempfile
    for base in ('/dev/shm', ):
        if os.path.isdir(base) and os.access(base, os.W_OK):
            try:
                return tempfile.mkdtemp(prefix='giverif.C07.', dir=base)
            except OSError:
                pass
    d = os.path.join(ctx.scratch, 'fast')
    os.makedirs(d, exist_ok=True)
    return d


def repo_gir_files():
    out = []
    for root, dirs, files in os.walk(REPO):
        dirs[:] = [d for d in dirs if d not in ('.git', '__pycache__', 'node_modules')]
        for fn in files:
            if fn.endswith('.gir'):
                out.append(os.path.join(root, fn))
    return sorted(out)


def load_corpus():
    cpath = os.path.join(VERIF, 'corpus', 'C07')
    out = []
    if os.path.isdir(cpath):
        for fn in sorted(os.listdir(cpath)):
            if fn.endswith('.json'):
                with open(os.path.join(cpath, fn), encoding='utf-8') as f:
                    for e in json.load(f):
                        e.setdefault('name', fn)
                        out.append(e)
    return out


class Pending(object):
    """bookkeeping of failures attributed to a PENDING_FINDINGS class"""

    def __init__(self, ctx):
        self.ctx = ctx
        self.hits = {}
        self.fixed = set(k.get('key') for k in ctx.known if k.get('status') == 'fixed')

    def hit(self, cls, what, replay):
        key = 'class:' + cls
        if self.ctx.is_known(key) is not None:
            self.ctx.report_failure(key, what, replay)        # prints KNOWN-FINDING
            return
        if key in self.fixed:
            # recorded as fixed in /repo, and it happened again: a real violation
            self.ctx.report_failure(key + ':regressed', what, replay)
            return
        if not self.ctx.known.dev:
            # not listed in known_findings.json: an ordinary violation
            self.ctx.report_failure(key, PENDING_FINDINGS[cls] + ' — e.g. ' + what, replay)
            return
        h = self.hits.setdefault(cls, {'key': key, 'what': PENDING_FINDINGS[cls], 'n': 0, 'first_witness': what[:700],
                                       'replay': replay})
        h['n'] += 1


def scanned_callables(m, ns, canon):
    """every callable of a namespace that the writer emits through _write_callable, as model JSON"""
    ast = m.ast
    rf = RealFrag.__new__(RealFrag)
    rf.m, rf.ast = m, ast
    out = []

    def fix_paths(d):
        if isinstance(d, dict):
            if d.get('doc_pos'):
                d['doc_pos']['filename'] = canon.rel(d['doc_pos']['filename'])
            if d.get('pos'):
                d['pos']['filename'] = canon.rel(d['pos']['filename'])
            for v in d.values():
                fix_paths(v)
        elif isinstance(d, list):
            for v in d:
                fix_paths(v)
        return d

    def add(f, klass, tag):
        if getattr(f, 'internal_skipped', False):
            return
        out.append(fix_paths(rf.callable_json(f, klass, tag)))

    def funcs(n):
        for f in getattr(n, 'constructors', []):
            add(f, 'function', 'constructor')
        for f in getattr(n, 'methods', []):
            add(f, 'function', 'method-inline' if f.is_inline else 'method')
        for f in getattr(n, 'static_methods', []):
            add(f, 'function', 'function')
        for f in getattr(n, 'virtual_methods', []):
            add(f, 'vfunction', 'virtual-method')
        for f in getattr(n, 'signals', []):
            add(f, 'signal', 'glib:signal')
        for fld in getattr(n, 'fields', []):
            an = getattr(fld, 'anonymous_node', None)
            if isinstance(an, ast.Callback):
                n0 = len(out)
                add(an, 'callback', 'callback')
                if len(out) > n0:
                    out[-1]['anonymous'] = True
            elif an is not None:
                funcs(an)
    for n in ns.values():
        if isinstance(n, ast.Function):
            add(n, 'function', 'function-inline' if n.is_inline else 'function')
        elif isinstance(n, ast.Callback):
            add(n, 'callback', 'callback')
        else:
            funcs(n)
    return out


def scanned_members(m, ns, canon):
    """the field lists of every record / union of a namespace (anonymous ones included), as model JSON"""
    ast = m.ast
    rf = RealFrag.__new__(RealFrag)
    rf.m, rf.ast = m, ast
    out = []

    def fix_paths(d):
        if isinstance(d, dict):
            if d.get('doc_pos'):
                d['doc_pos']['filename'] = canon.rel(d['doc_pos']['filename'])
            if d.get('pos'):
                d['pos']['filename'] = canon.rel(d['pos']['filename'])
            for v in d.values():
                fix_paths(v)
        elif isinstance(d, list):
            for v in d:
                fix_paths(v)
        return d

    def compound(n):
        if n.fields:
            out.append((n.name, fix_paths([rf.member_json(f) for f in n.fields])))
        for f in n.fields:
            if isinstance(f.anonymous_node, (ast.Record, ast.Union)):
                compound(f.anonymous_node)
    for n in ns.values():
        if isinstance(n, (ast.Record, ast.Union)):
            compound(n)
    return out


def vocab_pairs(text, acc):
    """(element, attribute) and (parent, child) pairs present in a GIR text"""
    from xml.etree import ElementTree as ET
    try:
        root = ET.fromstring(text)
    except ET.ParseError:
        return

    def walk(el):
        t = _qn(el.tag)
        for k in el.attrib:
            acc['attrs'].add((t, _qn(k)))
        for k in el:
            acc['children'].add((t, _qn(k.tag)))
            walk(k)
    walk(root)
    for k in ('xmlns', 'xmlns:c', 'xmlns:doc', 'xmlns:glib'):
        if (' %s="' % k).encode() in text[:600]:
            acc['attrs'].add(('repository', k))


def run(ctx):
    cnt = Counter()
    ctx.prove(['gen_pyclasses', 'gen_typenames', 'gen_girvocab_rw', 'gen_girreader_state'], ['GIVerif.Props.C07'],
              'GIVerif.Props.C07')
    rng = ctx.rng
    fast = fast_scratch(ctx)
    try:
        _run(ctx, cnt, rng, fast)
    finally:
        import shutil
        shutil.rmtree(fast, ignore_errors=True)


def _run(ctx, cnt, rng, fast):
    ctx.log('tables regenerated, proofs rebuilt and audited (%d/%d obligations)'
            % ((ctx.proof or {}).get('discharged', 0), (ctx.proof or {}).get('obligations', 0)))
    try:
        m = scanpipe.mods()
    except Exception as e:  # noqa: the code under verification cannot even be imported
        ctx.report_failure('giscanner-import', 'giscanner (ast / girparser / girwriter) cannot be imported: %r\n%s'
                           % (e, traceback.format_exc()[-600:]), {'kind': 'import'})
        return
    inc = setup_includes(fast)
    judge = Judge(cnt, fast, inc)
    pending = Pending(ctx)
    samples = []
    evaluations = 0
    seen_vocab = {'attrs': set(), 'children': set()}
    t_budget = time.time()

    def file_failures(fails):
        for f in fails:
            ctx.report_failure(f['key'], f['what'], f['replay'])

    # model-level check of scanned callables: are the theorems' side conditions scanner invariants?
    wf_queue = []

    wfm_queue = []
    gen_girs = []       # (file name, text) of generated namespaces, for the history stream

    def queue_wf(ns, roots, origin, expect):
        try:
            for c in scanned_callables(m, ns, Canon(list(roots))):
                wf_queue.append((origin, expect, ns.name, c))
            for name, ms in scanned_members(m, ns, Canon(list(roots))):
                wfm_queue.append((origin, expect, ns.name, name, ms))
        except Exception as e:  # noqa: an ast attribute the extraction reads is gone
            ctx.broken.append('fragment extraction from a scanned namespace failed (%s): %r' % (origin, e))

    def check_namespace(cfg, triggers, expect, origin, replay, count_gen=True):
        """scan with the real pipeline, judge; failures explained by a pending finding's trigger are
        attributed to it (the same namespace without the trigger must then be clean)"""
        nonlocal evaluations
        out, why = scan_generated(cfg)
        if out is None or out.get('gir') is None:
            if why and why.startswith('WRITER '):
                ctx.report_failure(origin + ':writer-exception',
                                   'GIRWriter raised while writing a freshly scanned namespace (%s): %s' % (origin, why[7:]),
                                   dict(replay, failure='writer exception'))
                return 'writer-exception'
            cnt.hit('generated:rejected-by-scanner')
            return 'outside'
        evaluations += 1
        w1 = out['gir'].encode('utf-8')
        vocab_pairs(w1, seen_vocab)
        fname = '%s-%s.gir' % (cfg['namespace'], cfg['version'])
        if len(gen_girs) < 60:
            gen_girs.append((fname, out['gir']))
        roots = cfg.get('sources_top_dirs', ['/src'])
        status, fails, info = judge.judge(w1, fname, origin, replay, ns_written=out['namespace'], roots=roots)
        cnt.case(['ns', w1.decode('utf-8', 'replace')], nontrivial=len(out['namespace'].names) > 0)
        queue_wf(out['namespace'], roots, origin, set(expect))
        if not fails:
            return status
        if triggers:
            ncfg = neutralise(cfg, triggers)
            out2, why2 = scan_generated(ncfg)
            if out2 is not None and out2.get('gir') is not None:
                st2, fails2, _ = judge.judge(out2['gir'].encode('utf-8'), fname, origin + '(without the finding triggers)',
                                             dict(replay, neutralised=True), ns_written=out2['namespace'], roots=roots,
                                             count=False)
                if not fails2:
                    # which classes are active: remove one class at a time
                    active = []
                    classes = sorted(set(t[0] for t in triggers))
                    for c in classes:
                        if len(classes) == 1:
                            active = classes
                            break
                        only = neutralise(cfg, [t for t in triggers if t[0] != c])
                        o3, _w = scan_generated(only)
                        if o3 is None:
                            continue
                        _s, f3, _i = judge.judge(o3['gir'].encode('utf-8'), fname, origin, replay,
                                                 ns_written=o3['namespace'], roots=roots, count=False)
                        if f3:
                            active.append(c)
                    for c in active or classes:
                        cnt.hit('pending:' + c)
                        pending.hit(c, fails[0]['what'], dict(fails[0]['replay'], triggers=[list(t) for t in triggers]))
                    return 'pending'
                fails = fails2
        file_failures(fails)
        return status

    # ---------------- corpus
    corpus = load_corpus()
    frag_corpus = []
    member_corpus = []
    for e in corpus:
        kind = e.get('kind')
        cnt.hit('corpus:' + str(kind))
        if kind == 'namespace':
            cfg = dict(e['cfg'])
            cfg['includes'] = [os.path.join(inc, 'GObject-2.0.gir')]
            cfg['include_paths'] = [inc]
            triggers = [tuple(t) for t in e.get('triggers', [])]
            st = check_namespace(cfg, triggers, set(t[0] for t in triggers), 'corpus:' + e['name'],
                                 {'kind': 'namespace', 'cfg': e['cfg'], 'triggers': e.get('triggers', [])})
        elif kind == 'gir':
            evaluations += 1
            w1 = e['text'].encode('utf-8')
            vocab_pairs(w1, seen_vocab)
            st, fails, info = judge.judge(w1, e.get('filename', 'Corpus-1.0.gir'), 'corpus:' + e['name'],
                                          {'kind': 'gir', 'text': e['text']},
                                          must_be_identical=e.get('must_be_identical', False))
            file_failures(fails)
            cnt.case(['gir', e['text']])
        elif kind == 'namespace-pair':
            sts, fails, outs = judge_pair(judge, e['inc_cfg'], e['cfg'], os.path.join(fast, 'pair', 'corpus%d' % evaluations),
                                          inc, 'corpus:' + e['name'],
                                          {'kind': 'namespace-pair', 'inc_cfg': e['inc_cfg'], 'cfg': e['cfg']})
            evaluations += len(outs)
            file_failures(fails)
            for st in sts:
                cnt.hit('corpus:pair:' + st)
            cnt.case(['pair', e['cfg'], e['inc_cfg']], nontrivial=True)
        elif kind == 'callable':
            frag_corpus.append(e['callable'])
        elif kind == 'members':
            member_corpus.append(e['members'])

    # ---------------- every GIR file of the repository
    files = repo_gir_files()
    skipped_tr = []
    # the repository's own expected files under the names an <include> looks for (Utility-1.0.gir)
    expdir = os.path.join(fast, 'expected-as-includes')
    os.makedirs(expdir, exist_ok=True)
    for path in files:
        if path.endswith('-expected.gir'):
            import shutil
            shutil.copyfile(path, os.path.join(expdir, os.path.basename(path).replace('-expected', '')))
    for path in files:
        rel = os.path.relpath(path, REPO)
        with open(path, 'rb') as f:
            w1 = f.read()
        produced = w1.startswith(PROLOGUE.encode())
        cnt.hit('repo-file:' + ('scanner-written' if produced else 'hand-maintained'))
        vocab_pairs(w1, seen_vocab)
        evaluations += 1
        incdirs = [os.path.dirname(path), os.path.join(REPO, 'gir'), os.path.join(REPO, 'tests', 'scanner'), expdir, inc]
        before = cnt.counts.get('transformer-path:skipped(includes)', 0)
        st, fails, info = judge.judge(w1, os.path.basename(path).replace('-expected', ''), 'repo:' + rel,
                                      {'kind': 'repo-file', 'path': rel}, must_be_identical=produced, incdirs=incdirs)
        if cnt.counts.get('transformer-path:skipped(includes)', 0) > before:
            skipped_tr.append(rel)
        file_failures(fails)
        cnt.case(['file', rel], nontrivial=True)
        try:
            p = m.girparser.GIRParser()
            p.parse(path)
            queue_wf(p.get_namespace(), [], 'repo:' + rel, set())
        except Exception:  # noqa (already reported by judge)
            pass
    samples.append({'kind': 'repo-file', 'path': os.path.relpath(files[-1], REPO) if files else None})
    ctx.log('corpus + %d repository GIR files done' % len(files))

    # ---------------- generated namespaces through the real scanner
    n_ns = ctx.n(200, 4000)
    deadline = t_budget + (ctx.n(52, 420))
    done = 0
    last_cfg = None
    for i in range(n_ns):
        if time.time() > deadline:
            cnt.hit('generated:stopped-at-time-budget')
            break
        g = NsGen(rng, cnt, inc)
        cfg = g.build()
        for k in g.expect:
            cnt.hit('generated:with-trigger:' + k)
        rcfg = {k: v for k, v in cfg.items() if k not in ('includes', 'include_paths')}
        st = check_namespace(cfg, g.triggers, g.expect, 'generated#%d' % i,
                             {'kind': 'namespace', 'cfg': rcfg, 'triggers': [list(t) for t in g.triggers]})
        cnt.hit('generated:' + str(st))
        done += 1
        last_cfg = rcfg
    if last_cfg is not None:
        samples.append({'kind': 'namespace', 'cfg': {k: (v if k != 'decls' else v[:3]) for k, v in last_cfg.items()
                                                    if k in ('namespace', 'version', 'decls', 'dump')}})
    ctx.log('%d generated namespaces judged' % done)

    # ---------------- pairs of namespaces: one includes the other and names its types (every name relation, every run)
    n_pairs = ctx.n(2 * len(PAIR_NAMES), 40 * len(PAIR_NAMES))
    pair_deadline = time.time() + ctx.n(20, 120)
    last_pair = None
    for i in range(n_pairs):
        if i >= len(PAIR_NAMES) and time.time() > pair_deadline:
            cnt.hit('pair:stopped-at-time-budget')
            break
        pg = PairGen(rng, cnt, inc, PAIR_NAMES[i % len(PAIR_NAMES)])
        inc_cfg, cfg = pg.build()
        rep = {'kind': 'namespace-pair', 'inc_cfg': inc_cfg, 'cfg': cfg}
        sts, fails, outs = judge_pair(judge, inc_cfg, cfg, os.path.join(fast, 'pair', str(i)), inc, 'pair#%d' % i, rep)
        for st in sts:
            cnt.hit('pair:%s:%s' % (pg.names[4], st))
        for label, out, text in outs:
            evaluations += 1
            vocab_pairs(text.encode('utf-8'), seen_vocab)
            cnt.case(['ns', text], nontrivial=True)
            if out is not None:
                queue_wf(out['namespace'], cfg.get('sources_top_dirs', ['/src']), 'pair#%d:%s' % (i, label), set())
        file_failures(fails)
        last_pair = {'kind': 'namespace-pair', 'names': list(pg.names), 'uses': pg.used}
    if last_pair is not None:
        samples.append(last_pair)
    ctx.log('%d namespace pairs judged' % n_pairs)

    # ---------------- histories: several documents read with ONE GIRParser instance
    try:
        pool = [{'name': fn, 'src': {'text': text}} for fn, text in gen_girs]
        for path in files:
            if os.path.getsize(path) < ctx.n(120000, 3000000):
                pool.append({'name': os.path.basename(path).replace('-expected', ''),
                             'src': {'repo': os.path.relpath(path, REPO)}})
        for e in corpus:
            if e.get('kind') == 'gir':
                pool.append({'name': e.get('filename', 'Corpus-1.0.gir'), 'src': {'text': e['text']}})
        hist_cases = [e['history'] for e in corpus if e.get('kind') == 'history']
        for _ in range(ctx.n(30, 500) if pool else 0):
            hist_cases.append(gen_history(rng, pool))
        hdocs, hreal = [], []
        for h in hist_cases:
            evaluations += 1
            steps = history_steps(h)
            fails, headers = run_history(steps, h.get('types_only', False), fast)
            cnt.hit('history:len=%d%s' % (len(steps), ',types_only' if h.get('types_only') else ''))
            for st in h['steps']:
                cnt.hit('history:header:' + ('as-is' if not st.get('header') else
                                             'stripped' if not any(st['header'].get(k) for k in
                                                                   ('includes', 'packages', 'c_includes', 'doc_format'))
                                             else 'replaced'))
            cnt.case(['history', h], nontrivial=True)
            cnt.hit('history:' + ('ok' if not fails else 'FAIL'))
            seen_kinds = set()
            for kind, i, what in fails:
                if kind in seen_kinds:
                    continue
                seen_kinds.add(kind)
                ctx.report_failure('history:%s:%s' % (kind, json.dumps([[st['name'], st.get('header')] for st in h['steps']],
                                                                      sort_keys=True)[:1500]),
                                   what, {'kind': 'history', 'history': h, 'failing_step': i})
            # the Lean state machine on the same histories (documents every reader accepted)
            if all(x is not None for x in headers):
                try:
                    hdocs.append([header_items(st['text']) for st in steps])
                    hreal.append(headers)
                except Exception:  # noqa (a header child without name / version: KeyError in the real reader)
                    pass
        if hdocs:
            mres = ctx.driver.batch([{'op': 'c07.header_history', 'docs': d} for d in hdocs])
            n_dis = 0
            for d, real, mod in zip(hdocs, hreal, mres):
                evaluations += 1
                a = [{'includes': r['includes'], 'packages': r['packages'], 'c_includes': r['c_includes'],
                      'doc_format': r['doc_format']} for r in real]
                b = [{'includes': sorted('%s-%s' % (n, v) for n, v in x['includes']), 'packages': sorted(x['packages']),
                      'c_includes': sorted(x['c_includes']), 'doc_format': x['doc_format']} for x in mod]
                if a != b:
                    n_dis += 1
                    if n_dis <= 3:
                        ctx.broken.append('correspondence c07.header_history differs: docs=%s real=%s model=%s'
                                          % (short(d, 400), short(a, 400), short(b, 400)))
            cnt.hit('history:model-disagreements', n_dis)
        if hist_cases:
            h = hist_cases[-1]
            samples.append({'kind': 'history', 'steps': [[st['name'], st.get('header')] for st in h['steps']]})
    except Exception as e:  # noqa
        ctx.broken.append('history stream could not run against this tree: %r\n%s' % (e, traceback.format_exc()[-500:]))

    # ---------------- fragment correspondence: Lean model vs real writer / reader
    try:
        rf = RealFrag(fast)
        fg = FragGen(rng, cnt, wild=0.08)
        n_frag = ctx.n(450, 6000)
        cases = list(frag_corpus) + [fg.callable() for _ in range(n_frag)]
        res = ctx.driver.batch([{'op': 'c07.cycle_callable', 'ns': 'Foo', 'callable': c} for c in cases])
        chk = ctx.driver.batch([{'op': 'c07.check_callable', 'ns': 'Foo', 'callable': c} for c in cases])
        n_dis = 0
        muts = []
        for i, (c, r, k) in enumerate(zip(cases, res, chk)):
            evaluations += 1
            real = rf.write(c)
            mw = norm_model_result(r['w1'])
            cnt.hit('frag:write:' + real[0] + ('' if real[0] == 'ok' else ':' + real[1]))
            cnt.hit('frag:wf=%s' % k['wf'])
            cnt.case(['frag', c], nontrivial=bool(c['params']))
            # the property's oracle on the REAL code, fragment level (independent of what the model says about the
            # result: only the side conditions on the INPUT are taken from it): what was read, written again, is
            # the same tree; the reader does not raise on what the writer produced
            rp = None
            if real[0] == 'ok':
                rp = rf.parse(real[1], c['klass'], i)
                cnt.hit('frag:parse:' + (rp[0] if rp[0] == 'ok' else rp[1]))
                real2 = rf.write(rp[1]) if rp[0] == 'ok' else ('error', 'reader raised ' + rp[1], None)
                same = real2[0] == 'ok' and real2[1] == real[1]
                if k['wf']:
                    cnt.hit('frag:real-fixpoint:' + ('ok' if same else 'FAIL'))
                    if not same:
                        ctx.report_failure('fragment:' + json.dumps(c, sort_keys=True)[:2000],
                                           'a callable satisfying the side conditions is not a write fixed point on the real '
                                           'code: %s' % short(deep_diff(real[1], real2[1]) if real2[0] == 'ok' else real2[:2], 500),
                                           {'kind': 'callable', 'callable': c})
                else:
                    cnt.hit('frag:real-fixpoint(not wf):' + ('ok' if same else 'differs'))
            if real[0] != mw[0] or (real[0] == 'ok' and real[1] != mw[1]) or (real[0] == 'error' and real[1] != mw[1]):
                n_dis += 1
                if n_dis <= 3:
                    ctx.broken.append('correspondence c07.write_callable differs: callable=%s real=%s model=%s'
                                      % (short(c, 500), short(real[:2], 500), short(mw, 500)))
                continue
            if k['wf'] and k['write_ok'] and not (k['roundtrip'] and k['fixpoint']):
                ctx.broken.append('the compiled model contradicts C07_callable_roundtrip/C07_fixpoint on %s' % short(c, 400))
            if real[0] != 'ok':
                continue
            mp = norm_model_result(r['parsed'])
            if rp[0] != mp[0] or rp[1] != mp[1]:
                n_dis += 1
                if n_dis <= 3:
                    d = deep_diff(rp[1], mp[1]) if rp[0] == 'ok' and mp[0] == 'ok' else [('result', rp, mp)]
                    ctx.broken.append('correspondence c07.parse_callable differs on the written element of %s: %s'
                                      % (short(c, 300), short(d, 500)))
                continue
            for _ in range(2):
                t, op = mutate_tree(rng, real[1])
                muts.append((t, c['klass'], op))
        mres = ctx.driver.batch([{'op': 'c07.parse_callable', 'ns': 'Foo', 'klass': k, 'xml': t} for t, k, op in muts])
        for i, ((t, k, op), r) in enumerate(zip(muts, mres)):
            evaluations += 1
            rp = rf.parse(t, k, i)
            mp = norm_model_result(r)
            cnt.hit('frag:malformed:%s:%s' % (op, rp[0] if rp[0] == 'ok' else rp[1]))
            cnt.case(['mut', t], nontrivial=True)
            if rp[0] != mp[0] or rp[1] != mp[1]:
                n_dis += 1
                if n_dis <= 3:
                    d = deep_diff(rp[1], mp[1]) if rp[0] == 'ok' and mp[0] == 'ok' else [('result', rp, mp)]
                    ctx.broken.append('correspondence c07.parse_callable differs on a perturbed element (%s) %s: %s'
                                      % (op, tree_to_xml(t)[:400], short(d, 400)))
        if cases:
            samples.append({'kind': 'callable', 'callable': cases[-1]})
        cnt.hit('frag:disagreements', n_dis)
    except Exception as e:  # noqa: a private name used for the fragment tie is gone / changed
        ctx.broken.append('fragment correspondence could not run against this tree: %r\n%s'
                          % (e, traceback.format_exc()[-500:]))

    # ---------------- members of records / unions: Lean model vs real writer / reader
    try:
        rf = RealFrag(fast)
        fg = FragGen(rng, cnt, wild=0.08)
        mcases = list(member_corpus) + [fg.members() for _ in range(ctx.n(350, 5000))]
        mres = ctx.driver.batch([{'op': 'c07.cycle_members', 'ns': 'Foo', 'members': ms} for ms in mcases])
        n_dis = 0
        mmuts = []
        for i, (ms, r) in enumerate(zip(mcases, mres)):
            evaluations += 1
            union = i % 3 == 2
            real = rf.write_members(ms, union)
            mw = norm_model_result(r['w1'])
            cnt.hit('members:write:' + real[0] + ('' if real[0] == 'ok' else ':' + real[1]))
            cnt.hit('members:wf=%s,field_only=%s' % (r['wf'], r['field_only']))
            cnt.case(['members', ms], nontrivial=len(ms) > 1)
            # the property's oracle on the REAL code, member level (only the side conditions on the input come from
            # the model): what was read, written again, is the same; the reader does not raise
            rp = None
            if real[0] == 'ok':
                rp = rf.parse_members(real[1], union)
                cnt.hit('members:parse:' + (rp[0] if rp[0] == 'ok' else rp[1]))
                if r['wf']:
                    real2 = rf.write_members(rp[1], union) if rp[0] == 'ok' else ('error', 'reader raised ' + rp[1], None)
                    same = real2[0] == 'ok' and real2[1] == real[1]
                    if same:
                        cnt.hit('members:real-fixpoint:ok')
                    else:
                        what = ('the members of a %s are not a write fixed point on the real code: %s; members=%s'
                                % ('union' if union else 'record',
                                   short(deep_diff(real[1], real2[1]) if real2[0] == 'ok' else real2[:2], 400), short(ms, 600)))
                        rep = {'kind': 'members', 'members': ms, 'union': union}
                        cnt.hit('members:real-fixpoint:FAIL')
                        ctx.report_failure('members:' + json.dumps(ms, sort_keys=True)[:2000], what, rep)
                else:
                    cnt.hit('members:not-wf')
            if real[0] != mw[0] or real[1] != mw[1]:
                n_dis += 1
                if n_dis <= 3:
                    ctx.broken.append('correspondence c07.write_members differs: members=%s real=%s model=%s'
                                      % (short(ms, 500), short(real[:2], 500), short(mw, 500)))
                continue
            if r['wf'] and r['write_ok'] and not (r['roundtrip'] and r['fixpoint']):
                ctx.broken.append('the compiled model contradicts C07_members_roundtrip on %s' % short(ms, 400))
            if real[0] != 'ok':
                continue
            mp = norm_model_result(r['parsed'])
            if rp[0] != mp[0] or rp[1] != mp[1]:
                n_dis += 1
                if n_dis <= 3:
                    d = deep_diff(rp[1], mp[1]) if rp[0] == 'ok' and mp[0] == 'ok' else [('result', rp, mp)]
                    ctx.broken.append('correspondence c07.parse_members differs on the written members of %s: %s'
                                      % (short(ms, 300), short(d, 500)))
                continue
            t, op = mutate_tree(rng, {'tag': 'record', 'attrs': [], 'kids': real[1], 'text': None})
            # the content of an anonymous <record>/<union> member is read by _parse_compound again: not modelled
            if all(not k['kids'] for k in t['kids'] if k['tag'] in ('record', 'union')):
                mmuts.append((t['kids'], union, op))
        mr = ctx.driver.batch([{'op': 'c07.parse_members', 'ns': 'Foo', 'kids': k} for k, u, op in mmuts])
        for (kids, union, op), r in zip(mmuts, mr):
            evaluations += 1
            rp = rf.parse_members(kids, union)
            mp = norm_model_result(r)
            cnt.hit('members:malformed:%s:%s' % (op, rp[0] if rp[0] == 'ok' else rp[1]))
            cnt.case(['mmut', kids], nontrivial=True)
            if rp[0] != mp[0] or rp[1] != mp[1]:
                n_dis += 1
                if n_dis <= 3:
                    d = deep_diff(rp[1], mp[1]) if rp[0] == 'ok' and mp[0] == 'ok' else [('result', rp, mp)]
                    ctx.broken.append('correspondence c07.parse_members differs on perturbed members (%s) %s: %s'
                                      % (op, ''.join(tree_to_xml(k) for k in kids)[:400], short(d, 400)))
        if mcases:
            samples.append({'kind': 'members', 'members': mcases[-1]})
        cnt.hit('members:disagreements', n_dis)
    except Exception as e:  # noqa: a private name used for the member tie is gone / changed
        ctx.broken.append('member correspondence could not run against this tree: %r\n%s'
                          % (e, traceback.format_exc()[-500:]))

    # ---------------- are the theorems' side conditions invariants of what the scanner writes?
    try:
        if wf_queue:
            if len(wf_queue) > ctx.n(6000, 30000):
                wf_queue = rng.sample(wf_queue, ctx.n(6000, 30000))
            chk = ctx.driver.batch([{'op': 'c07.check_callable', 'ns': nsname, 'callable': c}
                                    for _o, _e, nsname, c in wf_queue])
            n_notwf = 0
            for (origin, expect, nsname, c), k in zip(wf_queue, chk):
                evaluations += 1
                if k['wf']:
                    cnt.hit('scanned-callable:wf')
                    if k['write_ok'] and not (k['roundtrip'] and k['fixpoint']):
                        ctx.broken.append('model contradicts its theorem on a scanned callable %s of %s' % (c['name'], origin))
                else:
                    cnt.hit('scanned-callable:not-wf:' + '+'.join(k['not_wf']))
                    if origin.startswith('repo:gir/'):
                        continue        # hand-maintained files
                    n_notwf += 1
                    if n_notwf <= 3:
                        ctx.broken.append('a side condition of the C07 theorems is not an invariant of scanner output: '
                                          'callable %r of %s fails %s: %s' % (c['name'], origin, k['not_wf'], short(c, 600)))
        if wfm_queue:
            if len(wfm_queue) > ctx.n(3000, 15000):
                wfm_queue = rng.sample(wfm_queue, ctx.n(3000, 15000))
            chk = ctx.driver.batch([{'op': 'c07.cycle_members', 'ns': nsname, 'members': ms}
                                    for _o, _e, nsname, _n, ms in wfm_queue])
            n_notwf = 0
            for (origin, expect, nsname, name, ms), k in zip(wfm_queue, chk):
                evaluations += 1
                if k['wf']:
                    cnt.hit('scanned-members:wf,field_only=%s' % k['field_only'])
                    if k['write_ok'] and not (k['roundtrip'] and k['fixpoint']):
                        ctx.broken.append('model contradicts C07_members_roundtrip on the scanned compound %s of %s'
                                          % (name, origin))
                else:
                    cnt.hit('scanned-members:not-wf')
                    if origin.startswith('repo:gir/'):
                        continue
                    n_notwf += 1
                    if n_notwf <= 3:
                        ctx.broken.append('a side condition of the C07 member theorems is not an invariant of scanner '
                                          'output: compound %r of %s, members %s: %s' % (name, origin, k['not_wf'], short(ms, 600)))
    except Exception as e:  # noqa
        ctx.broken.append('side-condition check could not run: %r' % (e, ))

    # ---------------- writer vocabulary actually exercised by this run
    unexercised = {}
    try:
        import gen_girvocab_rw
        tb = gen_girvocab_rw.compute(REPO)
        wa = set((e, a) for e, s in tb['w_attrs'].items() for a in s)
        wc = set((e, c) for e, s in tb['w_children'].items() for c in s)
        unexercised = {'attributes': sorted('%s/@%s' % p for p in wa - seen_vocab['attrs']),
                       'children': sorted('%s/%s' % p for p in wc - seen_vocab['children']),
                       'written_pairs': len(wa) + len(wc),
                       'exercised_pairs': len(wa & seen_vocab['attrs']) + len(wc & seen_vocab['children'])}
    except Exception as e:  # noqa
        ctx.broken.append('writer vocabulary could not be re-extracted for the coverage report: %r' % (e, ))

    for cls, h in sorted(pending.hits.items()):
        print('PENDING-FINDING: property=C07 %s [%s] (%d inputs this run)' % (h['what'], h['key'], h['n']))
        ctx.notes.append('pending finding %s: %s' % (h['key'], h['what']))
    ctx.coverage.update({
        'evaluations': evaluations,
        'distinct_nontrivial': cnt.n_distinct(),
        'rule': 'whole files: every *.gir of the repository + corpus + namespaces generated as C declarations, GTK-Doc '
                'comment blocks and runtime dump XML, scanned by the real pipeline (every node kind, optional '
                'attributes toggled at random, doc text with tabs, & < > quotes, leading/trailing spaces, non-ASCII, '
                'several paragraphs); each judged by w1==w2==w3 through GIRParser+GIRWriter (= scannermain.passthrough_gir) '
                'and Transformer.parse_from_gir+GIRWriter, plus an AST walk written-vs-read and read-vs-reread. '
                'namespace pairs: an included namespace (record, enum, flags, callback, alias, class, interface) scanned '
                'and stored, then a generated namespace including it whose functions / fields / vfuncs / properties / '
                'signals / element types / alias targets / parent / implements / prerequisite name those types; every '
                'relation of the two names in every run (Gdk+GdkPixbuf, GdkPixbuf+Gdk, unrelated); both GIRs judged as '
                'above, and the GIR of the same sources scanned under another spelling of the included namespace with '
                'the real spelling put back textually must be byte-identical after read->write. '
                'histories: sequences of 2-4 parse()/parse_tree() calls on ONE GIRParser (also types_only) over generated and '
                'shipped GIRs with the header (include / package / c:include / doc:format / c:identifier-prefixes) kept, '
                'stripped or replaced, now and then a document every reader rejects: each write must be byte-identical '
                'to what a fresh reader gives, the namespaces returned earlier must not change; the header of each is '
                'compared with the Lean state machine. '
                'fragments: generated callables incl. signals (types, parameters, docs) and generated member lists of '
                'records / unions (typed fields with array lengths, callback fields, anonymous struct / union members) '
                'written and read by the real code and by the Lean model, plus perturbed (malformed) variants of every '
                'written element; the field lists and callables of every scanned namespace are checked against the '
                'theorems\' side conditions. non-trivial = namespace has nodes / callable has parameters / more than one '
                'member; distinct by content hash.',
        'samples': samples,
        'distribution': cnt.counts,
        'corpus_cases': len(corpus),
        'repository_gir_files': len(files),
        'transformer_path_skipped_for': skipped_tr,
        'pending_findings': [dict(key=h['key'], what=h['what'], inputs_this_run=h['n'], first_witness=h['first_witness'])
                             for h in pending.hits.values()],
        'writer_vocabulary_not_exercised': unexercised,
        'exhaustive': False,
        'notes': ctx.notes,
    })
    ctx.assumptions.extend([
        'whole-file byte identity is VALIDATED on the real code (sampling), not proved; the theorems cover the XML-tree '
        'fragment written through GIRWriter._write_type/_write_parameter/_write_return_type/_write_callable/_write_signal/'
        '_write_generic and, for records / unions, _write_field (the CONTENT of an anonymous struct / union member is not '
        'modelled: it goes through _write_record / _parse_compound again)',
        'AST walk canonicalisation (what a GIR cannot carry): ctype = complete_ctype or ctype; direction None = in; '
        'nullable = nullable and not not_nullable; caller_allocates only for non-in; node introspectable = introspectable '
        'and not skip; empty optional strings = None; line numbers as text; file names relative to the source roots; only '
        'the main source position; shared_libraries without empty entries',
        'hand-maintained files (/repo/gir/*.gir: no GIRWriter prologue) are not required to be byte-identical after the '
        'first cycle, only to be a fixed point from the second cycle on and to keep the model read back',
        'the C lexer is not available: namespaces start at the symbol stream (harness/scanpipe.py)',
        "Python int() is modelled on ASCII decimal literals; the malformed stream stays inside that",
        'the XML text level (escaping, wrapping) is C20; here trees are compared after ElementTree parsing, whole files byte for byte',
        'scratch GIR files are written under /dev/shm when available (removed on exit)',
    ])


def replay(ctx, rep):
    cnt = Counter()
    fast = fast_scratch(ctx)
    try:
        inc = setup_includes(fast)
        judge = Judge(cnt, fast, inc)
        r = rep['replay']
        kind = r.get('kind')
        fails = []
        if kind == 'namespace':
            cfg = dict(r['cfg'])
            cfg['includes'] = [os.path.join(inc, 'GObject-2.0.gir')]
            cfg['include_paths'] = [inc]
            if r.get('neutralised'):
                cfg = neutralise(cfg, [tuple(t) for t in r.get('triggers', [])])
            out, why = scan_generated(cfg)
            if out is None:
                print('the scanner rejects this input: %s' % why)
                return 2
            st, fails, info = judge.judge(out['gir'].encode('utf-8'), '%s-%s.gir' % (cfg['namespace'], cfg['version']),
                                          'replay', {}, ns_written=out['namespace'],
                                          roots=cfg.get('sources_top_dirs', ['/src']))
        elif kind == 'repo-file':
            path = os.path.join(REPO, r['path'])
            with open(path, 'rb') as f:
                w1 = f.read()
            st, fails, info = judge.judge(w1, os.path.basename(path).replace('-expected', ''), 'replay', {},
                                          must_be_identical=w1.startswith(PROLOGUE.encode()),
                                          incdirs=[os.path.dirname(path), os.path.join(REPO, 'gir')])
        elif kind == 'namespace-pair':
            sts, fails, _outs = judge_pair(judge, r['inc_cfg'], r['cfg'], os.path.join(fast, 'pair', 'replay'), inc,
                                           'replay', {}, count=False)
            st = ','.join(sts)
            if sts and sts[0].startswith('outside'):
                print('the scanner rejects this input')
                return 2
        elif kind == 'gir-with-includes':
            d = os.path.join(fast, 'pair', 'replay')
            os.makedirs(d, exist_ok=True)
            for fn, text in r.get('includes', {}).items():
                with open(os.path.join(d, os.path.basename(fn)), 'w', encoding='utf-8') as f:
                    f.write(text)
            st, fails, info = judge.judge(r['text'].encode('utf-8'), os.path.basename(r.get('filename', 'Replay-1.0.gir')),
                                          'replay', {}, must_be_identical=True, incdirs=[d, inc])
        elif kind == 'gir':
            st, fails, info = judge.judge(r['text'].encode('utf-8'), 'Replay-1.0.gir', 'replay', {}, must_be_identical=True)
        elif kind == 'callable':
            rf = RealFrag(fast)
            w = rf.write(r['callable'])
            print('real write:', short(w[:2], 2000))
            if w[0] == 'ok':
                p = rf.parse(w[1], r['callable']['klass'], 0)
                w2 = rf.write(p[1]) if p[0] == 'ok' else p
                same = w2[0] == 'ok' and w2[1] == w[1]
                print('write(parse(write)) == write:', same)
                return 0 if same else 1
            return 2
        elif kind == 'history':
            h = r['history']
            hf, headers = run_history(history_steps(h), h.get('types_only', False), fast)
            for i, (st, hd) in enumerate(zip(h['steps'], headers)):
                print('step %d %s header=%s -> %s' % (i, st['name'], short(st.get('header'), 200), short(hd, 300)))
            for kind_, i, what in hf:
                print('FAIL %s\n  %s' % (kind_, what[:1500]))
            return 1 if hf else 0
        elif kind == 'members':
            rf = RealFrag(fast)
            w = rf.write_members(r['members'], r.get('union', False))
            print('real write:', short(w[:2], 3000))
            if w[0] == 'ok':
                p = rf.parse_members(w[1], r.get('union', False))
                print('real parse:', short(p, 3000))
                w2 = rf.write_members(p[1], r.get('union', False)) if p[0] == 'ok' else p
                same = w2[0] == 'ok' and w2[1] == w[1]
                print('write(parse(write)) == write:', same)
                return 0 if same else 1
            return 2
        else:
            print('nothing to replay in this file (%s)' % (rep.get('no_longer_checks') or kind))
            return 2
        for f in fails:
            print('FAIL %s\n  %s' % (f['key'], f['what'][:1500]))
        print('status=%s' % st)
        return 1 if fails else 0
    finally:
        import shutil
        shutil.rmtree(fast, ignore_errors=True)
