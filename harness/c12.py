"""C12 — Runtime GObject type data is merged faithfully into the GIR.

Proof: lean/GIVerif/Props/C12.lean over the model lean/GIVerif/Model/Dump.lean.
Tie: (1) translator gen_dump re-reads the G_PARAM_* bits, the literals
gdumpparser.py / maintransformer.py compare against and the GType-name tables of ast.py;
(2) generated pairs (C declarations, runtime dump) are run through /repo's REAL pipeline
(scanpipe: Transformer -> GDumpParser -> MainTransformer -> IntrospectablePass -> GIRWriter)
and through the model (`c12.merge`), and the resulting nodes are compared field by field;
(3) an oracle written from the property statement is evaluated on the REAL GIR of every
case (ElementTree) — that is the failing-input search.

girepository/gdump.c (the C producer of the dump) cannot be built here (no GObject
headers): the dump XML is a MODELLED INPUT, rendered by `render_dump` in the format gdump.c
writes.
"""
import hashlib
import json
import os
import sys
from xml.etree import ElementTree as ET
from xml.sax.saxutils import quoteattr

import scanpipe
from scanpipe import T, P, q
from core import Counter

HERE = os.path.dirname(os.path.abspath(__file__))

# Genuine defects of the unchanged tree found by this check (reported to the integrator);
# the keys identify the failing input class exactly, anything else is still a violation.
PENDING_FINDINGS = {
    # (none at present.  Repaired in /repo and re-validated against the real code by this check:
    #  'error-domain-lost:quark-function-owned-by-class' — commit 51470ab, _pair_quarks_with_enums now walks
    #  Namespace.symbols; 'default-value-dropped:empty-string' — commit 27a045c, _write_property tests `is not None`.
    #  Both input classes are still generated and hand-fed (corpus/C12/edge.json) and now pass unsuppressed.)
}

# ---------------------------------------------------------------------------------------------
# stand-in include GIRs (GLib, GObject, Gio): just enough registered types
# ---------------------------------------------------------------------------------------------
GIR_HEAD = ('<?xml version="1.0"?>\n<repository version="1.2" xmlns="http://www.gtk.org/introspection/core/1.0" '
            'xmlns:c="http://www.gtk.org/introspection/c/1.0" xmlns:glib="http://www.gtk.org/introspection/glib/1.0">\n')

INCLUDE_GIRS = {
    'GLib-2.0.gir': GIR_HEAD + '''  <namespace name="GLib" version="2.0" shared-library="" c:identifier-prefixes="G" c:symbol-prefixes="g,glib">
    <alias name="Quark" c:type="GQuark"><type name="guint32" c:type="guint32"/></alias>
    <record name="Variant" c:type="GVariant" glib:type-name="GVariant" glib:get-type="intern" c:symbol-prefix="variant"/>
    <record name="Error" c:type="GError" glib:type-name="GError" glib:get-type="g_error_get_type" c:symbol-prefix="error"/>
    <record name="Bytes" c:type="GBytes" glib:type-name="GBytes" glib:get-type="g_bytes_get_type" c:symbol-prefix="bytes"/>
  </namespace>
</repository>
''',
    'GObject-2.0.gir': GIR_HEAD + '''  <include name="GLib" version="2.0"/>
  <namespace name="GObject" version="2.0" shared-library="" c:identifier-prefixes="G" c:symbol-prefixes="g">
    <class name="Object" c:symbol-prefix="object" c:type="GObject" glib:type-name="GObject" glib:get-type="g_object_get_type" glib:type-struct="ObjectClass"/>
    <record name="ObjectClass" c:type="GObjectClass" glib:is-gtype-struct-for="Object"/>
    <class name="InitiallyUnowned" parent="Object" c:symbol-prefix="initially_unowned" c:type="GInitiallyUnowned" glib:type-name="GInitiallyUnowned" glib:get-type="g_initially_unowned_get_type"/>
    <class name="ParamSpec" c:symbol-prefix="param_spec" c:type="GParamSpec" abstract="1" glib:type-name="GParam" glib:get-type="intern" glib:fundamental="1"/>
    <class name="TypeModule" parent="Object" c:symbol-prefix="type_module" c:type="GTypeModule" abstract="1" glib:type-name="GTypeModule" glib:get-type="g_type_module_get_type"><implements name="TypePlugin"/></class>
    <interface name="TypePlugin" c:symbol-prefix="type_plugin" c:type="GTypePlugin" glib:type-name="GTypePlugin" glib:get-type="g_type_plugin_get_type"/>
    <record name="TypeInterface" c:type="GTypeInterface"/>
    <record name="Value" c:type="GValue" glib:type-name="GValue" glib:get-type="g_value_get_type" c:symbol-prefix="value"/>
    <bitfield name="BindingFlags" c:type="GBindingFlags" glib:type-name="GBindingFlags" glib:get-type="g_binding_flags_get_type"/>
  </namespace>
</repository>
''',
    'Gio-2.0.gir': GIR_HEAD + '''  <include name="GObject" version="2.0"/>
  <namespace name="Gio" version="2.0" shared-library="" c:identifier-prefixes="G" c:symbol-prefixes="g">
    <class name="Application" parent="GObject.Object" c:symbol-prefix="application" c:type="GApplication" glib:type-name="GApplication" glib:get-type="g_application_get_type"/>
    <class name="InputStream" parent="GObject.Object" c:symbol-prefix="input_stream" c:type="GInputStream" abstract="1" glib:type-name="GInputStream" glib:get-type="g_input_stream_get_type"/>
    <class name="FilterInputStream" parent="InputStream" c:symbol-prefix="filter_input_stream" c:type="GFilterInputStream" glib:type-name="GFilterInputStream" glib:get-type="g_filter_input_stream_get_type"/>
    <interface name="Action" c:symbol-prefix="action" c:type="GAction" glib:type-name="GAction" glib:get-type="g_action_get_type"/>
    <interface name="Initable" c:symbol-prefix="initable" c:type="GInitable" glib:type-name="GInitable" glib:get-type="g_initable_get_type"/>
    <interface name="Icon" c:symbol-prefix="icon" c:type="GIcon" glib:type-name="GIcon" glib:get-type="g_icon_get_type"/>
    <enumeration name="IOErrorEnum" c:type="GIOErrorEnum" glib:type-name="GIOErrorEnum" glib:get-type="g_io_error_enum_get_type"/>
  </namespace>
</repository>
''',
}

_GIRNS = {'core': 'http://www.gtk.org/introspection/core/1.0', 'c': 'http://www.gtk.org/introspection/c/1.0',
          'glib': 'http://www.gtk.org/introspection/glib/1.0'}


def write_includes(scratch):
    d = os.path.join(scratch, 'gir')
    os.makedirs(d, exist_ok=True)
    for fn, text in INCLUDE_GIRS.items():
        with open(os.path.join(d, fn), 'w', encoding='utf-8') as f:
            f.write(text)
    return d


def include_known_types(which):
    """GType name -> GIName of every registered type of the stand-in include `which` and of
    what it includes — read from the GIR TEXT with ElementTree, independently of girparser"""
    deps = {'GLib': ['GLib'], 'GObject': ['GObject', 'GLib'], 'Gio': ['Gio', 'GObject', 'GLib']}[which]
    out = {}
    for ns in deps:
        root = ET.fromstring(INCLUDE_GIRS['%s-2.0.gir' % ns])
        nse = root.find('core:namespace', _GIRNS)
        for el in nse:
            tn = el.get(q('glib:type-name'))
            if tn is not None and tn not in out:
                out[tn] = '%s.%s' % (ns, el.get('name'))
    return out


# ---------------------------------------------------------------------------------------------
# the dump, rendered the way girepository/gdump.c writes it
# ---------------------------------------------------------------------------------------------
def render_dump(items):
    o = ['<?xml version="1.0"?>\n<dump>\n']
    for it in items:
        tag = it['tag']
        if tag == 'error-quark':
            o.append('  <error-quark function=%s domain=%s/>\n' % (quoteattr(it['function']), quoteattr(it['domain'])))
            continue
        head = '  <%s' % tag
        for a, k in (('name', 'name'), ('get-type', 'get_type')):
            if it.get(k) is not None:
                head += ' %s=%s' % (a, quoteattr(it[k]))
        if tag == 'fundamental':
            for a in ('abstract', 'final', 'instantiatable'):
                if it.get(a) is not None:
                    head += ' %s=%s' % (a, quoteattr(it[a]))
            if it.get('parents') is not None:
                head += ' parents=%s' % quoteattr(it['parents'])
        else:
            if it.get('parents') is not None:
                head += ' parents=%s' % quoteattr(it['parents'])
            for a in ('abstract', 'final'):
                if it.get(a) is not None:
                    head += ' %s=%s' % (a, quoteattr(it[a]))
        if tag in ('boxed', 'pointer'):
            o.append(head + '/>\n')
            continue
        o.append(head + '>\n')
        for i in it.get('implements', []):
            o.append('    <implements name=%s/>\n' % quoteattr(i))
        for i in it.get('prereqs', []):
            o.append('    <prerequisite name=%s/>\n' % quoteattr(i))
        for p in it.get('props', []):
            s = '    <property name=%s type=%s flags="%d"' % (quoteattr(p['name']), quoteattr(p['type']), p['flags'])
            if p.get('default') is not None:
                s += ' default-value=%s' % quoteattr(p['default'])
            o.append(s + '/>\n')
        for sg in it.get('signals', []):
            s = '    <signal name=%s return=%s' % (quoteattr(sg['name']), quoteattr(sg['ret']))
            for a, k in (('when', 'when'), ('no-recurse', 'no_recurse'), ('detailed', 'detailed'),
                         ('action', 'action'), ('no-hooks', 'no_hooks')):
                if sg.get(k) is not None:
                    s += ' %s=%s' % (a, quoteattr(sg[k]))
            o.append(s + '>\n')
            for pt in sg.get('params', []):
                o.append('      <param type=%s/>\n' % quoteattr(pt))
            o.append('    </signal>\n')
        for mb in it.get('members', []):
            o.append('    <member name=%s nick=%s value="%d"/>\n' % (quoteattr(mb['name']), quoteattr(mb['nick']), mb['value']))
        o.append('  </%s>\n' % tag)
    o.append('</dump>\n')
    return ''.join(o)


def case_cfg(case, girdir, with_dump=True):
    cfg = {'namespace': case['ns'], 'decls': case['decls'], 'include_paths': [girdir],
           'includes': [os.path.join(girdir, '%s-2.0.gir' % case.get('include', 'GObject'))]}
    if case.get('idp'):
        cfg['id_prefixes'] = case['idp']
    if case.get('symp'):
        cfg['sym_prefixes'] = case['symp']
    if with_dump:
        cfg['dump'] = render_dump(case['dump'])
    return cfg


# ---------------------------------------------------------------------------------------------
# running the real code
# ---------------------------------------------------------------------------------------------
# whatever escapes the real pipeline is recorded as an abort of that pair (judged by the oracle:
# an abort on a well-formed pair is a property failure, never a harness error)
ABORTS = (SystemExit, Exception)


def kind_of(m, node):
    a = m.ast
    if isinstance(node, a.ErrorQuarkFunction):
        return 'quark'
    for cls, k in ((a.Function, 'func'), (a.Record, 'record'), (a.Union, 'union'), (a.Enum, 'enum'),
                   (a.Bitfield, 'bitfield'), (a.Class, 'cls'), (a.Interface, 'iface'), (a.Boxed, 'boxed'),
                   (a.Callback, 'callback')):
        if isinstance(node, cls):
            return k
    return 'other'


def model_input(m, case, pre):
    """the `c12.merge` request: the namespace as Transformer.parse left it + the dump"""
    tr = pre['transformer']
    ns = pre['namespace']
    uscore = m.utils.to_underscores_noprefix
    nodes = []
    for name, node in ns.names.items():
        k = kind_of(m, node)
        d = {'name': name, 'kind': k, 'ctype': getattr(node, 'ctype', None), 'uscored': uscore(name).lower()}
        if k == 'func':
            d['symbol'] = node.symbol
            d['meta'] = bool(node.is_type_meta_function())
            d['quark'] = node.retval.type.ctype == 'GQuark'
            d['nparams'] = len(node.parameters)
        if k in ('record', 'union'):
            fs = []
            for f in node.fields:
                fd = {'name': f.name}
                if isinstance(f.anonymous_node, m.ast.Callback):
                    fd['anon'] = [p.type.ctype or '' for p in f.anonymous_node.parameters]
                elif f.type is not None and f.anonymous_node is None:
                    fd['ctype'] = f.type.ctype
                fs.append(fd)
            d['fields'] = fs
        if k == 'callback':
            d['cb_params'] = [p.type.ctype or '' for p in node.parameters]
        nodes.append(d)
    incs = []
    for iname, ins in tr._parsed_includes.items():
        incs.append({'name': iname, 'types': [[g, n.name] for g, n in ins.type_names.items()
                                              if ins.get(n.name) is not None]})
    dump = []
    for it in case['dump']:
        it = dict(it)
        if it['tag'] != 'error-quark':
            try:
                it['uscored'] = uscore(tr.strip_identifier(it['name'])).lower()
            except Exception:
                it['uscored'] = ''
            it.pop('members', None)
        dump.append(it)
    return {'op': 'c12.merge', 'ns': ns.name, 'idp': list(ns.identifier_prefixes),
            'symp': list(ns.symbol_prefixes), 'includes': incs, 'nodes': nodes, 'dump': dump}


def render_type(m, t):
    a = m.ast
    if t is None:
        return None
    if isinstance(t, a.Map):
        return 'c:map::%s,%s' % (t.key_type.target_fundamental, t.value_type.target_fundamental)
    if isinstance(t, a.Array):
        return 'c:array:%s:%s' % (t.array_type, t.element_type.target_fundamental)
    if t.target_fundamental:
        return 'f:' + t.target_fundamental
    if t.target_giname:
        return 'g:' + t.target_giname
    return 'u:%s' % t.gtype_name


def local_name(nsname, t):
    if t is None:
        return None
    g = t.target_giname
    return g[len(nsname) + 1:] if g and g.startswith(nsname + '.') else g


COMPARED_KINDS = ('record', 'union', 'enum', 'bitfield', 'cls', 'iface', 'boxed', 'quark')


def real_nodes(m, ns):
    """the same canonical records the model driver prints, from the live objects"""
    out = []
    for name, n in ns.names.items():
        k = kind_of(m, n)
        if k not in COMPARED_KINDS:
            continue
        d = {'name': name, 'kind': k, 'ctype': getattr(n, 'ctype', None),
             'gtype': getattr(n, 'gtype_name', None), 'get_type': getattr(n, 'get_type', None),
             'symprefix': getattr(n, 'c_symbol_prefix', None)}
        if k in ('cls', 'iface'):
            d['parent'] = render_type(m, n.parent_type)
            d['abstract'] = bool(getattr(n, 'is_abstract', False))
            d['final'] = bool(getattr(n, 'is_final', False))
            d['fundamental'] = bool(getattr(n, 'fundamental', False))
            d['interfaces'] = [render_type(m, t) for t in getattr(n, 'interfaces', [])]
            d['prereqs'] = [render_type(m, t) for t in getattr(n, 'prerequisites', [])]
            d['props'] = [{'name': p.name, 'type': render_type(m, p.type),
                           'flags': [bool(p.readable), bool(p.writable), bool(p.construct), bool(p.construct_only)],
                           'default': p.default_value} for p in n.properties]
            d['sigs'] = [{'name': s.name, 'ret': render_type(m, s.retval.type),
                          'params': [[p.argname, render_type(m, p.type)] for p in s.parameters],
                          'when': s.when, 'no_recurse': bool(s.no_recurse), 'detailed': bool(s.detailed),
                          'action': bool(s.action), 'no_hooks': bool(s.no_hooks)} for s in n.signals]
            d['type_struct'] = local_name(ns.name, n.glib_type_struct)
            d['vfuncs'] = [v.name for v in n.virtual_methods]
            d['field_names'] = [f.name for f in n.fields]
        if k == 'record':
            d['struct_for'] = local_name(ns.name, n.is_gtype_struct_for)
        if k == 'enum':
            d['error_domain'] = n.error_domain
        if k == 'quark':
            d = {'name': name, 'kind': k, 'symbol': n.symbol, 'error_domain': n.error_domain}
        out.append(d)
    return out


def model_nodes(res):
    """reduce the driver's records to the fields `real_nodes` extracts"""
    out = []
    for n in res['nodes']:
        k = n['kind']
        if k not in COMPARED_KINDS:
            continue
        d = {f: n[f] for f in ('name', 'kind', 'ctype', 'gtype', 'get_type', 'symprefix')}
        if k in ('cls', 'iface'):
            for f in ('parent', 'abstract', 'final', 'fundamental', 'interfaces', 'prereqs', 'sigs',
                      'type_struct', 'vfuncs', 'field_names'):
                d[f] = n[f]
            d['props'] = [{k: v for k, v in p.items() if k != 'default_written'} for p in n['props']]
        if k == 'record':
            d['struct_for'] = n['struct_for']
        if k == 'enum':
            d['error_domain'] = n['error_domain']
        if k == 'quark':
            d = {'name': n['name'], 'kind': k, 'symbol': n['symbol'], 'error_domain': n['error_domain']}
        out.append(d)
    return out


def run_real(m, case, girdir):
    """(pre, full): the namespace after Transformer.parse, and the whole pipeline with the
    namespace snapshotted between GDumpParser.parse and MainTransformer.transform"""
    try:
        pre = scanpipe.scan(dict(case_cfg(case, girdir, with_dump=False), stop_after='transformer'))
    except ABORTS as e:
        return None, {'abort': 'before the dump: %s: %s' % (type(e).__name__, str(e)[:200]), 'after_parse': None}
    snap = {}
    MT = m.maintransformer.MainTransformer
    orig = MT.transform

    def transform(self):
        snap['after_parse'] = [[n, kind_of(m, v)] for n, v in self._namespace.names.items()]
        return orig(self)
    MT.transform = transform
    full = {'abort': None}
    try:
        try:
            r = scanpipe.scan(case_cfg(case, girdir))
            full.update(gir=r['gir'], namespace=r['namespace'], warnings=r['warnings'])
        except ABORTS as e:
            full['abort'] = '%s: %s' % (type(e).__name__, str(e)[:200])
    finally:
        MT.transform = orig
    full['after_parse'] = snap.get('after_parse')
    return pre, full


# ---------------------------------------------------------------------------------------------
# generator: (C declarations, runtime dump) pairs
# ---------------------------------------------------------------------------------------------
NSPOOL = [
    {'ns': 'Foo', 'idp': None, 'symp': None, 'ip': 'Foo', 'sp': 'foo'},
    {'ns': 'Tst', 'idp': None, 'symp': None, 'ip': 'Tst', 'sp': 'tst'},
    {'ns': 'Gfoo', 'idp': None, 'symp': None, 'ip': 'Gfoo', 'sp': 'gfoo'},
    {'ns': 'My', 'idp': ['My', 'Mi'], 'symp': ['my', 'mi'], 'ip': 'My', 'sp': 'my'},
    {'ns': 'Foo', 'idp': ['Foo'], 'symp': ['foo_'], 'ip': 'Foo', 'sp': 'foo'},
]
WORDS = ['Bar', 'Baz', 'Widget', 'Buffer', 'TextBuffer', 'Item', 'Thing', 'DBusPeer', 'Source', 'Painter',
         'Stream', 'IOChannel', 'Node', 'View', 'TreeView', 'Cell', 'Codec', 'X11Display']
FUND_TYPES = ['gchar', 'guchar', 'gboolean', 'gint', 'guint', 'glong', 'gulong', 'gint64', 'guint64', 'gfloat',
              'gdouble', 'gchararray', 'gpointer', 'GType']
CONTAINER_TYPES = ['GStrv', 'GHashTable', 'GByteArray', 'GArray', 'GPtrArray']
WHENS = ['first', 'last', 'cleanup', 'must-collect', None]

# what the statement means by "type ... as reported", for the GLib fundamental GType names the
# generator uses (hand-written; deliberately not read from ast.type_names)
ORACLE_FUND = {'gchar': 'gchar', 'guchar': 'guint8', 'gboolean': 'gboolean', 'gint': 'gint', 'guint': 'guint',
               'glong': 'glong', 'gulong': 'gulong', 'gint64': 'gint64', 'guint64': 'guint64', 'gfloat': 'gfloat',
               'gdouble': 'gdouble', 'gchararray': 'utf8', 'gpointer': 'gpointer', 'GType': 'GType', 'void': 'none'}
ORACLE_CONT = {'GStrv': ('array', None, 'utf8'), 'GHashTable': ('type', 'GLib.HashTable', None),
               'GByteArray': ('array', 'GLib.ByteArray', 'guint8'), 'GArray': ('array', 'GLib.Array', 'gpointer'),
               'GPtrArray': ('array', 'GLib.PtrArray', 'gpointer')}


def snake(word):
    """CamelCase -> snake_case for the generator's own word pool (plain rule: a new word starts
    at an upper-case letter that follows a lower-case letter or digit, or that is followed by
    a lower-case letter inside an upper-case run)"""
    out = []
    for i, ch in enumerate(word):
        if ch.isupper() and i > 0:
            prev = word[i - 1]
            nxt = word[i + 1] if i + 1 < len(word) else ''
            if not prev.isupper() or (nxt.islower() and i > 1 and word[i - 2].isupper() and prev.isupper()):
                out.append('_')
        out.append(ch.lower())
    return ''.join(out)


class Gen(object):
    def __init__(self, rng, nsd, include):
        self.rng = rng
        self.nsd = nsd
        self.include = include
        self.decls = []
        self.dump = []
        self.words = list(WORDS)
        rng.shuffle(self.words)
        self.line = 1
        self.inc_types = include_known_types(include)
        self.classes = []      # (word, ctype)
        self.ifaces = []
        self.enums = []        # registered enum/flags ctype
        self.boxed = []
        self.expect = {'vfuncs': {}}

    def word(self):
        return self.words.pop() if self.words else 'W%d' % self.rng.randint(0, 10 ** 6)

    def prefixes(self):
        if self.nsd['idp'] and len(self.nsd['idp']) > 1 and self.rng.random() < 0.4:
            return self.nsd['idp'][1], self.nsd['symp'][1]
        return self.nsd['ip'], self.nsd['sp']

    def add(self, d):
        self.line += self.rng.randint(1, 9)
        d['line'] = self.line
        self.decls.append(d)

    def get_type_fn(self, sym):
        self.add({'d': 'function', 'name': sym, 'ret': T('GType'), 'params': []})

    def hidden_name(self):
        rng = self.rng
        return rng.choice([self.nsd['ip'] + 'Hidden' + rng.choice(['Base', 'Impl', 'Private', 'X']),
                           'Xyz' + rng.choice(['Object', 'Base']), 'GLocal' + rng.choice(['File', 'Thing']),
                           self.nsd['ip'] + 'Priv%d' % rng.randint(0, 9)])

    def known_iface_names(self):
        out = [g for g, n in self.inc_types.items() if g in ('GTypePlugin', 'GAction', 'GInitable', 'GIcon')]
        return out + [c for _, c in self.ifaces]

    def prop_type(self):
        rng = self.rng
        r = rng.random()
        if r < 0.55:
            return rng.choice(FUND_TYPES)
        if r < 0.68:
            return rng.choice(CONTAINER_TYPES)
        if r < 0.8 and (self.classes or self.enums or self.boxed):
            return rng.choice([c for _, c in self.classes] + self.enums + self.boxed)
        if r < 0.92:
            return rng.choice(sorted(self.inc_types))
        return self.hidden_name()

    def default_for(self, t):
        rng = self.rng
        if rng.random() < 0.3:
            return None
        if t == 'gboolean':
            return rng.choice(['TRUE', 'FALSE'])
        if t == 'gchararray':
            return rng.choice(['NULL', 'hello', '', 'a b', 'x<y&"z"', '\\303\\251t\\303\\251', ' '])
        if t in ('gfloat', 'gdouble'):
            return rng.choice(['0.000000', '1.500000', '-3.250000'])
        if t in ('gint', 'glong', 'gint64', 'gchar'):
            return str(rng.choice([0, 1, -1, 42, -2147483648, 2147483647]))
        if t in ('guint', 'gulong', 'guint64', 'guchar'):
            return str(rng.choice([0, 1, 255, 4294967295]))
        if t == 'GType':
            return rng.choice(['void', 'GObject', None])
        if t in self.enums:
            return rng.choice(['%s_A' % t.upper(), 'VALUE_ONE'])
        return None

    def props(self, flagpool):
        rng = self.rng
        out = []
        names = ['name', 'label', 'is-active', 'max-width', 'n-items', 'flags', 'child', 'orientation', 'x', 'has-focus',
                 'a', 'zeta', 'Alpha', 'b-2']
        rng.shuffle(names)
        for _ in range(rng.choice([0, 1, 2, 3, 3, 5])):
            t = self.prop_type()
            low = flagpool.pop() if flagpool else rng.randint(0, 15)
            r = rng.random()
            if r < 0.35:
                w = low
            elif r < 0.7:
                w = low | (rng.getrandbits(27) << 4)
            elif r < 0.85:
                w = (low | (rng.getrandbits(27) << 4) | (1 << 31)) - (1 << 32)     # G_PARAM_DEPRECATED, printed with %d
            else:
                w = low | (rng.getrandbits(60) << 4)
            out.append({'name': names.pop(), 'type': t, 'flags': w, 'default': self.default_for(t)})
        return out

    def signals(self):
        rng = self.rng
        out = []
        names = ['changed', 'activate', 'notify-me', 'item-added', 'closed', 'a', 'z-last']
        rng.shuffle(names)
        for _ in range(rng.choice([0, 0, 1, 2, 3])):
            sg = {'name': names.pop(), 'ret': rng.choice(['void', 'void', 'gboolean', 'gint', 'gchararray', self.prop_type()]),
                  'when': rng.choice(WHENS), 'params': [self.prop_type() for _ in range(rng.choice([0, 0, 1, 2, 4]))]}
            for k in ('no_recurse', 'detailed', 'action', 'no_hooks'):
                sg[k] = '1' if rng.random() < 0.35 else None
            out.append(sg)
        return out

    def cb_type(self, first):
        params = []
        if first is not None:
            params.append({'name': 'self', 'type': first})
        for i in range(self.rng.randint(0, 2)):
            params.append({'name': 'a%d' % i, 'type': self.rng.choice([T('int'), P(T('char')), T('gboolean'), T('gpointer')])})
        return P({'k': 'func', 'ret': self.rng.choice([T('void'), T('int'), T('gboolean')]), 'params': params})

    def struct_fields(self, word, ctype, parent_field, other_ctypes):
        """fields of a class / interface structure; records which are expected to become vfuncs"""
        rng = self.rng
        fields = [parent_field]
        vf = []
        fnames = ['do_it', 'activate', 'changed', 'get_size', 'draw', 'ready', 'finish', 'load', '_reserved1', 'padding']
        rng.shuffle(fnames)
        for _ in range(rng.choice([0, 1, 2, 3, 4, 6])):
            fn = fnames.pop()
            kind = rng.choice(['inst', 'inst', 'inst_const', 'other', 'int', 'none', 'gpointer', 'data', 'named_inst', 'named_other'])
            if kind == 'inst':
                fields.append({'name': fn, 'type': self.cb_type(P(T(ctype)))})
                vf.append(fn)
            elif kind == 'inst_const':
                fields.append({'name': fn, 'type': self.cb_type(P(T(ctype, q=scanpipe.Q_CONST)))})
                vf.append(fn)
            elif kind == 'other':
                oc = rng.choice(other_ctypes + ['GObject'])
                fields.append({'name': fn, 'type': self.cb_type(P(T(oc)))})
            elif kind == 'int':
                fields.append({'name': fn, 'type': self.cb_type(T('int'))})
            elif kind == 'gpointer':
                fields.append({'name': fn, 'type': self.cb_type(T('gpointer'))})
            elif kind == 'none':
                fields.append({'name': fn, 'type': self.cb_type(None)})
            elif kind == 'data':
                fields.append({'name': fn, 'type': rng.choice([T('int'), T('gpointer'), P(T('char'))])})
            else:
                self.ncb = getattr(self, 'ncb', 0) + 1
                tdn = ctype + snake(fn).title().replace('_', '') + 'Func%d' % self.ncb
                first = P(T(ctype)) if kind == 'named_inst' else rng.choice([T('int'), P(T('GObject')), T('gpointer')])
                self.add({'d': 'typedef', 'name': tdn, 'type': self.cb_type(first)})
                fields.append({'name': fn, 'type': T(tdn)})
                if kind == 'named_inst':
                    vf.append(fn)
        return fields, vf

    def parents_for(self, ctype, base):
        """GType ancestry, nearest first, as gdump writes it: hidden intermediates mixed in"""
        rng = self.rng
        chain = []
        for _ in range(rng.choice([0, 0, 1, 2, 3])):
            chain.append(self.hidden_name())
        if base is not None:
            chain.append(base)
            if base in ('GInitiallyUnowned', 'GApplication', 'GTypeModule', 'GInputStream'):
                chain.append('GObject')
            elif base == 'GFilterInputStream':
                chain += ['GInputStream', 'GObject']
            elif base != 'GObject':
                if rng.random() < 0.5:
                    chain.append(self.hidden_name())
                chain.append('GObject')
        elif rng.random() < 0.6:
            chain.append(self.hidden_name())     # nothing known at all
        return chain

    def add_class(self, fundamental=False):
        rng = self.rng
        ip, sp = self.prefixes()
        w = self.word()
        ctype = ip + w
        sym = '%s_%s' % (sp, snake(w))
        if rng.random() < 0.07:
            sym += '_object'          # gdk_window_object_get_type(): prefix differs from the type name
        has_inst = rng.random() < 0.8
        cs_kind = rng.choice(['record', 'record', 'record', 'record', 'none', 'typedef-only', 'union'])
        self.add({'d': 'typedef', 'name': ctype, 'type': {'k': 'struct', 'n': '_' + ctype}})
        if has_inst:
            self.add({'d': 'struct', 'name': '_' + ctype, 'fields': [
                {'name': 'parent_instance', 'type': T('GObject')}, {'name': 'priv', 'type': T('gpointer')}]})
        others = [c for _, c in self.classes]
        if cs_kind in ('record', 'union'):
            fields, vf = self.struct_fields(w, ctype, {'name': 'parent_class', 'type': T('GObjectClass')}, others)
            self.add({'d': 'typedef', 'name': ctype + 'Class', 'type': {'k': 'struct' if cs_kind == 'record' else 'union',
                                                                     'n': '_' + ctype + 'Class'}})
            self.add({'d': 'struct' if cs_kind == 'record' else 'union', 'name': '_' + ctype + 'Class', 'fields': fields})
            if cs_kind == 'record':
                self.expect['vfuncs'][ctype] = (ctype + 'Class', vf, [f['name'] for f in fields])
        elif cs_kind == 'typedef-only':
            self.add({'d': 'typedef', 'name': ctype + 'Class', 'type': {'k': 'struct', 'n': '_' + ctype + 'Class'}})
            self.expect['vfuncs'][ctype] = (ctype + 'Class', [], [])
        self.get_type_fn(sym + '_get_type')
        if rng.random() < 0.5:
            self.add({'d': 'function', 'name': sym + '_new', 'ret': P(T(ctype)), 'params': []})
        if rng.random() < 0.5:
            self.add({'d': 'function', 'name': sym + '_get_name', 'ret': P(T('char')),
                      'params': [{'name': 'self', 'type': P(T(ctype))}]})
        bases = ['GObject', 'GObject', 'GInitiallyUnowned', None] + [c for _, c in self.classes]
        if self.include == 'Gio':
            bases += ['GApplication', 'GFilterInputStream']
        base = rng.choice(bases)
        it = {'tag': 'fundamental' if fundamental else 'class', 'name': ctype, 'get_type': sym + '_get_type'}
        if fundamental:
            if rng.random() < 0.5:
                it['instantiatable'] = '1'
            chain = [self.hidden_name() for _ in range(rng.choice([0, 0, 1]))]
            if chain or rng.random() < 0.3:
                chain += [c for _, c in self.classes][:1]
            if chain:
                it['parents'] = ','.join(chain)
        else:
            it['parents'] = ','.join(self.parents_for(ctype, base))
        if rng.random() < 0.25:
            it['abstract'] = '1'
        if rng.random() < 0.15:
            it['final'] = '1'
        impl = []
        pool = self.known_iface_names()
        for _ in range(rng.choice([0, 0, 1, 2, 3])):
            impl.append(rng.choice(pool) if pool and rng.random() < 0.7 else self.hidden_name())
        it['implements'] = list(dict.fromkeys(impl))
        if not fundamental:
            it['props'] = self.props(self.flagpool)
            it['signals'] = self.signals()
        self.dump.append(it)
        self.classes.append((w, ctype))
        return w, ctype, sym

    def add_iface(self):
        rng = self.rng
        ip, sp = self.prefixes()
        w = self.word()
        ctype = ip + w
        sym = '%s_%s' % (sp, snake(w))
        self.add({'d': 'typedef', 'name': ctype, 'type': {'k': 'struct', 'n': '_' + ctype}})
        suffix = rng.choice(['Iface', 'Interface', 'Interface', None, 'both'])
        for sfx in (['Iface', 'Interface'] if suffix == 'both' else [suffix] if suffix else []):
            fields, vf = self.struct_fields(w, ctype, {'name': 'g_iface', 'type': T('GTypeInterface')},
                                            [c for _, c in self.classes])
            self.add({'d': 'typedef', 'name': ctype + sfx, 'type': {'k': 'struct', 'n': '_' + ctype + sfx}})
            self.add({'d': 'struct', 'name': '_' + ctype + sfx, 'fields': fields})
            if ctype not in self.expect['vfuncs']:
                self.expect['vfuncs'][ctype] = (ctype + sfx, vf, [f['name'] for f in fields])
        self.get_type_fn(sym + '_get_type')
        pre = []
        pool = self.known_iface_names() + [c for _, c in self.classes] + ['GInitiallyUnowned']
        for _ in range(rng.choice([0, 0, 1, 2])):
            pre.append(rng.choice(pool) if rng.random() < 0.75 else self.hidden_name())
        self.dump.append({'tag': 'interface', 'name': ctype, 'get_type': sym + '_get_type',
                          'prereqs': list(dict.fromkeys(pre)), 'props': self.props(self.flagpool), 'signals': self.signals()})
        self.ifaces.append((w, ctype))

    def add_enum(self, w=None, registered=None, flags=None, suffix=''):
        rng = self.rng
        ip, sp = self.prefixes()
        w = (w or self.word()) + suffix
        ctype = ip + w
        sym = '%s_%s' % (sp, snake(w))
        flags = rng.random() < 0.3 if flags is None else flags
        registered = rng.random() < 0.6 if registered is None else registered
        up = sym.upper()
        members = [{'name': '%s_%s' % (up, n), 'value': (1 << i) if flags else i}
                   for i, n in enumerate(rng.sample(['A', 'B', 'FAILED', 'NOT_FOUND', 'BUSY'], rng.randint(2, 4)))]
        self.add({'d': 'typedef', 'name': ctype, 'type': {'k': 'enum', 'n': None, 'members': members, 'bitfield': flags}})
        if registered:
            self.get_type_fn(sym + '_get_type')
            self.dump.append({'tag': 'flags' if flags else 'enum', 'name': ctype, 'get_type': sym + '_get_type',
                              'members': [{'name': mb['name'], 'nick': mb['name'][len(up) + 1:].lower().replace('_', '-'),
                                           'value': mb['value']} for mb in members]})
            self.enums.append(ctype)
        return ctype, sym, flags

    def add_quark(self, sym_base, domain=None, declare=True, in_dump=True):
        fn = sym_base + '_quark'
        if declare:
            self.add({'d': 'function', 'name': fn, 'ret': T('GQuark'), 'params': []})
        if in_dump:
            self.dump.append({'tag': 'error-quark', 'function': fn,
                              'domain': domain or sym_base.replace('_', '-') + '-quark'})

    def add_boxed(self, pointer=False):
        rng = self.rng
        ip, sp = self.prefixes()
        w = self.word()
        ctype = ip + w
        sym = '%s_%s' % (sp, snake(w))
        shape = rng.choice(['record', 'record', 'opaque', 'union', 'nothing', 'nothing'])
        if shape == 'record':
            self.add({'d': 'typedef', 'name': ctype, 'type': {'k': 'struct', 'n': '_' + ctype}})
            self.add({'d': 'struct', 'name': '_' + ctype, 'fields': [{'name': 'x', 'type': T('int')}, {'name': 'y', 'type': T('double')}]})
        elif shape == 'opaque':
            self.add({'d': 'typedef', 'name': ctype, 'type': {'k': 'struct', 'n': '_' + ctype}})
        elif shape == 'union':
            self.add({'d': 'typedef', 'name': ctype, 'type': {'k': 'union', 'n': '_' + ctype}})
            self.add({'d': 'union', 'name': '_' + ctype, 'fields': [{'name': 'i', 'type': T('int')}, {'name': 'p', 'type': T('gpointer')}]})
        self.get_type_fn(sym + '_get_type')
        if rng.random() < 0.4:
            self.add({'d': 'function', 'name': sym + '_copy', 'ret': P(T(ctype)),
                      'params': [{'name': 'self', 'type': P(T(ctype))}]})
        self.dump.append({'tag': 'pointer' if pointer else 'boxed', 'name': ctype, 'get_type': sym + '_get_type'})
        if not pointer or shape != 'nothing':
            self.boxed.append(ctype)
        return w, ctype, sym


def gen_case(rng, flagpool=None):
    nsd = rng.choice(NSPOOL)
    g = Gen(rng, nsd, rng.choice(['GObject', 'GObject', 'Gio']))
    g.flagpool = flagpool if flagpool is not None else []
    plan = rng.choice([['iface', 'class', 'class'], ['class'], ['class', 'boxed', 'enum'], ['enum', 'quark'],
                       ['class', 'classquark'], ['boxed', 'boxedquark', 'pointer'], ['iface', 'iface', 'class', 'fundamental'],
                       ['class', 'class', 'class', 'iface', 'enum', 'boxed', 'pointer', 'quark'],
                       ['fundamental', 'class'], ['enum', 'enum', 'quark', 'quark', 'class'], ['ifacequark', 'class'],
                       ['classquark', 'quark', 'classquark'], ['enum', 'quark', 'classquark']])
    rng.shuffle(plan) if rng.random() < 0.3 else None
    for step in plan:
        if step == 'class':
            g.add_class()
        elif step == 'fundamental':
            g.add_class(fundamental=True)
        elif step == 'iface':
            g.add_iface()
        elif step == 'enum':
            g.add_enum()
        elif step == 'boxed':
            g.add_boxed()
        elif step == 'pointer':
            g.add_boxed(pointer=True)
        elif step == 'quark':
            # an error enumeration (registered or not, never flags) and its quark function
            ctype, sym, _ = g.add_enum(registered=rng.random() < 0.5, flags=False, suffix='Error')
            r = rng.random()
            g.add_quark(sym, declare=r > 0.06, in_dump=r < 0.94)
        elif step in ('classquark', 'boxedquark', 'ifacequark'):
            # FooBar + FooBarError + foo_bar_error_quark
            if step == 'classquark':
                w, ctype, sym = g.add_class()
            elif step == 'boxedquark':
                w, ctype, sym = g.add_boxed()
            else:
                g.add_iface()
                w, ctype = g.ifaces[-1]
                sym = None
            ip, sp = (ctype[:len(ctype) - len(w)], None)
            g.words.append(w)         # reuse the word: enum <Word>Error
            save = g.prefixes
            g.prefixes = lambda ip=ip: (ip, g.nsd['symp'][g.nsd['idp'].index(ip)] if g.nsd['idp'] and ip in g.nsd['idp'] else g.nsd['sp'])
            ectype, esym, _ = g.add_enum(w=g.words.pop(), registered=rng.random() < 0.4, flags=False, suffix='Error')
            g.prefixes = save
            g.add_quark(esym)
    if rng.random() < 0.25:
        g.add({'d': 'function', 'name': '%s_init' % nsd['sp'], 'ret': T('void'), 'params': []})
    if rng.random() < 0.15:
        g.add_quark('%s_misc_error' % nsd['sp'])        # no enumeration matches
    if rng.random() < 0.3:
        rng.shuffle(g.dump)
    if rng.random() < 0.2:
        rng.shuffle(g.decls)
    case = {'ns': nsd['ns'], 'idp': nsd['idp'], 'symp': nsd['symp'], 'include': g.include, 'decls': g.decls,
            'dump': g.dump, 'expect_vfuncs': g.expect['vfuncs']}
    return case


def gen_malformed(rng):
    """dumps gdump.c would not write for these declarations, and declarations that do not fit
    the namespace: model and real code must agree on abort / result; the oracle stays silent"""
    case = gen_case(rng)
    case['malformed'] = True
    kind = rng.choice(['foreign-name', 'undeclared-get-type', 'foreign-get-type', 'dup-entry', 'bad-tag',
                       'no-name-class', 'quark-unknown', 'quark-twice', 'abstract-zero', 'same-get-type', 'empty-parents', 'hidden-name'])
    types = [i for i, it in enumerate(case['dump']) if it['tag'] != 'error-quark']
    if kind == 'quark-twice':
        # the same function reported twice with different domains (gdump.c is asked about each function once)
        quarks = [it for it in case['dump'] if it['tag'] == 'error-quark']
        if quarks:
            again = dict(rng.choice(quarks), domain='reported-again')
            case['dump'].insert(rng.randint(0, len(case['dump'])), again)
        case['malformed_kind'] = kind
        return case
    if not types:
        return case
    i = rng.choice(types)
    it = dict(case['dump'][i])
    if kind == 'foreign-name':
        it['name'] = rng.choice(['GObject', 'XyzThing', 'bar', ''])
    elif kind == 'undeclared-get-type':
        it['get_type'] = it['get_type'].replace('_get_type', '_x_get_type')
    elif kind == 'foreign-get-type':
        it['get_type'] = rng.choice(['g_object_get_type', 'xyz_get_type', 'get_type'])
    elif kind == 'dup-entry':
        case['dump'].append(dict(it))
    elif kind == 'bad-tag':
        it['tag'] = rng.choice(['object', 'struct'])
    elif kind == 'no-name-class':
        sp = (case['symp'] or [scanpipe.mods().utils.to_underscores(case['ns']).lower()])[0]
        it['get_type'] = sp.rstrip('_') + '_get_type'
    elif kind == 'quark-unknown':
        case['dump'].append({'tag': 'error-quark', 'function': 'nope_error_quark', 'domain': 'nope'})
    elif kind == 'abstract-zero':
        it['abstract'] = rng.choice(['0', '', 'no'])
    elif kind == 'same-get-type':
        others = [j for j in types if j != i]
        if others:
            it['get_type'] = case['dump'][rng.choice(others)]['get_type']
    elif kind == 'empty-parents':
        it['parents'] = rng.choice(['', ',', 'GObject,', ',GObject'])
    elif kind == 'hidden-name':
        it['name'] = '_' + it['name']
    case['dump'][i] = it
    case['malformed_kind'] = kind
    return case


# ---------------------------------------------------------------------------------------------
# the oracle: written from the property statement, evaluated on the REAL GIR
# ---------------------------------------------------------------------------------------------
def gir_type_repr(el, nsname):
    """('type', name, None) | ('array', name|None, element name) | None for a <type/> without name"""
    def qual(n):
        if n is None:
            return None
        if '.' in n or n in ORACLE_FUND.values() or n in ('none', 'gpointer', 'utf8', 'filename', 'GType', 'guint8'):
            return n
        return '%s.%s' % (nsname, n)
    t = el.find('core:type', _GIRNS)
    if t is not None:
        n = t.get('name')
        if n is None:
            return None
        return ('type', qual(n), None)
    a = el.find('core:array', _GIRNS)
    if a is not None:
        inner = a.find('core:type', _GIRNS)
        return ('array', a.get('name'), qual(inner.get('name')) if inner is not None else None)
    return None


class Oracle(object):
    def __init__(self, case):
        self.case = case
        self.ns = case['ns']
        self.idp = case.get('idp') or [case['ns']]
        m = scanpipe.mods()
        self.symp = case.get('symp') or [m.utils.to_underscores(p).lower() for p in self.idp]
        self.typedefs = {}        # ctype -> 'struct'|'union'|'enum'|'bitfield'|'callback'
        self.structs = {}         # tag -> fields
        self.cbdefs = {}          # typedef name -> params
        self.functions = set()
        for d in case['decls']:
            if d['d'] == 'typedef':
                t = d['type']
                if t['k'] in ('struct', 'union'):
                    self.typedefs[d['name']] = t['k']
                elif t['k'] == 'enum':
                    self.typedefs[d['name']] = 'bitfield' if t.get('bitfield') else 'enum'
                elif t['k'] == 'ptr' and t['to']['k'] == 'func':
                    self.typedefs[d['name']] = 'callback'
                    self.cbdefs[d['name']] = t['to'].get('params', [])
            elif d['d'] in ('struct', 'union'):
                self.structs[d['name']] = d.get('fields', [])
            elif d['d'] == 'function':
                self.functions.add(d['name'])
        self.known = dict(include_known_types(case.get('include', 'GObject')))
        for it in case['dump']:
            if it['tag'] == 'error-quark':
                continue
            own = self.own(it['name'])
            if own is None:
                continue
            if it['tag'] == 'pointer' and self.typedefs.get(it['name']) not in ('struct', 'union'):
                continue
            self.known[it['name']] = '%s.%s' % (self.ns, own)

    def own(self, ctype):
        for p in self.idp:
            if ctype.startswith(p) and len(ctype) > len(p):
                return ctype[len(p):]
        return None

    def short_symbol(self, sym):
        for p in self.symp:
            p = p if p.endswith('_') else p + '_'
            if sym.startswith(p):
                return sym[len(p):]
        return None

    def expected_type(self, g):
        if g in ORACLE_FUND:
            return ('type', ORACLE_FUND[g], None)
        if g in ORACLE_CONT:
            k, n, e = ORACLE_CONT[g]
            return (k, n, e)
        if g in self.known:
            return ('type', self.known[g], None)
        return 'unknown'

    def is_instance_ptr(self, t, ctype):
        return t['k'] == 'ptr' and t['to']['k'] == 'typedef' and t['to']['n'] == ctype

    def expected_vfuncs(self, ctype, struct_ctype):
        """names of the function-pointer members of the class structure whose first parameter is
        the instance (directly, or through a typedef'd function pointer type)"""
        out = []
        for f in self.structs.get('_' + struct_ctype, []):
            t = f['type']
            params = None
            if t['k'] == 'ptr' and t['to']['k'] == 'func':
                params = t['to'].get('params', [])
            elif t['k'] == 'typedef' and t['n'] in self.cbdefs:
                params = self.cbdefs[t['n']]
            if params and self.is_instance_ptr(params[0]['type'], ctype):
                out.append(f['name'])
        return out

    def class_struct(self, it):
        """the structure the statement links a class / interface to"""
        sfx = ['Class'] if it['tag'] in ('class', 'fundamental') else ['Iface', 'Interface']
        for s in sfx:
            if (it['name'] + s) in self.typedefs:
                return (it['name'] + s) if self.typedefs[it['name'] + s] == 'struct' else None
        return None


def find_el(nse, tags, name):
    for tag in tags:
        for el in nse.findall(tag, _GIRNS):
            if el.get('name') == name or el.get(q('glib:name')) == name:
                return el
    return None


def check_oracle(ctx, cnt, case, full):
    """every conjunct of the statement on the GIR the real scanner wrote for `case`"""
    fails = []

    def fail(aspect, what, pending=None):
        fails.append((aspect, what, pending))

    if case.get('malformed'):
        cnt.hit('oracle:outside:malformed')
        return fails
    if full['abort']:
        fail('pipeline-abort', 'the real pipeline aborted on a well-formed pair: %s' % full['abort'])
        return fails
    o = Oracle(case)
    try:
        root = ET.fromstring(full['gir'].encode('utf-8'))
        nse = root.find('core:namespace', _GIRNS)
        assert nse is not None
    except Exception as e:
        fail('gir-unreadable', 'the GIR written for a well-formed pair cannot be read back: %r' % (e, ))
        return fails
    ns = case['ns']

    def qual(n):
        return n if n is None or '.' in n else '%s.%s' % (ns, n)
    get_types = set()
    for it in case['dump']:
        if it['tag'] == 'error-quark':
            continue
        tag = it['tag']
        own = o.own(it['name'])
        paired = o.typedefs.get(it['name']) in ('struct', 'union')
        if tag != 'pointer' or paired:
            get_types.add(it['get_type'])     # (a bare pointer type has no GIR element: carved out, see assumptions)
        # ---- the type appears with its registered name and get-type function
        if tag in ('class', 'fundamental'):
            el = find_el(nse, ['core:class'], own)
        elif tag == 'interface':
            el = find_el(nse, ['core:interface'], own)
        elif tag == 'enum':
            el = find_el(nse, ['core:enumeration'], own)
        elif tag == 'flags':
            el = find_el(nse, ['core:bitfield'], own)
        elif tag == 'boxed':
            el = find_el(nse, ['core:record', 'core:union'] if paired else ['glib:boxed'], own)
        else:
            if not paired:
                cnt.hit('oracle:outside:bare-pointer')
                continue
            el = find_el(nse, ['core:record', 'core:union'], own)
        cnt.hit('oracle:type:' + tag)
        if el is None:
            fail('type-missing', '%s %s reported by the dump has no element in the GIR' % (tag, it['name']))
            continue
        if el.get(q('glib:type-name')) != it['name'] or el.get(q('glib:get-type')) != it['get_type']:
            fail('type-registration', '%s: glib:type-name=%r glib:get-type=%r, reported %r / %r'
                 % (own, el.get(q('glib:type-name')), el.get(q('glib:get-type')), it['name'], it['get_type']))
        if tag == 'boxed' and paired:
            # boxed types attach to the structure or union of the same name
            want = 'union' if o.typedefs[it['name']] == 'union' else 'record'
            if not el.tag.endswith('}' + want) or el.get(q('c:type')) != it['name']:
                fail('boxed-attach', 'boxed %s is attached to <%s c:type=%r>' % (it['name'], el.tag, el.get(q('c:type'))))
            cnt.hit('oracle:boxed:' + want)
        elif tag == 'boxed':
            cnt.hit('oracle:boxed:bare')
        if tag in ('class', 'fundamental'):
            # ---- nearest known parent
            chain = [p for p in (it.get('parents') or '').split(',')] if it.get('parents') else []
            want = None
            for p in chain:
                if p in o.known:
                    want = o.known[p]
                    break
            got = qual(el.get('parent'))
            cnt.hit('oracle:parent:%s' % ('none' if want is None else
                                          'hidden-skipped' if chain and chain[0] not in o.known else 'direct'))
            if got != want:
                fail('parent', 'class %s: parent=%r, the nearest known ancestor in %r is %r' % (own, got, chain, want))
            if (el.get('abstract') == '1') != (it.get('abstract') == '1') or (el.get('final') == '1') != (it.get('final') == '1'):
                fail('abstract-final', 'class %s: abstract=%r final=%r, reported %r / %r'
                     % (own, el.get('abstract'), el.get('final'), it.get('abstract'), it.get('final')))
            if (el.get(q('glib:fundamental')) == '1') != (tag == 'fundamental'):
                fail('fundamental', 'class %s: glib:fundamental=%r for a <%s> entry' % (own, el.get(q('glib:fundamental')), tag))
            # ---- exactly the interfaces reported (those that are known types)
            want_i = sorted(o.known[i] for i in it.get('implements', []) if i in o.known)
            got_i = sorted(qual(x.get('name')) for x in el.findall('core:implements', _GIRNS))
            cnt.hit('oracle:implements:%d' % min(len(want_i), 3))
            if got_i != want_i:
                fail('implements', 'class %s implements %r, reported (known) %r' % (own, got_i, want_i))
            if el.findall('core:prerequisite', _GIRNS):
                fail('implements', 'class %s has <prerequisite> children' % own)
        if tag == 'interface':
            want_i = sorted(o.known[i] for i in it.get('prereqs', []) if i in o.known)
            got_i = sorted(qual(x.get('name')) for x in el.findall('core:prerequisite', _GIRNS))
            cnt.hit('oracle:prerequisites:%d' % min(len(want_i), 3))
            if got_i != want_i:
                fail('prerequisites', 'interface %s requires %r, reported (known) %r' % (own, got_i, want_i))
            if el.findall('core:implements', _GIRNS):
                fail('prerequisites', 'interface %s has <implements> children' % own)
        if tag in ('class', 'interface'):
            # ---- properties
            gp = el.findall('core:property', _GIRNS)
            if sorted(p.get('name') for p in gp) != sorted(p['name'] for p in it.get('props', [])):
                fail('property-list', '%s: properties %r, reported %r' % (own, [p.get('name') for p in gp],
                                                                         [p['name'] for p in it.get('props', [])]))
            for p in it.get('props', []):
                pe = [x for x in gp if x.get('name') == p['name']]
                if len(pe) != 1:
                    continue
                pe = pe[0]
                w = p['flags']
                want_f = [bool((w >> b) & 1) for b in range(4)]
                got_f = [pe.get('readable', '1') != '0', pe.get('writable') == '1', pe.get('construct') == '1',
                         pe.get('construct-only') == '1']
                cnt.hit('oracle:flags:%d' % (w & 15))
                cnt.hit('oracle:flagword:%s' % ('negative' if w < 0 else 'low' if w < 16 else 'high' if w < 2 ** 32 else 'huge'))
                if got_f != want_f:
                    fail('property-flags', '%s:%s flags word %d: readable/writable/construct/construct-only are %r, bits 0-3 are %r'
                         % (own, p['name'], w, got_f, want_f))
                et = o.expected_type(p['type'])
                if et == 'unknown':
                    cnt.hit('oracle:outside:property-type-unknown')
                else:
                    cnt.hit('oracle:ptype:%s' % et[0])
                    if gir_type_repr(pe, ns) != et:
                        fail('property-type', '%s:%s type %r, reported %s = %r' % (own, p['name'], gir_type_repr(pe, ns), p['type'], et))
                if pe.get('default-value') != p.get('default'):
                    fail('property-default', '%s:%s default-value=%r, reported %r' % (own, p['name'], pe.get('default-value'), p.get('default')))
                cnt.hit('oracle:default:%s' % ('none' if p.get('default') is None else 'empty' if p['default'] == '' else 'value'))
            # ---- signals
            gs = el.findall('glib:signal', _GIRNS)
            if sorted(s.get('name') for s in gs) != sorted(s['name'] for s in it.get('signals', [])):
                fail('signal-list', '%s: signals %r, reported %r' % (own, [s.get('name') for s in gs],
                                                                    [s['name'] for s in it.get('signals', [])]))
            for s in it.get('signals', []):
                se = [x for x in gs if x.get('name') == s['name']]
                if len(se) != 1:
                    continue
                se = se[0]
                cnt.hit('oracle:when:%s' % s.get('when'))
                if se.get('when') != s.get('when'):
                    fail('signal-when', '%s::%s when=%r, reported %r' % (own, s['name'], se.get('when'), s.get('when')))
                for a, k in (('no-recurse', 'no_recurse'), ('detailed', 'detailed'), ('action', 'action'), ('no-hooks', 'no_hooks')):
                    if (se.get(a) == '1') != (s.get(k) == '1'):
                        fail('signal-flags', '%s::%s %s=%r, reported %r' % (own, s['name'], a, se.get(a), s.get(k)))
                cnt.hit('oracle:sigflags:%d' % sum(1 for k in ('no_recurse', 'detailed', 'action', 'no_hooks') if s.get(k) == '1'))
                rv = se.find('core:return-value', _GIRNS)
                et = o.expected_type(s['ret'])
                if et != 'unknown' and (rv is None or gir_type_repr(rv, ns) != et):
                    fail('signal-return', '%s::%s returns %r, reported %s' % (own, s['name'], rv is not None and gir_type_repr(rv, ns), s['ret']))
                pars = se.find('core:parameters', _GIRNS)
                pl = pars.findall('core:parameter', _GIRNS) if pars is not None else []
                if len(pl) != len(s.get('params', [])):
                    fail('signal-params', '%s::%s has %d parameters, reported %d' % (own, s['name'], len(pl), len(s['params'])))
                else:
                    for pe, pt in zip(pl, s['params']):
                        et = o.expected_type(pt)
                        if et != 'unknown' and gir_type_repr(pe, ns) != et:
                            fail('signal-params', '%s::%s parameter %s has type %r, reported %s'
                                 % (own, s['name'], pe.get('name'), gir_type_repr(pe, ns), pt))
        if tag in ('class', 'fundamental', 'interface'):
            # ---- class / interface structure linked both ways, virtual methods
            cs = o.class_struct(it)
            got_ts = el.get(q('glib:type-struct'))
            cnt.hit('oracle:type-struct:%s' % ('yes' if cs else 'no'))
            if cs is not None:
                rec = find_el(nse, ['core:record'], o.own(cs))
                if got_ts != o.own(cs) or rec is None or rec.get(q('glib:is-gtype-struct-for')) != own:
                    fail('struct-link', '%s: glib:type-struct=%r, <record %s glib:is-gtype-struct-for=%r>'
                         % (own, got_ts, o.own(cs), rec is not None and rec.get(q('glib:is-gtype-struct-for'))))
                want_v = sorted(o.expected_vfuncs(it['name'], cs))
                got_v = sorted(v.get('name') for v in el.findall('core:virtual-method', _GIRNS))
                cnt.hit('oracle:vfuncs:%d' % min(len(want_v), 3))
                if got_v != want_v:
                    fail('virtual-methods', '%s: virtual methods %r; members of %s whose first parameter is the instance: %r'
                         % (own, got_v, cs, want_v))
                if rec is not None:
                    rf = [f.get('name') for f in rec.findall('core:field', _GIRNS)]
                    if rf != [f['name'] for f in o.structs.get('_' + cs, [])]:
                        fail('struct-fields', '%s: fields %r, declared %r' % (cs, rf, [f['name'] for f in o.structs.get('_' + cs, [])]))
            elif got_ts is not None:
                fail('struct-link', '%s: glib:type-struct=%r although no such structure is declared' % (own, got_ts))
    # ---- links are symmetric over the whole GIR
    for rec in nse.findall('core:record', _GIRNS):
        sf = rec.get(q('glib:is-gtype-struct-for'))
        if sf is not None:
            c = find_el(nse, ['core:class', 'core:interface'], sf)
            if c is None or c.get(q('glib:type-struct')) != rec.get('name'):
                fail('struct-link', 'record %s is-gtype-struct-for %s, whose glib:type-struct is %r'
                     % (rec.get('name'), sf, c is not None and c.get(q('glib:type-struct'))))
    for c in nse.findall('core:class', _GIRNS) + nse.findall('core:interface', _GIRNS):
        ts = c.get(q('glib:type-struct'))
        if ts is not None:
            rec = find_el(nse, ['core:record'], ts)
            if rec is None or rec.get(q('glib:is-gtype-struct-for')) != c.get('name'):
                fail('struct-link', '%s glib:type-struct=%s, whose is-gtype-struct-for is %r'
                     % (c.get('name'), ts, rec is not None and rec.get(q('glib:is-gtype-struct-for'))))
    # ---- get-type functions are gone from every function list
    for el in nse.iter():
        ci = el.get(q('c:identifier'))
        if ci is not None and ci in get_types:
            fail('get-type-left', 'get-type function %s is still listed as <%s>' % (ci, el.tag.split('}')[1]))
    cnt.hit('oracle:get-types:%d' % min(len(get_types), 4))
    # ---- error quarks
    for it in case['dump']:
        if it['tag'] != 'error-quark':
            continue
        if it['function'] not in o.functions:
            cnt.hit('oracle:outside:quark-undeclared')
            continue
        short = o.short_symbol(it['function'])
        if short is None or not short.endswith('_quark'):
            cnt.hit('oracle:outside:quark-name')
            continue
        short = short[:-len('_quark')]
        match = [c for c, k in o.typedefs.items() if k == 'enum' and o.own(c) and snake(o.own(c)) == short]
        if len(match) != 1:
            cnt.hit('oracle:outside:quark-no-enum')
            continue
        en = find_el(nse, ['core:enumeration'], o.own(match[0]))
        got = en.get(q('glib:error-domain')) if en is not None else None
        registered = any(d['tag'] == 'enum' and d['name'] == match[0] for d in case['dump'])
        owner = None
        if not registered:
            best = ''
            for d in case['dump']:
                if d['tag'] == 'error-quark':
                    continue
                sp = o.short_symbol(d['get_type']) or ''
                sp = sp[:-len('_get_type')] if sp.endswith('_get_type') else sp
                if sp and short.startswith(sp + '_') and len(sp) > len(best):
                    best, owner = sp, d['tag']
            for c, k in o.typedefs.items():
                if k in ('struct', 'union') and o.own(c) and not any(d.get('name') == c for d in case['dump']):
                    sp = snake(o.own(c))
                    if short.startswith(sp + '_') and len(sp) > len(best):
                        best, owner = sp, 'record'
        cnt.hit('oracle:quark:%s:%s' % ('registered' if registered else 'plain', owner))
        if got != it['domain']:
            fail('error-domain', 'enumeration %s: glib:error-domain=%r, %s reports %r'
                 % (match[0], got, it['function'], it['domain']))
    return fails


def report(ctx, case, fails):
    for aspect, what, pending in fails:
        if pending in PENDING_FINDINGS:
            ctx.report_failure(pending, PENDING_FINDINGS[pending] + ' — e.g. ' + what, {'kind': 'case', 'case': case})
        else:
            key = 'c12:%s:%s' % (aspect, hashlib.sha256(json.dumps(case, sort_keys=True).encode()).hexdigest()[:16])
            ctx.report_failure(key, what, {'kind': 'case', 'case': case, 'aspect': aspect})


# ---------------------------------------------------------------------------------------------
# unit-level correspondences (guarded: private functions may disappear under a change)
# ---------------------------------------------------------------------------------------------
def unit_flags(ctx, cnt, m, words):
    """decodeFlags vs GDumpParser._introspect_properties on one synthetic <class> element"""
    model = ctx.driver.batch([{'op': 'c12.flags', 'w': w} for w in words])
    impl = None
    try:
        ns = m.ast.Namespace('Foo', '1.0')
        tr = m.transformer.Transformer(ns)
        gdp = m.gdumpparser.GDumpParser(tr)
        node = m.ast.Class('Bar', None, gtype_name='FooBar', get_type='foo_bar_get_type', c_symbol_prefix='bar')
        el = ET.fromstring('<class>%s</class>' % ''.join('<property name="p%d" type="gint" flags="%d"/>' % (i, w)
                                                          for i, w in enumerate(words)))
        gdp._introspect_properties(node, el)
        impl = [[bool(p.readable), bool(p.writable), bool(p.construct), bool(p.construct_only)] for p in node.properties]
        if len(impl) != len(words):
            raise TypeError('%d properties for %d elements' % (len(impl), len(words)))
    except Exception as e:
        ctx.broken.append('correspondence c12.flags: GDumpParser._introspect_properties no longer exists/has changed (%s: %s); '
                          'flag decoding is still compared through the whole pipeline (c12.merge)' % (type(e).__name__, e))
        return
    nd = 0
    for w, a, b in zip(words, impl, model):
        cnt.hit('unit:flags')
        want = [bool((w >> i) & 1) for i in range(4)]
        if a != b:
            nd += 1
            if nd <= 3:
                ctx.broken.append('correspondence c12.flags differs: w=%d impl=%r model=%r' % (w, a, b))
        if a != want:
            ctx.report_failure('c12:flags:%d' % w, '_introspect_properties decodes flags word %d as %r; bits 0-3 are %r' % (w, a, want),
                               {'kind': 'flags', 'w': w})


def unit_types(ctx, cnt, m, rng):
    names = sorted(m.ast.type_names) + CONTAINER_TYPES + ['GObject', 'FooBar', '', 'gint ', 'Gint', 'GStrV', 'GVariant', 'void*']
    names += [''.join(rng.choice('gGintTyYpe*_ ') for _ in range(rng.randint(1, 7))) for _ in range(60)]
    model = ctx.driver.batch([{'op': 'c12.type', 'g': g} for g in names])
    nd = 0
    for g, b in zip(names, model):
        try:
            a = render_type(m, m.ast.Type.create_from_gtype_name(g))
        except Exception as e:
            a = 'raised %s' % type(e).__name__
        cnt.hit('unit:type')
        if a != b:
            nd += 1
            if nd <= 3:
                ctx.broken.append('correspondence c12.type differs: g=%r impl=%r model=%r' % (g, a, b))


def unit_split(ctx, cnt, m, rng, n):
    """splitUscoredByType vs MainTransformer._split_uscored_by_type"""
    words = ['bar', 'baz', 'error', 'text', 'buffer', 'x', '', 'io', 'new', 'quark']
    reqs = []
    for _ in range(n):
        keys = ['_'.join(rng.choice(words) for _ in range(rng.randint(1, 3))) for _ in range(rng.randint(0, 5))]
        s = '_'.join(rng.choice(words) for _ in range(rng.randint(1, 5)))
        if rng.random() < 0.5 and keys:
            s = rng.choice(keys) + rng.choice(['', '_', '_quark', 'x', '_get_it'])
        reqs.append({'op': 'c12.split', 'reg': [{'key': k, 'name': 'N%d' % i} for i, k in enumerate(keys)], 's': s})
    model = ctx.driver.batch(reqs)
    try:
        ns = m.ast.Namespace('Foo', '1.0')
        mt = m.maintransformer.MainTransformer(m.transformer.Transformer(ns), {})
        nd = 0
        for r, b in zip(reqs, model):
            mt._uscore_type_names = {}
            for e in r['reg']:
                mt._uscore_type_names[e['key']] = e['name']
            a = mt._split_uscored_by_type(r['s'])
            a = list(a) if a is not None else None
            cnt.hit('unit:split:%s' % ('some' if a else 'none'))
            if a != b:
                nd += 1
                if nd <= 3:
                    ctx.broken.append('correspondence c12.split differs: %r impl=%r model=%r' % (r, a, b))
            # statement-level: the LONGEST registered type name that is s or is followed by '_' in s
            cands = [k for k in mt._uscore_type_names if r['s'] == k or r['s'].startswith(k + '_')]
            want = max(cands, key=len) if cands else None
            if (a is None) != (want is None) or (a is not None and mt._uscore_type_names[want] != a[0]):
                ctx.report_failure('c12:split:' + json.dumps(r, sort_keys=True),
                                   '_split_uscored_by_type(%r) over %r gives %r; longest registered prefix is %r'
                                   % (r['s'], sorted(mt._uscore_type_names), a, want), {'kind': 'split', 'req': r})
    except Exception as e:
        ctx.broken.append('correspondence c12.split: MainTransformer._split_uscored_by_type no longer exists/has changed '
                          '(%s: %s); error-quark pairing is still compared through the whole pipeline' % (type(e).__name__, e))


# ---------------------------------------------------------------------------------------------
def compare_case(ctx, cnt, m, case, pre, full, res, state):
    """model vs real code on one pair"""
    def differ(what):
        state['ndiff'] += 1
        state['differing'].append(case)
        if state['ndiff'] <= 3:
            ctx.broken.append('correspondence c12.merge differs: %s; case=%s' % (what, json.dumps(case, sort_keys=True)[:1500]))
    if full['abort'] or 'error' in res:
        cnt.hit('merge:abort:%s' % (res.get('error', 'real-only')[:24]))
        if res.get('error', '').startswith('outside'):
            cnt.hit('merge:outside-model')
            return
        if bool(full['abort']) != ('error' in res):
            differ('abort impl=%r model=%r' % (full['abort'], res.get('error')))
        return
    rn = real_nodes(m, full['namespace'])
    mn = model_nodes(res)
    if full['after_parse'] != res['after_parse']:
        differ('namespace after GDumpParser.parse impl=%r model=%r' % (full['after_parse'], res['after_parse']))
    elif [a['name'] for a in rn] != [b['name'] for b in mn]:
        differ('node order impl=%r model=%r' % ([a['name'] for a in rn], [b['name'] for b in mn]))
    else:
        for a, b in zip(rn, mn):
            for k in a:
                if a[k] != b.get(k):
                    differ('%s.%s impl=%r model=%r' % (a['name'], k, a[k], b.get(k)))
                    return
    # the error-quark functions _pair_quarks_with_enums walks, in its order (Namespace.symbols), and which of
    # them a class took as static method (Namespace.float): both are public attributes of ast.Namespace
    try:
        rns = full['namespace']
        EQ = m.ast.ErrorQuarkFunction
        r_order = [f.symbol for f in rns.symbols.values() if isinstance(f, EQ)]
        r_float = [f.symbol for f in rns.symbols.values() if isinstance(f, EQ) and f not in list(rns.names.values())]
    except Exception as e:
        r_order = None
        if not state.get('nosymbols'):
            state['nosymbols'] = True
            ctx.broken.append('correspondence c12.merge: ast.Namespace.symbols / ErrorQuarkFunction no longer exists/has changed '
                              '(%s: %s); the error domains are still compared on the enumerations' % (type(e).__name__, e))
    if r_order is not None:
        if r_order != res.get('quark_order') or r_float != res.get('floated'):
            differ('error-quark functions in Namespace.symbols order impl=%r (floated %r) model=%r (floated %r)'
                   % (r_order, r_float, res.get('quark_order'), res.get('floated')))
        else:
            cnt.hit('merge:quarks:%d:floated:%d' % (min(len(r_order), 3), min(len(r_float), 2)))
    # the order the writer keeps: properties and signals sorted by name (model: mergeSort)
    try:
        root = ET.fromstring(full['gir'].encode('utf-8'))
        nse = root.find('core:namespace', _GIRNS)
        assert nse is not None
    except Exception as e:
        differ('GIR cannot be read back: %r' % (e, ))
        return
    for n in res['nodes']:
        if n['kind'] in ('cls', 'iface'):
            el = find_el(nse, ['core:class', 'core:interface'], n['name'])
            if el is None:
                differ('%s missing from the GIR' % n['name'])
                return
            gp = [p.get('name') for p in el.findall('core:property', _GIRNS)]
            gs = [p.get('name') for p in el.findall('glib:signal', _GIRNS)]
            if gp != n['props_sorted'] or gs != n['sigs_sorted']:
                differ('%s written order impl=%r/%r model=%r/%r' % (n['name'], gp, gs, n['props_sorted'], n['sigs_sorted']))
                return
            gd = sorted((p.get('name'), p.get('default-value')) for p in el.findall('core:property', _GIRNS))
            md = sorted((p['name'], p['default_written']) for p in n['props'])
            if gd != md:
                differ('%s written default values impl=%r model=%r' % (n['name'], gd, md))
                return
            cnt.hit('merge:kind:' + n['kind'])
            cnt.hit('merge:parent:' + ('none' if n['parent'] is None else 'own' if n['parent'].startswith('g:%s.' % case['ns']) else 'include'))
            cnt.hit('merge:vfuncs:%d' % min(len(n['vfuncs']), 3))
        elif n['kind'] in ('record', 'union') and n['gtype']:
            cnt.hit('merge:boxed-paired:' + n['kind'])
        elif n['kind'] == 'boxed':
            cnt.hit('merge:boxed-bare')
        elif n['kind'] == 'enum' and n['error_domain']:
            cnt.hit('merge:error-domain')


def one_edit_mutants(case, rng):
    out = []
    for i in range(len(case['dump'])):
        c = json.loads(json.dumps(case))
        del c['dump'][i]
        out.append(c)
        it = case['dump'][i]
        for k in ('props', 'signals', 'implements', 'prereqs'):
            for j in range(len(it.get(k, []))):
                c = json.loads(json.dumps(case))
                del c['dump'][i][k][j]
                out.append(c)
        if it.get('parents'):
            ps = it['parents'].split(',')
            for j in range(len(ps)):
                c = json.loads(json.dumps(case))
                c['dump'][i]['parents'] = ','.join(ps[:j] + ps[j + 1:])
                out.append(c)
    rng.shuffle(out)
    return out[:60]


def load_corpus():
    cases = []
    cpath = os.path.join(os.path.dirname(HERE), 'corpus', 'C12')
    if os.path.isdir(cpath):
        for fn in sorted(os.listdir(cpath)):
            if fn.endswith('.json'):
                with open(os.path.join(cpath, fn)) as f:
                    cases.extend(json.load(f))
    return cases


def process(ctx, cnt, m, girdir, cases, state, oracle=True):
    reals = []
    reqs = []
    for c in cases:
        pre, full = run_real(m, c, girdir)
        reals.append((pre, full))
        if pre is not None:
            try:
                reqs.append(model_input(m, c, pre))
            except Exception as e:
                ctx.broken.append('correspondence c12.merge: cannot read the namespace of the real transformer (%s: %s)'
                                  % (type(e).__name__, e))
                reqs.append(None)
        else:
            reqs.append(None)
    results = ctx.driver.batch([r for r in reqs if r is not None])
    it = iter(results)
    for c, (pre, full), rq in zip(cases, reals, reqs):
        res = next(it) if rq is not None else None
        cnt.case(['case', c['ns'], c['decls'], c['dump']], nontrivial=bool(c['dump']))
        if res is not None:
            compare_case(ctx, cnt, m, c, pre, full, res, state)
        if oracle:
            fails = check_oracle(ctx, cnt, c, full)
            report(ctx, c, fails)
            cnt.hit('oracle:%s' % ('outside' if c.get('malformed') else 'fail' if fails else 'ok'))
    return reals


def run(ctx):
    for k, what in PENDING_FINDINGS.items():
        if not any(e.get('key') == k for e in ctx.known):
            ctx.known.append({'property': 'C12', 'status': 'known', 'key': k, 'what': what, 'pending': True})
    cnt = Counter()
    ctx.prove(['gen_dump'], ['GIVerif.Props.C12'], 'GIVerif.Props.C12')
    ctx.log('proofs built and audited')
    m = scanpipe.mods()
    rng = ctx.rng
    girdir = write_includes(ctx.scratch)
    state = {'ndiff': 0, 'differing': []}

    # ---- unit level
    words = list(range(16)) + [rng.getrandbits(rng.choice([8, 16, 31, 32, 33, 64, 100])) for _ in range(ctx.n(400, 20000))]
    words += [-w - 1 for w in words[:ctx.n(200, 5000)]] + [(w | (1 << 31)) - (1 << 32) for w in range(16)]
    unit_flags(ctx, cnt, m, words)
    unit_types(ctx, cnt, m, rng)
    unit_split(ctx, cnt, m, rng, ctx.n(600, 20000))

    ctx.log('unit level done')
    # ---- corpus first
    corpus = load_corpus()
    process(ctx, cnt, m, girdir, corpus, state)
    ctx.log('corpus done (%d cases)' % len(corpus))

    # ---- structured stream: every low flag combination is dealt out before random ones
    n = ctx.n(300, 10000)
    done = 0
    samples = []
    while done < n:
        chunk = []
        flagpool = list(range(16)) * 2
        rng.shuffle(flagpool)
        for _ in range(min(100, n - done)):
            if rng.random() < 0.12:
                chunk.append(gen_malformed(rng))
            else:
                chunk.append(gen_case(rng, flagpool))
        process(ctx, cnt, m, girdir, chunk, state)
        done += len(chunk)
        samples = [{'ns': chunk[-1]['ns'], 'include': chunk[-1]['include'], 'dump': chunk[-1]['dump'][:2],
                    'n_decls': len(chunk[-1]['decls'])}]
        if ctx.tier == 'thorough' and (ctx.violations or (state['ndiff'] > 3)):
            break

    ctx.log('%d generated pairs done' % done)
    # ---- failing-input search around disagreements
    for c in state['differing'][:4]:
        muts = one_edit_mutants(c, rng)
        sub = {'ndiff': 3, 'differing': []}      # do not add more 'broken' lines
        process(ctx, cnt, m, girdir, muts, sub)
        cnt.hit('search:mutant', len(muts))

    ctx.coverage.update({
        'evaluations': len(words) + cnt.counts.get('unit:type', 0) + cnt.counts.get('unit:split:some', 0)
        + cnt.counts.get('unit:split:none', 0) + len(corpus) + done + cnt.counts.get('search:mutant', 0),
        'distinct_nontrivial': cnt.n_distinct(),
        'rule': 'seeded generator of (C declarations, runtime dump) pairs over 5 namespace configurations (one with two '
                'identifier/symbol prefixes, one whose prefix starts with the G of the includes) against stand-in GLib / GObject / Gio '
                'include GIRs written to the scratch dir: classes (instance struct present/absent; class struct record / union / '
                'typedef-only / absent; function-pointer members whose first parameter is the instance, a const instance, another '
                'class, a non-pointer, nothing; typedef-ed function pointer members), interfaces (Iface / Interface / both / none), '
                'boxed and pointer types matching a record / an opaque record / a union / nothing, registered and plain enums and flags, '
                'fundamental types, error-quark functions next to registered / plain enums with and without a class, boxed or interface of '
                'the same prefix, several of them per namespace; parent chains with 0-3 hidden intermediates over own, GObject and Gio ancestors or with no known '
                'ancestor at all; implements / prerequisite lists mixing known and hidden names; all 16 low flag combinations dealt out '
                'per 100 cases plus random 31/64-bit and negative (%d-printed G_PARAM_DEPRECATED) flag words; property types over GLib '
                'fundamentals, containers, own and include types, unknown types, with defaults (including the empty string); signals '
                'with every `when` (and none) and every subset of the four flags; shuffled dump and declaration order; 12% malformed pairs '
                '(foreign / hidden names, undeclared or foreign get-type symbols, duplicate entries, an error-quark function reported twice, unknown tags, shared get-type, '
                'odd parents strings). non-trivial = dump not empty; distinct by content hash. Every pair: real pipeline vs model '
                '(live objects after MainTransformer, namespace after GDumpParser.parse, the error-quark functions in Namespace.symbols order and which of them a class owns, written order in the GIR), and the '
                'statement oracle on the real GIR.',
        'samples': samples,
        'distribution': cnt.counts,
        'corpus_cases': len(corpus),
        'pending_findings': sorted(PENDING_FINDINGS),
        'exhaustive': False,
    })
    ctx.assumptions.extend([
        'girepository/gdump.c and a real GObject library are NOT covered (no GObject headers here): the dump XML is a modelled '
        'input, rendered in the format gdump.c writes (attribute names, %d-printed flags, when/flag attributes only when set, '
        'parents nearest-first, GObject prerequisite omitted)',
        'the C lexer/parser is not covered: declarations enter as the symbol stream scannerlexer/scannerparser would deliver',
        'to_underscores_noprefix (C04) is an input of the model: every node carries its underscored name computed by the real function',
        'the model starts at the namespace Transformer.parse produced (names, kinds, ctypes, fields read from the live objects)',
        'own-namespace branches of strip_identifier / split_csymbol only (symbols are lower-case; no identifier/symbol filter commands); '
        'a dump naming a foreign or unprefixed type or get-type symbol aborts in both model and real code and is not judged',
        'a G_TYPE_POINTER type with no structure of the same name has no GIR representation (_pair_pointer_type skips it "for backward '
        'compatibility"); the oracle does not judge it nor its get-type function',
        'interfaces / prerequisites / property and signal types naming a type unknown to the namespace and its includes cannot be '
        'referenced from a GIR: the statement is read as "exactly those reported that are known" (DESIGN C12: minus unresolved ones)',
        'enum / flags members are C13\'s; property accessors (getter/setter pairing) are not part of the statement and not modelled',
        'GObject / GLib namespaces themselves (ParamSpec*, Variant, InitiallyUnownedClass special cases, g_io_error) are outside the model',
    ])


def replay(ctx, rep):
    for k, what in PENDING_FINDINGS.items():
        ctx.known.append({'property': 'C12', 'status': 'known', 'key': k, 'what': what})
    m = scanpipe.mods()
    r = rep['replay']
    cnt = Counter()
    if r['kind'] == 'case':
        girdir = write_includes(ctx.scratch)
        pre, full = run_real(m, r['case'], girdir)
        fails = check_oracle(ctx, cnt, r['case'], full)
        for aspect, what, pending in fails:
            print('FAIL %s%s: %s' % (aspect, ' [pending finding %s]' % pending if pending else '', what))
        if not fails:
            print('the statement oracle accepts the GIR of this pair')
        return 1 if any(p is None for _, _, p in fails) else 0
    if r['kind'] == 'flags':
        w = r['w']
        ns = m.ast.Namespace('Foo', '1.0')
        try:
            gdp = m.gdumpparser.GDumpParser(m.transformer.Transformer(ns))
            node = m.ast.Class('Bar', None, gtype_name='FooBar', get_type='foo_bar_get_type', c_symbol_prefix='bar')
            gdp._introspect_properties(node, ET.fromstring('<class><property name="p" type="gint" flags="%d"/></class>' % w))
            p = node.properties[0]
            got = [bool(p.readable), bool(p.writable), bool(p.construct), bool(p.construct_only)]
        except Exception as e:
            print('GDumpParser._introspect_properties no longer exists/has changed: %r' % (e, ))
            return 1
        want = [bool((w >> i) & 1) for i in range(4)]
        print('impl=%r required=%r' % (got, want))
        return 0 if got == want else 1
    if r['kind'] == 'split':
        ns = m.ast.Namespace('Foo', '1.0')
        try:
            mt = m.maintransformer.MainTransformer(m.transformer.Transformer(ns), {})
            mt._uscore_type_names = {e['key']: e['name'] for e in r['req']['reg']}
            print('impl=%r' % (mt._split_uscored_by_type(r['req']['s']), ))
        except Exception as e:
            print('MainTransformer._split_uscored_by_type no longer exists/has changed: %r' % (e, ))
        return 1
    return 2
