#!/usr/bin/env python3
"""Writes MANIFEST.json from the table below (kept in one place so that it is always valid)."""
import json
import os

VERIF = os.path.dirname(os.path.dirname(os.path.abspath(__file__)))

NOTE_COMMON = ('Trusted base: Lean 4.33.0 kernel; axioms propext/Classical.choice/Quot.sound only (audited each run); '
               'translators that regenerate lean/GIVerif/Gen/*.lean from /repo; the correspondence harness (sampling) '
               'that ties the hand-written executable model to the real code; the Lean compiler for running the model. ')

CHECKS = {
    'C19': dict(
        text='Theorems (all names, all words, all listings): exact characterisation of the ldd pattern match by base name '
             '(lib<name> + one non-library-name character, no directory component, liblib rejected, metacharacters literal); '
             'resolver: success implies one library per distinct request (never a shorter list), each the FIRST matching '
             'listed word, reported by base name; under the property\'s own carve-out the error names exactly the '
             'unresolved requests. The regex shape and character classes are re-read from the source each run; matcher, '
             'resolver and dlname extraction are compared with the real code on generated listings, and a statement-level '
             'oracle runs on the real code as failing-input search.',
        note='Modelled not verified: CPython re/str semantics (re-expressed, compared each run), os.path.isfile (parameter), '
             'running ldd/otool, macOS/Windows branches.',
        technique='Lean 4 theorems over an executable model + regenerated regex tables + differential correspondence',
        design='Part B C19'),
}

PENDING = {
}

ALL = ['C%02d' % i for i in range(1, 21)]


def main():
    checks = []
    for pid in ALL:
        if pid not in CHECKS:
            continue
        c = CHECKS[pid]
        checks.append({
            'property_id': pid,
            'quick_cmd': './check %s quick' % pid,
            'thorough_cmd': './check %s thorough' % pid,
            'evidence_file': 'evidence/%s.json' % pid,
            'replay_cmd_template': './check %s --replay {path}' % pid,
            'engine': 'giverif',
            'level_claimed': {'category': 'proof', 'text': c['text'], 'design_ref': c['design']},
            'level_note': NOTE_COMMON + c['note'],
            'technique': c['technique'],
        })
    na = []
    for pid in ALL:
        if pid not in CHECKS:
            na.append({'property_id': pid,
                       'reason': PENDING.get(pid, 'not claimed yet: model and proof for this property are still being '
                                             'built (see DESIGN.md Part B for the plan); no check is registered')})
    man = {
        'version': 1,
        'setup_cmd': './setup.sh',
        'hooks': {
            'guard': 'GOBJECT_INTROSPECTION_VERIF',
            'enable': 'no source hooks: Python internals are reached by in-process patching from the harness, '
                      'C internals by driver programs compiled against /repo headers',
            'baseline_off_cmd': 'cd /repo && /venv/bin/python -m pytest -ra -q -p no:cacheprovider --timeout=900 '
                                '--continue-on-collection-errors',
            'source_commits': [],
            'add_only': True,
        },
        'engines': [{'name': 'giverif', 'path': 'check',
                     'serves_properties': sorted(CHECKS),
                     'kind_free_text': 'Lean 4 proofs over executable models (lean/), translators regenerating tables '
                                       'from /repo (translators/), differential correspondence + statement oracles '
                                       '(harness/)'}],
        'checks': checks,
        'not_applicable': na,
        'notes': 'See DESIGN.md. known_findings.json lists genuine defects found (fixed or recorded).',
    }
    with open(os.path.join(VERIF, 'MANIFEST.json'), 'w') as f:
        json.dump(man, f, indent=1)
    print('MANIFEST.json: %d checks, %d not_applicable' % (len(checks), len(na)))


if __name__ == '__main__':
    main()
