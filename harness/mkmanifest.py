#!/usr/bin/env python3
"""Writes MANIFEST.json from the table below (kept in one place so that it is always valid)."""
import json
import os

VERIF = os.path.dirname(os.path.dirname(os.path.abspath(__file__)))

NOTE_COMMON = ('Trusted base: Lean 4.33.0 kernel; axioms propext/Classical.choice/Quot.sound only (audited each run); '
               'translators that regenerate lean/GIVerif/Gen/*.lean from /repo; the correspondence harness (sampling) '
               'that ties the hand-written executable model to the real code; the Lean compiler for running the model. ')

TECH = 'Lean 4 theorems over an executable model + tables regenerated from /repo + differential correspondence with the real code'

CHECKS = {
    'C01': dict(
        text="Theorems (all nodes, all annotation sets, over the model of _apply_annotations_param_ret_common / _apply_transfer_annotation / array / element-type / callback / closure handling, pass 3 and GIRWriter._write_parameter/_write_return_type/_write_type): every annotation valid at its site (validity phrased through the transformer's own pointer test) yields the documented attribute value, (not optional) and (not nullable) overriding as documented; every invalid one — unknown transfer and scope words included — emits a warning and leaves that attribute as without it (nullability, transfer, lift to container, scope, callback annotations, return values); after the pass-3 reference step every closure/destroy name left has an index, so the writer cannot raise; written closure/destroy/length indices name the referenced parameter; (array length=p) makes p follow the array's direction and nothing else; frame (_partial: parts without (destroy)). Four counterexample theorems pin where the unchanged code still departs from the statement (4 known findings: the pointer test on by-value non-basic types and pointers to basic aliases, and pass-3 autodetection overriding explicit callback annotations). Validated only: type-string resolution against namespaces; the real pipeline end to end, incl. (type) overrides.",
        note='Modelled not verified: the C lexer (inputs start at the symbol stream), namespace lookup of (type)/(element-type) strings (parameter of the model).',
        design='Part B C01'),
    'C02': dict(
        text='Theorems: the generated ast.type_names table maps the spellings named in the statement as stated and only to GIR types '
             '(decide over the whole regenerated table); _canonicalize_ctype commutes with trailing stars and is idempotent (all strings); '
             'the written c:type is the documented spelling for every type tree (base with const/volatile, one star per pointer level, '
             'parameter arrays decay once) and the lookup ctype has exactly ptrDepth stars; transfer defaults equal the documented rule '
             'for every (position, direction, caller-allocates, type class, const); callback/user_data/destroy/async grouping and the '
             'trailing GError** rule for every parameter list; nullable gpointer rule. Source shapes of all modelled functions are pinned '
             'by decide theorems over skeletons re-extracted each run. Validated only: the real pipeline output for generated declarations.',
        note='Modelled not verified: the C lexer; lookup_typenode results are a parameter (TyInfo).',
        design='Part B C02'),
    'C03': dict(
        text="Theorems (34, all full statements): frame — the annotation result of a node depends only on the blocks stored under its own finite key set (name, Class:prop, Class::sig, Struct.field, invoker; a vfunc with its own block drops the invoker's keys), so a block can never affect an unrelated element (all block maps, all nodes, both virtual-method phases); key sets of distinct targets are disjoint; one mapping theorem per annotation/tag (skip, Since, Deprecated, Stability, attributes, constructor/method roles, set/get-property, finish/sync/async, emitter, ref/unref/copy/free/get-/set-value-func, value); rename-to: shadows/shadowed-by symmetric on the AST and the written pair consistent for any number of competing annotations, chains in either order and self-rename included; an inferred getter is the one the property names; a vfunc without its own block inherits exactly its invoker's, one with its own block only takes the invoker's name, (virtual) counts only on methods. Source statements of the rename, accessor and virtual functions and the writer guards are pinned per run. Validated only: whole-namespace scans with near-colliding names (presence on target, absence elsewhere by rescan), emitter validation.",
        note='Modelled not verified: the C lexer; the comment parser is C10/C11\'s subject (blocks are inputs here); IntrospectablePass emitter validation (judged on the real GIR only).',
        design='Part B C03'),
    'C04': dict(
        text='Theorems (all strings / all namespaces): prefix stripping (current namespace wins over includes, first matching prefix, `_` separator, leading underscore excluded, foreign prefix left out); every emitted function/constant carries a public name the current namespace claims (pipeline-wide invariant); _split_uscored_by_type returns the LONGEST `_`-boundary prefix registered and the exact remainder; the symbol prefix of a registered type is its get-type symbol minus exactly the final _get_type/_get_gtype; _is_method soundness and ownership (incl. C04_method_not_of_foreign_type: a first parameter of a type of an included namespace never makes a method); constructor soundness in full (origin carries the prefix, return type is the origin or an ancestor); static functions hang only on the longest type prefix; constructor naming incl. annotated constructors; method naming `_partial` + witness for the one remaining known finding (str.find leftmost occurrence); uniqueness invariant of the namespace container under append/float/remove; CamelCase to underscores incl. the acronym rule. Regex shapes and the dump-parser split are pinned per run. Validated only: re.sub semantics, the whole pairing on generated declaration sets x prefix configurations x registered types.',
        note='Modelled not verified: the C lexer, CPython re/str (re-expressed, compared each run).',
        design='Part B C04'),
    'C05': dict(
        text='Theorems over the model of IntrospectablePass.validate (all namespaces): the propagation of non-introspectability is a terminating fixed point; after validate every alias, callable (top-level or nested), typed field, property and field holding an anonymous callback that is left introspectable refers only to leaves that are foreign, an allowed fundamental or a still-introspectable non-skipped node — never unresolved, never varargs (C05_closure, C05_fields_props); no unresolved/varargs/va_list/long long/long double at any depth, skipped values included (C05_exotic, full); transfer, scope and element type stated for values not marked (skip) (C05_bindable); setter/getter and set-/get-property stay in agreement through the property analysis; written closure/destroy/length indices are in range and name the requested parameter or the writer raises. Witness theorems and examples keep the inputs of the repaired defects as regressions. The executable predicate girWellFormed (Lean) is evaluated on every GIR the real pipeline emits in the run (incl. the bare-structure return family and included namespaces with hidden definitions) and on every shipped/expected GIR: that is the failing-input search. One known finding (validated clause, outside the pass model): (rename-to) from a member of a type onto a static function that _pair_static_method copied into that type pairs shadows/shadowed-by across containers (corpus witness rename-to-static-function-of-a-record, reported on every run).',
        note='Modelled not verified: earlier passes establish the AST invariants assumed (agreement on entry is _pair_property_accessors\' job, judged on the real output only); the C lexer. Scope decision: values marked (skip) are exempt from the three "states ..." clauses in the oracle (bindings ignore them; the pass returns early on them by design), counted as oracle:skipex.',
        design='Part B C05'),
    'C06': dict(
        text='Theorems: every blob layout measured from gitypelib-internal.h by a compiled probe each run is well formed (no overlap, '
             'bit-fields inside their unit), has the documented size and the size girmodule.c writes into the header (decide +kernel over '
             'generated layouts); a generic struct codec round-trips for every well-formed layout and all field values that fit, encoding '
             'one field leaves the others unchanged; align4 is the least multiple of 4 not below n and all section offsets computed by '
             'the size model are aligned and inside the file; the complete field-by-field decoder is total and never reads out of '
             'bounds on any byte string. The GIR->blob SEMANTIC mapping of girparser.c/girnode.c is not re-modelled: it is decided by '
             'translation validation — the Lean decoder decodes the bytes the real g-ir-compiler wrote and the result is compared with '
             'the Api derived from the GIR by the schema rules (validated, not proved); plus g_typelib_validate and compile-twice identity.',
        note='Modelled not verified: GMarkup, the GIR->node->blob mapping (validated by decode-and-compare), the hand-written GLib declarations (glibshim).',
        design='Part B C06'),
    'C07': dict(
        text="Theorems for ALL well-formed values of the modelled fragment (types, parameters, return values, everything written through _write_callable incl. signals, docs, attributes, positions, version/deprecated/stability, and record/union member lists with callbacks and anonymous members): vocabulary — every attribute/child/text the writer can emit is read by the reader (C07_vocab, full; tables re-extracted from girwriter.py/girparser.py each run); parse(write m) = canon m and = m for canonical m (type, param, callable, members); write(parse(write m)) = write m (C07_fixpoint); the reader's per-document header state is reset by parse_tree, so the result of a parse depends only on its document whatever was read before (C07_history_independent, pinned to the statements of __init__/parse_tree). No hypothesis excludes an input the scanner can produce. Whole-file byte identity for every node kind is VALIDATED on the real GIRWriter/GIRParser (w1=w2=w3, an AST-equality walk, and histories of several parses on one reader) on generated namespaces and every shipped/expected GIR.",
        note='Modelled not verified: ElementTree, int() on non-ASCII, the text level (C20).',
        design='Part B C07'),
    'C08': dict(
        text='Theorems (all member lists; all full statements): the model of GI_ALIGN is the least multiple of the alignment not below n; the struct and union loops of giroffsets.c compute exactly the declarative System V rule (which has a unique solution); results are sane (aligned, ordered, non-overlapping, inside the size) and closed under nesting/arrays; classes, interfaces and boxed are laid out like records; an inline callback member is pointer-sized in every container; an unknown-size member (incl. a flexible array member) forces size=alignment=-1 and the unknown marker from that member on, also as stored; a stored field offset is exact below 65535 and the unknown marker otherwise — never a wrong value (C08_stored); enum storage represents every member for all ranges inside the ValueBlob range (C08_enum). Leaf sizes come from a probe of gi_type_tag_get_ffi_type compiled each run; parser decisions (is_pointer of array fields, inline callbacks) are pinned. NOT provable, validated each run against gcc: that the declarative rule is what the C compiler does here. One known finding (a non-introspectable by-value field is sized as a pointer).',
        note='Modelled not verified: gcc as the ABI oracle; the hand-written GLib declarations; libffi type table (measured).',
        design='Part B C08'),
    'C09': dict(
        text="Theorems (19, all full statements): for all section counts, sizes and embedded-callback positions and all in-range indices the accessor offset arithmetic of giobjectinfo.c/giinterfaceinfo.c/gistructinfo.c/giunioninfo.c/gienuminfo.c/gicallableinfo.c equals the sequential-layout position of the i-th member of that section (blob sizes from the table measured each run); attribute find-first and iteration return exactly the node's attributes for every choice bsearch may make on the sorted table (glibc bsearch is one); simple/complex type word decoding; the deprecated accessor reads the stored flag for every entry kind and the copy/free-function accessors read the stored string for records and boxed (decide over the switch of g_base_info_is_deprecated and the GI_IS_STRUCT_INFO macro regenerated from the source each run). Validated only: a C walker over the public API and g-ir-generate's XML, both compared with the source GIR. No known finding.",
        note='Modelled not verified: girwriter.c (typelib->GIR text), memory safety, the hand-written GLib declarations.',
        design='Part B C09'),
    'C10': dict(
        text='Model: parse_comment_block statement by statement (line-ending normalisation, start/end tokens, the identifier chain, '
             'parameters, tags incl. every deprecated form, continuation lines, clean-up, every diagnostic) and the comment writer, '
             'each partial Python operation an explicit Except step. Theorems: the annotation tokenizer reads back exactly what the '
             'serializer emits for every well-formed annotation list, empty option values included (C10_ann_roundtrip, full); an '
             'annotation field continued over k lines parses as the single-line field; LF, CR and CRLF give the same lines and the '
             'same parse; any white space before the asterisk is stripped with the right column; the line matchers are '
             'shift-equivariant under indentation; for every layout and every block of the stated grammar fragment '
             '(Spec/BlockGrammar.lean) parseBlock(render L b) is exactly the block with no diagnostic, all layouts parse alike, and '
             'parse-write-parse returns the same block (`_partial` = the fragment: symbol identifiers, parameters with one-line '
             'descriptions, one paragraph, Returns:). Outside the fragment the block model is compared with the real parser and '
             'writer on every generated and corpus text (0 disagreements) and judged by statement oracles. Pattern shapes, the '
             'vocabulary and the writer regex are pinned from the source each run.',
        note='Modelled not verified: CPython re (each pattern re-expressed as a direct scanner and compared with re on every run), validate() (outside the block model).',
        design='Part B C10'),
    'C11': dict(
        text='Theorems for ALL strings: parseBlock is total — no partial operation of the tokenizer or of the block state machine is '
             'reachable with a bad argument (explicit Except steps; C11_block_total, C11_line_total, C11_ann_total, C11_validate_len); a '
             'failing _parse_annotations leaves the annotations exactly as before and is always reported; whatever is logged while a '
             'line is read names that line, and with the opening token alone on its line every diagnostic of the block model names a '
             'line of the comment (`_partial`: validate() is outside the model — known finding on positions); caret positions lie '
             'inside the quoted field; the message log counts every diagnostic independently of display suppression and warn_fatal '
             'fails exactly when something was counted. Quoted line and caret at block level, survival of the other blocks and '
             'scanner_main are compared with the real parser on arbitrary strings and judged by statement oracles.',
        note='Modelled not verified: CPython re / str.lower table.',
        design='Part B C11'),
    'C12': dict(
        text='Theorems: property flags equal bits 0..3 of the reported word for every integer; the resulting parent is the first element '
             'of the reported chain that is known (hidden intermediates skipped, default GObject.Object); interfaces/prerequisites/'
             'properties/signals are exactly those reported, in order; type-struct and is-gtype-struct-for point at each other; boxed '
             'attaches to the same-named record/union; function-pointer members whose first parameter is the instance become vfuncs and '
             'no others; get-type functions are removed; every error-quark function — kept at top level or moved into a class as a static '
             'method — gives its domain to the enumeration found by longest-prefix lookup (hypothesis: no two quark functions naming the same '
             'enumeration report different domains); a reported default value is written verbatim, the empty string included. '
             'Validated only: generated (declarations, dump XML) pairs through the real GDumpParser/MainTransformer.',
        note='Modelled not verified: gdump.c and a real GObject library (inputs start at the dump XML); the C lexer.',
        design='Part B C12'),
    'C13': dict(
        text='Theorems: for >=2 members none a word-prefix of another the common prefix is the shared leading whole words and member names are lower(ident minus it), independent of member order (all permutations); with no shared word or <2 members names are lower(ident minus namespace prefix) and an enum that cannot be named is refused, never given garbage names; members keep declaration order, c:identifier and exact decimal value; constants: declared c:type kept, strings verbatim, booleans true/false, signed as written, unsigned of width w in [0,2^w) congruent mod 2^w through typedef chains of ANY length (C13_const_chain; resolve_aliases mirrored with its seen-guard) — `_partial` only for the platform-width types gulong/gsize/guintptr (witness theorem, the one known finding).',
        note='Modelled not verified: double constants (validated only); the C lexer.',
        design='Part B C13'),
    'C14': dict(
        text='Theorems with the perfect hash as an arbitrary function h: soundness — whatever h and the table contain, a lookup by name '
             'answers only an entry with exactly that name, so an absent name is never answered with another entry; completeness under '
             'injectivity/range of h on the (distinct) names with the table built by pack; the linear fallback finds the first entry with '
             'that name and both paths agree; GType-name and error-domain scans return the first matching registered-type/error-enum '
             'entry, for all seven kinds whose blob struct carries a gtype_name (C14_registered_kinds pins them from the header and girnode.c); the GType prefix filter characterised. Repository level: a state machine '
             'of girepository.c (eager and lazy tables, the positive caches info_by_gtype/info_by_error_domain, the negative cache '
             'unknown_gtypes, register/load lazy and eager, lazy->eager promotion of the loaded typelib) with C14_history: for EVERY history no call aborts '
             'and every find answer is a typelib-level answer of a typelib loaded at that moment, NULL iff all loaded typelibs say NULL, '
             'equal to the cache-free search when the key is unique; the cache insert/clear sites are pinned from the source each run '
             '(C14_cache_shape). Checked per run: cmph injectivity/range on every compiled name set; generated histories on the real '
             'library (one process each) vs the model and the statement oracle.',
        note='Modelled not verified: cmph/BDZ (h is a parameter with a per-run checked assumption); GHashTable (a resize only permutes a table); typelibs are never unloaded; the hand-written GLib declarations.',
        design='Part B C14'),
    'C15': dict(
        text='Theorems over tables re-extracted every run from girwriter.py (what it can emit per element: attributes, children, '
             'enumerated values) and girparser.c (what each of the 36 parser states handles, fetches or passes through): the 40 '
             'writer contexts are an inductive invariant of walking writer output through the parser table (C15_walk/'
             'C15_contexts_closed/C15_handlers); every element the writer emits in a context is handled or passed through, every '
             'attribute written is fetched, every enumerated value is recognised and in docs/gir-1.2.rnc — each as a `_partial` '
             'theorem whose exceptions are exactly the witnessed offences (`_counterexample` theorems; known findings); for all '
             'contexts and all well-nested bodies the passthrough depth counter returns to the enclosing state, so a skipped '
             '(introspectable="0") element removes exactly its own subtree and is inert (C15_passthrough_balanced/'
             '_skipped_subtree_invisible/_inert). The model state machine is compared with the real start/end element handlers on '
             'every GIR and mutant (cdrivers/c15_states.c). The end-to-end claim (accepted without message, validates, same flags, '
             'hidden elements absent) is VALIDATED on the real pair: scanner pipeline output -> real g-ir-compiler -> walker.',
        note='Modelled not verified: GMarkup; the node->blob mapping (C06). The tie between number-coded and string tables is checked by the compiled driver each run (kernel evaluation of string literals is too slow), only first rows are pinned in the kernel.',
        design='Part B C15'),
    'C16': dict(
        text='Theorems: every order the writer imposes (sorted(...), nscmp) is a function of the set of siblings — invariant under every permutation given pairwise distinct keys; get_main_position is a function of the position SET; typedef-before-struct and struct-before-typedef build the same record; the block dictionary is independent of block and file order for distinct identifiers (duplicates are never silent); the order of _parsed_includes, hence C-type resolution through transitive includes, is independent of set iteration order (C16_parsed_includes_perm, full since the sorted iteration); the introspectable fixed point is reached, is the greatest one and is independent of the walk order (C16_fixpoint_*); decide theorems pin the sort sites, unsorted emissions and set iterations of the sources (regenerated each run). Determinism across processes, hash seeds and cache histories is a runtime fact: validated metamorphically on the real pipeline (fresh subprocesses under several PYTHONHASHSEEDs, permuted blocks/files/dump entries, declare-before-use declaration shuffles judged byte for byte, cold/warm/cross-seed cache with counted hits, histories of scans from several working directories sharing one real cache with relative dependency paths and equal mtimes). No known finding.',
        note='Modelled not verified: CPython set/dict iteration (set = arbitrary permutation, dict = insertion order).',
        design='Part B C16'),
    'C17': dict(
        text='Theorems (all full statements; only hypothesis: recorded dependencies are acyclic): version comparison is numeric major.minor order and a total preorder; exact-version require loads ns-v.typelib from the first directory having it, else not-found; versionless require loads a maximal version and among those the earliest directory; a file whose header names another namespace or version than its file name is refused in both cases; later prepends precede earlier ones; require_private searches only the private directory; enumerate_versions; C17_inv over ALL histories of require/require_private/load/queries incl. lazy loads and lazy->eager promotion: one version per namespace, every recorded dependency loaded at the recorded version, lazy/eager tables disjoint, reports equal the files loaded, transitive dependencies exactly the reachable closure; C17_conflict_mismatch (9 clauses): conflict for eagerly or lazily loaded namespaces whatever the flags, same typelib returned on agreement. Validated: generated histories executed by a C driver on the public API over real typelibs. No known finding.',
        note='Modelled not verified: OS directory order (a directory is a set), GHashTable, strtol; cycles are invalid input.',
        design='Part B C17'),
    'C18': dict(
        text='Theorems over a step model with one atomic step per system call of cachestore.py and its call site, for EVERY history (any number of processes, any interleaving, source modifications and replacements, a crash before any step): no load/store/purge step raises (no device hypothesis: the temporary file lives in the cache directory and is published by rename); a load returns nothing or a complete parse; what a load returns is what one single store wrote, and the entry carries exactly the mtime the source has now; publication is atomic; a store whose temp file was purged publishes nothing; torn entries are discarded; after any crash only complete entries or unpublished temp files remain; a version change discards all entries. The main freshness clause (C18_fresh_partial) is proved under the single hypothesis that source versions carry pairwise distinct mtimes, with a witness that it cannot be dropped (the one known finding: two versions with one mtime and a read in between). Validated: the real CacheStore and Transformer._parse_include under a controlled scheduler on a real directory vs the model; replays on real file systems in every tier; several source paths: a key-indexed family of the single-key model (C18_key_projection, C18_key_frame, C18_fresh_keyed under an injective entry-name function, C18_key_frame_needs_injective as the witness that injectivity is needed), the injectivity being tied to the real _get_filename by the c18.entry-name correspondence and a multi-source section on the real CacheStore (look-alike path spellings, equal mtimes, changing working directory).',
        note='Modelled not verified: POSIX semantics (atomic rename, open file survives unlink, stat returns the last mtime set), pickle.',
        design='Part B C18'),
    'C19': dict(
        text='Theorems (all names, all words, all listings): exact characterisation of the ldd pattern match by base name '
             '(lib<name> + one non-library-name character, no directory component, liblib rejected, metacharacters literal); '
             'resolver: success implies one library per distinct request (never a shorter list), each the FIRST matching '
             'listed word, reported by base name; under the property\'s own carve-out the error names exactly the '
             'unresolved requests. The regex shape and character classes are re-read from the source each run; matcher, '
             'resolver and dlname extraction are compared with the real code on generated listings, and a statement-level '
             'oracle runs on the real code as failing-input search.',
        note='Modelled not verified: CPython re/str semantics (re-expressed, compared each run), os.path.isfile (parameter), '
             'running ldd/otool, macOS/Windows branches.',
        design='Part B C19'),
    'C20': dict(
        text='Theorems, with an XML 1.0 reader written from the recommendation as the specification: escape/quoteattr parse back to the '
             'original text/value for all XML-char strings; a built tag parses back to (name, attributes with None dropped, data) for '
             'every indent and width, hence wrapping never changes content; for every operation sequence the document parses back to '
             'exactly the events written with every opened element closed in LIFO order, including sequences cut short by an exception '
             'inside nested tagcontexts; get_encoded_xml is the UTF-8 encoding. The model is compared byte for byte with the real '
             'XMLWriter on generated operation sequences; expat parse-back of the real output is the independent oracle.',
        note='Modelled not verified: xml.sax.saxutils (re-expressed, compared), expat agreement with the Lean reader (sampled).',
        design='Part B C20'),
}

# properties whose check currently passes on the unchanged tree and is registered
CLAIMED = ['C01', 'C02', 'C03', 'C04', 'C05', 'C06', 'C07', 'C08', 'C09', 'C10', 'C11', 'C12', 'C13', 'C14', 'C15', 'C16', 'C17', 'C18', 'C19', 'C20']

PENDING = {
}

ALL = ['C%02d' % i for i in range(1, 21)]


def main():
    checks = []
    for pid in ALL:
        if pid not in CLAIMED:
            continue
        c = CHECKS[pid]
        checks.append({
            'property_id': pid,
            'quick_cmd': './check %s quick' % pid,
            'thorough_cmd': './check %s thorough' % pid,
            'evidence_file': 'evidence/%s.json' % pid,
            'replay_cmd_template': './check %s --replay {path}' % pid,
            'engine': 'giverif',
            'level_claimed': {'category': 'proof', 'text': c['text'], 'design_ref': c['design']},
            'level_note': NOTE_COMMON + c['note'],
            'technique': c.get('technique', TECH),
        })
    na = []
    for pid in ALL:
        if pid not in CLAIMED:
            na.append({'property_id': pid,
                       'reason': PENDING.get(pid, 'not claimed yet: the model, proofs and harness exist (lean/GIVerif/Props/%s.lean, harness/%s.py) but the check is being '
                                             're-aligned with fix: commits made in /repo; it is registered as soon as it passes on the unchanged tree' % (pid, pid.lower()))})
    man = {
        'version': 1,
        'setup_cmd': './setup.sh',
        'hooks': {
            'guard': 'GOBJECT_INTROSPECTION_VERIF',
            'enable': 'no source hooks: Python internals are reached by in-process patching from the harness, '
                      'C internals by driver programs compiled against /repo headers',
            'baseline_off_cmd': 'cd /repo && /venv/bin/python -m pytest -ra -q -p no:cacheprovider --timeout=900 '
                                '--continue-on-collection-errors',
            'source_commits': [],
            'add_only': True,
        },
        'engines': [{'name': 'giverif', 'path': 'check',
                     'serves_properties': sorted(CLAIMED),
                     'kind_free_text': 'Lean 4 proofs over executable models (lean/), translators regenerating tables '
                                       'from /repo (translators/), differential correspondence + statement oracles '
                                       '(harness/)'}],
        'checks': checks,
        'not_applicable': na,
        'notes': 'See DESIGN.md. known_findings.json lists genuine defects found (fixed or recorded).',
    }
    with open(os.path.join(VERIF, 'MANIFEST.json'), 'w') as f:
        json.dump(man, f, indent=1)
    print('MANIFEST.json: %d checks, %d not_applicable' % (len(checks), len(na)))


if __name__ == '__main__':
    main()
