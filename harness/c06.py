"""C06 -- A compiled typelib encodes exactly the API of the GIR it came from.

Proof: lean/GIVerif/Props/C06.lean over lean/GIVerif/Model/Typelib*.lean (generated layouts are
well-formed and equal to the published format, the generic bit-field codec is inverse and frame
preserving for every layout, size/offset arithmetic, decoder safety).
Tie: (1) translators gen_typelib_layout (C probe against /repo's header) and gen_typelib_consts;
(2) correspondence: the Lean reader against /repo's C structs on every blob of every typelib
compiled this run, the Lean writer against the C structs, the size model against the real files
(blob extents, header area, and the directory index section whose size variable's width is read from
girmodule.c on every run), the decoded directory against the public repository API;
(3) translation validation (validated, NOT proved): decode(bytes written by the real g-ir-compiler)
is compared with the API the GIR TEXT stands for by the GIR schema rules -- this is the
failing-input search, written from the property statement.
"""
_ORACLE_DOC = """(1) a seeded generator of valid GIR documents covering the element kinds and
attribute combinations g-ir-compiler reads, and (2) the ORACLE: the API description the GIR
text stands for by the GIR schema rules (docs/gir-1.2.rnc defaults and the documented meaning
of each attribute), computed from the XML TEXT alone with ElementTree -- it never looks at
the generator's intent, so a replay needs nothing but the GIR files.

Oracle conventions (what "the same API" means, written from the statement and the schema):
* only introspectable elements count (introspectable="0" and shadowed-by elements are not API);
* binary attributes are "1" = true, anything else / absent = the schema default;
* `deprecated` is true iff the attribute says "1";
* the legacy allow-none="1" on a parameter means optional for direction="out" and nullable for in and
  inout (the schema gives no rule; the scanner, which reads and writes it, does); on a return value
  it means nullable;
* an enumeration <member introspectable="0"> is not API (the following members keep their order);
* a method whose glib:get-property / glib:set-property names no property of its container that is
  API (none, or one marked introspectable="0") is a plain method;
* a signal's run phase is first / last / cleanup by its `when` attribute (case-insensitive); absent
  or any other value means last; <attribute> children of <alias> are not stored (aliases are
  resolved away);
* an <attribute> belongs to the element that contains it;
* members keep document order inside their kind (fields, properties, methods, signals, vfuncs,
  constants); directory entries keep document order;
* a type is a pointer iff the GIR type is pointer-like by itself (utf8, filename, gpointer,
  containers, arrays) or its c:type is a pointer type (one level taken off for out/inout
  parameters, which add an indirection of their own), or it names a pointer/disguised record;
* values are stored as far as the format allows: enum values in 32 bits with a sign flag,
  closure/destroy in a signed byte, counts and indices in 16 bits -- inputs beyond are outside.
QUIRKS are named deviations of the unchanged compiler from these rules (each one a reported,
still unrepaired finding with a descriptive key); `expected_api(..., quirks=set)` can apply them so
that the harness can tell a known finding (the decoded API equals the schema API with exactly that
deviation applied) from a new failure (any other difference).  The oracle itself (quirks=()) follows the schema only;
defects that /repo has repaired are NOT emulated any more -- their minimal inputs stay in
corpus/C06/02-findings.json and 04-fix-neighbours.json as regression cases.
"""
import struct
import xml.etree.ElementTree as ET
from xml.sax.saxutils import quoteattr

CORE = 'http://www.gtk.org/introspection/core/1.0'
CNS = 'http://www.gtk.org/introspection/c/1.0'
GLIBNS = 'http://www.gtk.org/introspection/glib/1.0'


def q(tag):
    if tag.startswith('c:'):
        return '{%s}%s' % (CNS, tag[2:])
    if tag.startswith('glib:'):
        return '{%s}%s' % (GLIBNS, tag[5:])
    return '{%s}%s' % (CORE, tag)


# ------------------------------------------------------------------ rendering
class E(object):
    """a tiny XML element: tag, ordered attributes, children"""

    def __init__(self, tag, attrs=None, children=None):
        self.tag = tag
        self.attrs = list(attrs or [])
        self.children = list(children or [])

    def add(self, child):
        self.children.append(child)
        return child

    def render(self, out, indent=0):
        pad = ' ' * indent
        seen, uniq = set(), []
        for k, v in self.attrs:            # an attribute may be given once only
            if k not in seen:
                seen.add(k)
                uniq.append((k, v))
        a = ''.join(' %s=%s' % (k, quoteattr(v)) for k, v in uniq)
        if not self.children:
            out.append('%s<%s%s/>\n' % (pad, self.tag, a))
        else:
            out.append('%s<%s%s>\n' % (pad, self.tag, a))
            for c in self.children:
                c.render(out, indent + 1)
            out.append('%s</%s>\n' % (pad, self.tag))


def render_repository(includes, ns_elem, extra_top=()):
    out = ['<?xml version="1.0"?>\n',
           '<repository version="1.2" xmlns="%s" xmlns:c="%s" xmlns:glib="%s" '
           'xmlns:doc="http://www.gtk.org/introspection/doc/1.0">\n' % (CORE, CNS, GLIBNS)]
    for name, ver in includes:
        out.append(' <include name=%s version=%s/>\n' % (quoteattr(name), quoteattr(ver)))
    for e in extra_top:
        e.render(out, 1)
    ns_elem.render(out, 1)
    out.append('</repository>\n')
    return ''.join(out)


# ------------------------------------------------------------------ vocabulary
BASIC = {  # GIR type name -> (tag name, inherently a pointer)
    'none': ('void', False), 'gpointer': ('void', True), 'gboolean': ('boolean', False),
    'gint8': ('int8', False), 'guint8': ('uint8', False), 'gint16': ('int16', False), 'guint16': ('uint16', False),
    'gint32': ('int32', False), 'guint32': ('uint32', False), 'gint64': ('int64', False), 'guint64': ('uint64', False),
    'gfloat': ('float', False), 'gdouble': ('double', False), 'GType': ('gtype', False), 'utf8': ('utf8', True),
    'filename': ('filename', True), 'gunichar': ('unichar', False),
    # C integer names: fixed by the platform ABI (x86-64 LP64, the only platform this check runs on)
    'gchar': ('int8', False), 'guchar': ('uint8', False), 'gshort': ('int16', False), 'gushort': ('uint16', False),
    'gint': ('int32', False), 'guint': ('uint32', False), 'glong': ('int64', False), 'gulong': ('uint64', False),
    'gssize': ('int64', False), 'gsize': ('uint64', False), 'gintptr': ('int64', False), 'guintptr': ('uint64', False),
}
INT_RANGE = {'int8': (-2 ** 7, 2 ** 7 - 1, 1), 'uint8': (0, 2 ** 8 - 1, 1), 'int16': (-2 ** 15, 2 ** 15 - 1, 2),
             'uint16': (0, 2 ** 16 - 1, 2), 'int32': (-2 ** 31, 2 ** 31 - 1, 4), 'uint32': (0, 2 ** 32 - 1, 4),
             'int64': (-2 ** 63, 2 ** 63 - 1, 8), 'uint64': (0, 2 ** 64 - 1, 8)}
SCOPES = {'call': 1, 'async': 2, 'notified': 3, 'forever': 4}
ARRAY_KINDS = {'GLib.Array': 1, 'GLib.PtrArray': 2, 'GLib.ByteArray': 3}

QUIRKS = {
    # name -> (key reported through ctx.report_failure, description)
    'attribute-after-type-child': (
        'attribute-after-type-child:attached-to-enclosing-node',
        'girparser.c end_type clears ctx->current_typed: an <attribute> that FOLLOWS the <type>/<array>/<callback> child '
        'of a <parameter>, <return-value>, <field>, <property> or class-level <constant> is attached to the enclosing '
        'function / type instead of to that element (every other member of the API is as the GIR says)'),
}


# ------------------------------------------------------------------ oracle
class Oracle(object):
    def __init__(self, gir_text, dep_texts=(), quirks=()):
        self.quirks = set(quirks)
        self.root = ET.fromstring(gir_text)
        self.nsel = self.root.find(q('namespace'))
        self.ns = self.nsel.get('name')
        self.aliases = {}        # 'Ns.Name' -> target type name (qualified unless basic)
        self.pointer_records = set()
        for text in dep_texts:
            self._scan_aliases(ET.fromstring(text))
        self._scan_aliases(self.root)
        self.xrefs = []
        self.parent = {c: p for p in self.root.iter() for c in p}

    def _scan_aliases(self, root):
        nsel = root.find(q('namespace'))
        ns = nsel.get('name')
        for al in nsel.iter(q('alias')):
            t = al.find(q('type'))
            if t is None or t.get('name') is None:
                continue
            name = t.get('name')
            if '.' not in name and name not in BASIC:
                name = '%s.%s' % (ns, name)
            self.aliases['%s.%s' % (ns, al.get('name'))] = name
        for rec in nsel.iter(q('record')):
            if rec.get('pointer') == '1' or rec.get('disguised') == '1':
                self.pointer_records.add('%s.%s' % (ns, rec.get('name')))

    # ---- helpers
    def flag(self, el, name, default=False):
        v = el.get(name)
        if v is None:
            return default
        return v == '1'

    def deprecated(self, el):
        return el.get('deprecated') == '1'

    def introspectable(self, el):
        return not (el.get('introspectable') == '0') and el.get('shadowed-by') is None

    TYPELIKE = ('type', 'array', 'varargs', 'callback')

    def _leaked(self, el):
        """the <attribute> children of `el` that the pending deviation 'attribute-after-type-child' moves to the
        enclosing node: those that follow the type-like child of a parameter, return value, field, property or
        class-level constant (a namespace-level constant is its own node: nothing moves)"""
        if 'attribute-after-type-child' not in self.quirks:
            return []
        tag = el.tag
        par = self.parent.get(el)
        if not (tag in (q('parameter'), q('return-value'), q('field'), q('property')) or
                (tag == q('constant') and par is not None and par.tag in (q('class'), q('interface')))):
            return []
        typelike = [q(t) for t in self.TYPELIKE]
        seen, out = False, []
        for c in el:
            if c.tag in typelike:
                seen = True
            elif c.tag == q('attribute') and seen:
                out.append(c)
        return out

    def attrs_of(self, el):
        """the attributes of `el`: its <attribute> children (a later one replaces an earlier one of the same
        name).  Under the pending deviation, the leaked attributes of its members are inserted into the same
        table in document order, and its own leaked ones are missing."""
        out = {}
        gone = self._leaked(el)
        quirk = 'attribute-after-type-child' in self.quirks
        members = (q('return-value'), q('parameter'), q('field'), q('property'), q('constant'))
        for c in el:
            if c.tag == q('attribute'):
                if not any(c is g for g in gone):
                    out[c.get('name')] = c.get('value')
            elif quirk and c.tag in members and (c.tag in members[:2] or self.introspectable(c)):
                for a in self._leaked(c):
                    out[a.get('name')] = a.get('value')
            elif quirk and c.tag == q('parameters'):
                for p in c:
                    if p.tag == q('parameter'):
                        for a in self._leaked(p):
                            out[a.get('name')] = a.get('value')
        return sorted([k, v] for k, v in out.items())

    def resolve_alias(self, name):
        key = name if '.' in name else '%s.%s' % (self.ns, name)
        seen = set()
        cur = key
        while cur in self.aliases and cur not in seen:
            seen.add(cur)
            cur = self.aliases[cur]
        if cur == key:
            return name
        return cur

    def iface_name(self, name):
        """canonical reference: 'Name' for this namespace, 'Ns.Name' for another one"""
        if '.' in name:
            ns, nm = name.split('.', 1)
            if ns == self.ns:
                return nm
            if name not in self.xrefs:
                self.xrefs.append(name)
            return name
        return name

    def pointer_depth(self, ctype, out_param):
        depth = 0
        if ctype is not None:
            i = len(ctype) - 1
            while i > 0 and ctype[i] == '*':
                depth += 1
                i -= 1
            if ctype.startswith('gpointer') or ctype.startswith('gconstpointer'):
                depth += 1
        if out_param and depth > 0:
            depth -= 1
        return depth

    def x_type(self, el, out_param=False, in_field=False):
        """el: <type> or <array> (or None -> the gpointer default of unspecified container elements)"""
        if el is None:
            return {'tag': 'void', 'pointer': True}
        if el.tag == q('array'):
            name = el.get('name')
            kind = ARRAY_KINDS.get(name, 0)
            child = self._type_child(el)
            t = {'tag': 'array', 'array_type': kind, 'pointer': True,
                 'elem': self.x_type(child, out_param, in_field)}
            if kind == 0:
                ln, sz, zt = el.get('length'), el.get('fixed-size'), el.get('zero-terminated')
                t['has_length'] = ln is not None
                t['has_size'] = sz is not None
                t['zero_terminated'] = (zt == '1') if zt is not None else not (t['has_length'] or t['has_size'])
                t['dimension'] = (int(ln) if ln is not None else int(sz) if sz is not None else -1) & 0xFFFF
                if t['has_size'] and in_field:
                    t['pointer'] = False
                elif not t['has_length'] and in_field:
                    # `T data[];` -- an array member without size and length whose C type is not a pointer type is a
                    # flexible array member (what the scanner writes for it), not a pointer
                    act = el.get(q('c:type'))
                    if act is None or not act.endswith('*'):
                        t['pointer'] = False
            else:
                t.update({'has_length': False, 'has_size': False, 'zero_terminated': False, 'dimension': 0xFFFF})
            return t
        name = el.get('name')
        if name not in BASIC:
            name = self.resolve_alias(name)
        depth = self.pointer_depth(el.get('c:type') or el.get(q('c:type')), out_param)
        if name in BASIC:
            tag, ptr = BASIC[name]
            return {'tag': tag, 'pointer': ptr or depth > 0}
        kids = [c for c in el if c.tag in (q('type'), q('array'))]
        if name in ('GLib.List', 'GLib.SList'):
            return {'tag': 'glist' if name == 'GLib.List' else 'gslist', 'pointer': True,
                    'params': [self.x_type(kids[0] if kids else None, out_param, in_field)]}
        if name == 'GLib.HashTable':
            if kids:
                ps = [self.x_type(kids[0], out_param, in_field), self.x_type(kids[1], out_param, in_field)]
            else:
                ps = [self.x_type(None), self.x_type(None)]
            return {'tag': 'ghash', 'pointer': True, 'params': ps}
        if name == 'GLib.Error':
            return {'tag': 'error', 'pointer': True}
        full = name if '.' in name else '%s.%s' % (self.ns, name)
        if full in self.pointer_records:
            depth += 1
        return {'tag': 'interface', 'pointer': depth > 0, 'name': self.iface_name(name)}

    def _type_child(self, el):
        for c in el:
            if c.tag in (q('type'), q('array')):
                return c
        return None

    def transfer(self, el, default=None):
        return el.get('transfer-ownership', default)

    def x_signature(self, el, kind):
        """kind: function | callback | signal | vfunc"""
        rv = el.find(q('return-value'))
        params = el.find(q('parameters'))
        sig = {}
        sig['ret'] = self.x_type(self._type_child(rv))
        # nullable, or its older spelling allow-none (both in the schema for a return value)
        sig['may_return_null'] = self.flag(rv, 'nullable') or self.flag(rv, 'allow-none')
        sig['transfer'] = self.transfer(rv)
        sig['skip_return'] = self.flag(rv, 'skip')
        sig['ret_attrs'] = self.attrs_of(rv)
        inst = None if params is None else params.find(q('instance-parameter'))
        sig['instance_transfer'] = inst is not None and inst.get('transfer-ownership') == 'full'
        args = []
        if params is not None:
            for p in params.findall(q('parameter')):
                args.append(self.x_param(p))
        sig['args'] = args
        return sig

    def x_param(self, p):
        d = p.get('direction', 'in')
        a = {'name': p.get('name', 'unknown'), 'in': d in ('in', 'inout'), 'out': d in ('out', 'inout')}
        a['caller_allocates'] = d == 'out' and self.flag(p, 'caller-allocates')
        a['nullable'] = self.flag(p, 'nullable')
        a['optional'] = self.flag(p, 'optional')
        if self.flag(p, 'allow-none'):
            # the legacy spelling: the schema gives no rule ("Deprecated. Replaced by nullable and optional"), the
            # scanner that reads and writes it does (giscanner/ast.py Parameter.__init__, girwriter.py
            # _write_parameter): optional for direction="out", nullable for in AND inout
            if d == 'out':
                a['optional'] = True
            else:
                a['nullable'] = True
        a['skip'] = self.flag(p, 'skip')
        a['transfer'] = self.transfer(p)
        a['scope'] = SCOPES.get(p.get('scope'), 0)
        a['closure'] = int(p.get('closure', '-1'))
        a['destroy'] = int(p.get('destroy', '-1'))
        a['type'] = self.x_type(self._type_child(p), out_param=a['out'])
        a['attrs'] = self.attrs_of(p)
        return a

    def x_function(self, el, props=()):
        """props: names of the properties of the container that are API (an accessor link to any other name -- a
        property marked introspectable="0", or none at all -- leaves a plain method)"""
        tag = el.tag
        f = {'kind': 'function', 'name': el.get('shadows') or el.get('name'),
             'symbol': el.get('c:identifier') or el.get(q('c:identifier')),
             'deprecated': self.deprecated(el), 'throws': self.flag(el, 'throws'),
             'is_static': tag not in (q('method'), q('constructor')), 'constructor': tag == q('constructor'),
             'setter': False, 'getter': False, 'prop': None, 'attrs': self.attrs_of(el)}
        if tag in (q('method'), q('constructor')):
            sp, gp = el.get(q('glib:set-property')), el.get(q('glib:get-property'))
            if sp is not None:
                if sp in props:
                    f['setter'], f['prop'] = True, sp
            elif gp is not None:
                if gp in props:
                    f['getter'], f['prop'] = True, gp
        f['sig'] = self.x_signature(el, 'function')
        f['sig']['throws'] = f['throws']
        return f

    def x_callback(self, el):
        c = {'kind': 'callback', 'name': el.get('name'), 'deprecated': self.deprecated(el),
             'attrs': self.attrs_of(el), 'sig': self.x_signature(el, 'callback')}
        c['sig']['throws'] = self.flag(el, 'throws')
        return c

    def x_field(self, el):
        if not self.introspectable(el):
            # the slot stays (it is part of the layout) but its type is hidden behind a gpointer
            f = {'name': el.get('name'), 'type': {'tag': 'void', 'pointer': True}, 'attrs': []}
        else:
            f = {'name': el.get('name'), 'attrs': self.attrs_of(el)}
            cb = el.find(q('callback'))
            par = self.parent.get(el)
            if cb is not None and par is not None and par.tag in (q('union'), q('glib:boxed'), q('interface')):
                # UnionBlob (and a boxed / interface) cannot embed a CallbackBlob: a function pointer member there is an
                # untyped pointer
                f['type'] = {'tag': 'void', 'pointer': True}
            elif cb is not None:
                f['callback'] = self.x_callback(cb)
            else:
                f['type'] = self.x_type(self._type_child(el), in_field=True)
        r = el.get('readable')
        f['readable'] = r is None or r == '1'
        f['writable'] = el.get('writable') == '1'
        f['bits'] = int(el.get('bits', '0')) & 0xFF
        return f

    def x_property(self, el):
        return {'name': el.get('name'),
                'deprecated': self.deprecated(el),
                'readable': self.flag(el, 'readable', True), 'writable': self.flag(el, 'writable'),
                'construct': self.flag(el, 'construct'), 'construct_only': self.flag(el, 'construct-only'),
                'transfer': self.transfer(el, 'none'), 'setter': el.get('setter'), 'getter': el.get('getter'),
                'type': self.x_type(self._type_child(el)), 'attrs': self.attrs_of(el)}

    def x_signal(self, el):
        # run phase: "first", "last" or "cleanup", compared without regard to case; absent, or any other value (a
        # dumped flag name such as must-collect, an empty value) -> the default phase, last
        when = (el.get('when') or '').lower()
        if when not in ('first', 'last', 'cleanup'):
            when = 'last'
        sig = self.x_signature(el, 'signal')
        sig['throws'] = False
        return {'name': el.get('name'), 'deprecated': el.get('deprecated') == '1',
                'run_first': when == 'first', 'run_last': when == 'last', 'run_cleanup': when == 'cleanup',
                'no_recurse': self.flag(el, 'no-recurse'), 'detailed': self.flag(el, 'detailed'),
                'action': self.flag(el, 'action'), 'no_hooks': self.flag(el, 'no-hooks'),
                'attrs': self.attrs_of(el), 'sig': sig}

    def x_vfunc(self, el):
        v = {'name': el.get('name'), 'throws': self.flag(el, 'throws'), 'invoker': el.get('invoker'),
             'attrs': self.attrs_of(el), 'sig': self.x_signature(el, 'vfunc')}
        v['sig']['throws'] = v['throws']
        return v

    def x_constant(self, el):
        t = self.x_type(self._type_child(el))
        c = {'kind': 'constant', 'name': el.get('name'), 'deprecated': self.deprecated(el), 'type': t,
             'value_bytes': constant_bytes(t, el.get('value')),
             'attrs': self.attrs_of(el)}
        return c

    def functions_of(self, el):
        out = []
        props = [p.get('name') for p in el.findall(q('property')) if self.introspectable(p)]
        for c in el:
            if c.tag in (q('function'), q('method'), q('constructor')) and self.introspectable(c):
                out.append(self.x_function(c, props))
        return out

    def registered(self, el, d):
        d['gtype_name'] = el.get(q('glib:type-name'))
        d['gtype_init'] = el.get(q('glib:get-type'))

    def x_record(self, el):
        r = {'kind': 'struct', 'name': el.get('name'), 'deprecated': self.deprecated(el),
             'is_gtype_struct': el.get(q('glib:is-gtype-struct-for')) is not None,
             'foreign': self.flag(el, 'foreign'), 'copy_func': el.get('copy-function'),
             'free_func': el.get('free-function')}
        self.registered(el, r)
        r['unregistered'] = r['gtype_name'] is None
        r['fields'] = [self.x_field(f) for f in el.findall(q('field'))]
        r['methods'] = self.functions_of(el)
        r['attrs'] = self.attrs_of(el)
        return r

    def x_union(self, el):
        r = {'kind': 'union', 'name': el.get('name'), 'deprecated': self.deprecated(el),
             'copy_func': el.get('copy-function'), 'free_func': el.get('free-function')}
        self.registered(el, r)
        r['unregistered'] = r['gtype_name'] is None
        r['fields'] = [self.x_field(f) for f in el.findall(q('field'))]
        r['methods'] = self.functions_of(el)
        r['attrs'] = self.attrs_of(el)
        return r

    def x_boxed(self, el):
        r = {'kind': 'boxed', 'name': el.get(q('glib:name')), 'deprecated': self.deprecated(el),
             'is_gtype_struct': False, 'foreign': False, 'copy_func': None, 'free_func': None}
        self.registered(el, r)
        r['unregistered'] = False
        r['fields'] = [self.x_field(f) for f in el.findall(q('field'))]
        r['methods'] = self.functions_of(el)
        r['attrs'] = self.attrs_of(el)
        return r

    def x_enum(self, el):
        r = {'kind': 'enum' if el.tag == q('enumeration') else 'flags', 'name': el.get('name'),
             'deprecated': self.deprecated(el), 'error_domain': el.get(q('glib:error-domain'))}
        self.registered(el, r)
        r['unregistered'] = r['gtype_name'] is None
        vals = []
        for m in el.findall(q('member')):
            if m.get('introspectable') == '0':
                continue                 # not API, like every other element marked introspectable="0"
            a = self.attrs_of(m)
            cid = m.get(q('c:identifier'))
            a = sorted([x for x in a if x[0] != 'c:identifier'] + [['c:identifier', cid]])
            vals.append({'name': m.get('name'), 'value': int(m.get('value')), 'deprecated': self.deprecated(m),
                         'attrs': a})
        r['values'] = vals
        r['methods'] = [self.x_function(c) for c in el.findall(q('function')) if self.introspectable(c)]
        r['attrs'] = self.attrs_of(el)
        return r

    def x_class(self, el):
        r = {'kind': 'object', 'name': el.get('name'), 'deprecated': self.deprecated(el),
             'abstract': self.flag(el, 'abstract'), 'final': self.flag(el, 'final'),
             'parent': None if el.get('parent') is None else self.iface_name(el.get('parent')),
             'gtype_struct': None if el.get(q('glib:type-struct')) is None else self.iface_name(el.get(q('glib:type-struct'))),
             'ref_func': el.get(q('glib:ref-func')), 'unref_func': el.get(q('glib:unref-func')),
             'set_value_func': el.get(q('glib:set-value-func')), 'get_value_func': el.get(q('glib:get-value-func'))}
        r['fundamental'] = el.get(q('glib:fundamental')) == '1'
        self.registered(el, r)
        r['interfaces'] = [self.iface_name(i.get('name')) for i in el.findall(q('implements'))]
        r['fields'] = [self.x_field(f) for f in el.findall(q('field'))]
        self._iface_members(el, r)
        r['attrs'] = self.attrs_of(el)
        return r

    def _iface_members(self, el, r):
        r['properties'] = [self.x_property(p) for p in el.findall(q('property')) if self.introspectable(p)]
        r['methods'] = self.functions_of(el)
        r['signals'] = [self.x_signal(s) for s in el.findall(q('glib:signal')) if self.introspectable(s)]
        r['vfuncs'] = [self.x_vfunc(v) for v in el.findall(q('virtual-method')) if self.introspectable(v)]
        r['constants'] = [self.x_constant(c) for c in el.findall(q('constant')) if self.introspectable(c)]

    def x_interface(self, el):
        r = {'kind': 'interface', 'name': el.get('name'), 'deprecated': self.deprecated(el),
             'gtype_struct': None if el.get(q('glib:type-struct')) is None else self.iface_name(el.get(q('glib:type-struct')))}
        self.registered(el, r)
        r['prerequisites'] = [self.iface_name(i.get('name')) for i in el.findall(q('prerequisite'))]
        self._iface_members(el, r)
        r['attrs'] = self.attrs_of(el)
        return r

    def api(self, shared_library_option=None, quirks=None):
        if quirks is not None:
            self.quirks = set(quirks)
        self.xrefs = []
        nsel = self.nsel
        entries = []
        for el in nsel:
            if el.tag == q('alias') or not self.introspectable(el):
                continue
            if el.tag == q('function'):
                entries.append(self.x_function(el))
            elif el.tag == q('callback'):
                entries.append(self.x_callback(el))
            elif el.tag == q('record'):
                entries.append(self.x_record(el))
            elif el.tag == q('union'):
                entries.append(self.x_union(el))
            elif el.tag == q('glib:boxed'):
                entries.append(self.x_boxed(el))
            elif el.tag in (q('enumeration'), q('bitfield')):
                entries.append(self.x_enum(el))
            elif el.tag == q('class'):
                entries.append(self.x_class(el))
            elif el.tag == q('interface'):
                entries.append(self.x_interface(el))
            elif el.tag == q('constant'):
                entries.append(self.x_constant(el))
        deps = sorted('%s-%s' % (i.get('name'), i.get('version')) for i in self.root.findall(q('include')))
        shlib = nsel.get('shared-library')
        if shared_library_option is not None:
            shlib = shared_library_option
        cprefix = nsel.get(q('c:identifier-prefixes'))
        if cprefix is None:
            cprefix = nsel.get(q('c:prefix'))
        return {'namespace': nsel.get('name'), 'nsversion': nsel.get('version'), 'shared_library': shlib,
                'c_prefix': cprefix, 'dependencies': deps, 'entries': entries, 'xrefs': sorted(self.xrefs),
                # directory entries that refer to the namespace itself: none (a name of this namespace, also when it is
                # spelled or resolved as "ThisNamespace.Name", is the local entry)
                'own_namespace_xrefs': []}


def constant_bytes(t, value):
    tag = t['tag']
    if tag == 'boolean':
        v = value.strip().lower()
        b = 1 if v == 'true' else 0 if v == 'false' else (1 if int(v, 0) else 0)
        return list(struct.pack('<i', b))
    if tag in INT_RANGE:
        lo, hi, n = INT_RANGE[tag]
        return list((int(value, 0) & (2 ** (8 * n) - 1)).to_bytes(n, 'little'))
    if tag == 'float':
        return list(struct.pack('<f', float(value)))
    if tag == 'double':
        return list(struct.pack('<d', float(value)))
    if tag in ('utf8', 'filename'):
        return list(value.encode('utf-8')) + [0]
    return []


def expected_api(gir_text, dep_texts=(), shared_library_option=None, quirks=()):
    return Oracle(gir_text, dep_texts, quirks).api(shared_library_option)


# ------------------------------------------------------------------ generator
NAME_WORDS = ['alpha', 'beta', 'gamma', 'delta', 'item', 'node', 'value', 'data', 'list', 'size', 'kind', 'mode',
              'user_data', 'callback', 'notify', 'error', 'self', 'x', 'y', 'n', 'len', 'buf', 'name', 'flags']
ATTR_KEYS = ['org.example.k', 'doc.x', 'k', 'since', 'a-b', 'very.long.attribute.name.with.many.parts', 'é']
ATTR_VALS = ['v', '', 'true', '1', 'some value with spaces', 'x&y<z>"q\'', 'ünïcödé ☃', 'a|b', 'v' * 70]


class Gen(object):
    """one random namespace.  `dep` describes the dependency namespace (names by kind) or None."""

    def __init__(self, rng, ns, version, dep=None, profile=None):
        self.rng = rng
        self.ns = ns
        self.version = version
        self.dep = dep
        self.profile = profile or {}
        self.uid = 0
        self.top = []                      # elements of the namespace in order
        self.names = {'class': [], 'interface': [], 'record': [], 'union': [], 'enum': [], 'flags': [], 'callback': [],
                      'boxed': [], 'precord': []}
        self.aliases = []                  # (name, target)
        self.cover = {}
        self.allow_varargs = False

    def hit(self, label):
        self.cover[label] = self.cover.get(label, 0) + 1

    def p(self, x):
        return self.rng.random() < x

    def fresh(self, base):
        self.uid += 1
        return '%s%d' % (base, self.uid)

    def ident(self):
        r = self.rng.random()
        if r < 0.03:
            return self.rng.choice(NAME_WORDS) + '_' + 'long' * self.rng.randint(20, 90)
        return self.rng.choice(NAME_WORDS) + (str(self.rng.randint(0, 99)) if self.p(0.5) else '')

    def attributes(self, el, rate=0.25, label=''):
        if not self.p(rate):
            return
        keys = self.rng.sample(ATTR_KEYS, self.rng.randint(1, 3))
        for k in keys:
            v = self.rng.choice(ATTR_VALS)
            if self.p(0.03):
                v = 'L' * self.rng.randint(300, 5000)
            el.add(E('attribute', [('name', k), ('value', v)]))
        self.hit('attributes:' + label)

    def info_attrs(self, attrs, label):
        r = self.rng.random()
        if r < 0.12:
            attrs.append(('deprecated', '1'))
            if self.p(0.5):
                attrs.append(('deprecated-version', '1.2'))
            self.hit('deprecated=1:' + label)
        elif r < 0.14 and self.profile.get('deprecated0', True):
            attrs.append(('deprecated', '0'))
            self.hit('deprecated=0:' + label)
        if self.p(0.1):
            attrs.append(('version', '0.%d' % self.rng.randint(1, 9)))
        if self.p(0.04):
            attrs.append(('stability', self.rng.choice(['Stable', 'Unstable', 'Private'])))
        if self.p(0.03):
            attrs.append(('introspectable', '1'))

    def docs(self, el):
        if self.p(0.1):
            d = E('doc', [('xml:space', 'preserve'), ('filename', 'f.c'), ('line', '3')])
            el.add(d)
        if self.p(0.05):
            el.add(E('source-position', [('filename', 'f.h'), ('line', '9')]))
        if self.p(0.03):
            el.add(E('doc-deprecated', [('xml:space', 'preserve')]))

    # ---- types
    def iface_ref(self, kinds=('class', 'interface', 'record', 'union', 'enum', 'flags', 'callback', 'boxed', 'precord')):
        """-> (gir name, c type, by-value kind?) of a named type of this or the dependency namespace, or None"""
        cands = []
        for k in kinds:
            for n in self.names.get(k, []):
                cands.append((k, n, None))
            if self.dep:
                for n in self.dep['names'].get(k, []):
                    cands.append((k, '%s.%s' % (self.dep['ns'], n), self.dep))
        if not cands:
            return None
        k, n, dep = self.rng.choice(cands)
        prefix = (dep['ns'] if dep else self.ns)
        cname = prefix + n.split('.')[-1]
        return k, n, cname

    def gen_type(self, depth=0, ctx='param', out=False):
        """-> E element (<type> or <array>).  ctx: param | return | field | property | const | elem"""
        r = self.rng.random()
        if depth >= 3:
            r = r * 0.45
        stars = '*' if out else ''
        with_ctype = self.p(0.75) and not (out and depth > 0)
        if r < 0.30:
            name = self.rng.choice(['gboolean', 'gint8', 'guint8', 'gint16', 'guint16', 'gint32', 'guint32', 'gint64',
                                    'guint64', 'gfloat', 'gdouble', 'GType', 'utf8', 'filename', 'gunichar', 'gpointer',
                                    'gint', 'guint', 'glong', 'gulong', 'gsize', 'gssize', 'gchar', 'guchar', 'gshort',
                                    'gushort', 'gintptr', 'guintptr'])
            cmap = {'utf8': 'gchar*', 'filename': 'gchar*', 'gpointer': self.rng.choice(['gpointer', 'gconstpointer', 'void*'])}
            a = [('name', name)]
            if with_ctype:
                ct = cmap.get(name, name)
                if self.p(0.1) and name not in cmap:
                    ct += '*'          # pointer to a basic value
                a.append(('c:type', ct + stars))
            self.hit('type:basic')
            return E('type', a)
        if r < 0.45:
            ref = self.iface_ref()
            if ref is not None:
                k, n, cname = ref
                byval = k in ('enum', 'flags', 'callback') or (k == 'precord' and self.p(0.6))   # typedef struct _X *X
                a = [('name', n)]
                if with_ctype:
                    a.append(('c:type', cname + ('' if byval else '*') + stars))
                self.hit('type:iface:' + k + (':xns' if '.' in n else ''))
                return E('type', a)
        all_aliases = [(self.ns, a, k) for a, k in self.aliases]
        if self.dep:
            all_aliases += [(self.dep['ns'], a, k) for a, k in self.dep['names'].get('alias', [])]
        if r < 0.53 and all_aliases:
            ans, al, akind = self.rng.choice(all_aliases)
            nm = al if ans == self.ns else '%s.%s' % (ans, al)
            star = '*' if self.p(0.25) else ''       # the typedef name itself, or a pointer to it
            self.hit('type:alias:%s%s%s' % (akind, ':xns' if ans != self.ns else '', ':star' if star and with_ctype else ''))
            return E('type', [('name', nm)] + ([('c:type', ans + al + star + stars)] if with_ctype else []))
        if r < 0.66:
            kind = self.rng.choice(['c', 'c', 'c', 'c', 'GLib.Array', 'GLib.PtrArray', 'GLib.ByteArray'])
            a = []
            if kind != 'c':
                a.append(('name', kind))
                self.hit('array:' + kind)
            else:
                m = self.rng.random()
                if m < 0.35:
                    a.append(('length', str(self.rng.choice([0, 1, 2, 3, 7]))))
                    self.hit('array:length')
                elif m < 0.6:
                    a.append(('fixed-size', str(self.rng.choice([1, 2, 16, 255, 65534]))))
                    self.hit('array:fixed-size')
                # length and fixed-size together are not generated: ArrayTypeBlob has one dimension slot
                # (and the type-sharing key of girnode.c then omits fixed-size, see the report)
                z = self.rng.random()
                if z < 0.3:
                    a.append(('zero-terminated', '1'))
                    self.hit('array:zt=1')
                elif z < 0.5:
                    a.append(('zero-terminated', '0'))
                    self.hit('array:zt=0')
                else:
                    self.hit('array:zt-default')
            if with_ctype:
                a.append(('c:type', self.rng.choice(['gint*', 'gchar**', 'gpointer', 'GArray*', 'guint8*']) + stars))
            arr = E('array', a)
            if kind == 'GLib.ByteArray':
                arr.add(E('type', [('name', 'guint8')]))
            else:
                arr.add(self.gen_type(depth + 1, 'elem', out))
            return arr
        if r < 0.76:
            name = self.rng.choice(['GLib.List', 'GLib.SList'])
            t = E('type', [('name', name)] + ([('c:type', name.replace('GLib.', 'G') + '*' + stars)] if with_ctype else []))
            if self.p(0.85) or depth > 0:      # a nested container without element type aborts the compiler
                t.add(self.gen_type(depth + 1, 'elem', out))
            self.hit('type:' + name)
            return t
        if r < 0.84:
            t = E('type', [('name', 'GLib.HashTable')] + ([('c:type', 'GHashTable*' + stars)] if with_ctype else []))
            if self.p(0.85) or depth > 0:
                t.add(self.gen_type(depth + 1, 'elem', out))
                t.add(self.gen_type(depth + 1, 'elem', out))
            self.hit('type:GLib.HashTable')
            return t
        if r < 0.88:
            self.hit('type:GLib.Error')
            return E('type', [('name', 'GLib.Error')] + ([('c:type', 'GError*' + stars)] if with_ctype else []))
        return E('type', [('name', 'gint32')] + ([('c:type', 'gint32' + stars)] if with_ctype else []))

    # ---- callables
    def gen_return(self, parent):
        a = [('transfer-ownership', self.rng.choice(['none', 'none', 'full', 'container']))]
        if self.p(0.2):
            a.append(('nullable', self.rng.choice(['1', '1', '0'])))
            self.hit('return:nullable')
        if self.p(0.05) and self.profile.get('allow_none_return', True):
            a.append(('allow-none', '1'))
            self.hit('return:allow-none')
        if self.p(0.12):
            a.append(('skip', self.rng.choice(['1', '1', '0'])))
            self.hit('return:skip:' + parent)
        rv = E('return-value', a)
        self.docs(rv)
        self.attributes(rv, 0.15, 'return:' + parent)
        if self.p(0.3):
            rv.add(E('type', [('name', 'none'), ('c:type', 'void')]))
        else:
            rv.add(self.gen_type(0, 'return'))
        return rv

    def gen_params(self, n, instance=None):
        ps = E('parameters')
        if instance is not None:
            a = [('name', self.rng.choice(['self', 'object', 'instance'])),
                 ('transfer-ownership', 'full' if self.p(0.15) else 'none')]
            ip = E('instance-parameter', a, [E('type', [('name', instance), ('c:type', self.ns + instance + '*')])])
            ps.add(ip)
            self.hit('instance-parameter:' + a[1][1])
        used = set()
        for i in range(n):
            nm = self.ident()
            while nm in used:
                nm = self.fresh(nm)
            used.add(nm)
            a = []
            if self.p(0.97):
                a.append(('name', nm))
            d = self.rng.choice(['in', 'in', 'in', None, None, 'out', 'out', 'inout'])
            if d is not None:
                a.append(('direction', d))
            out = d in ('out', 'inout')
            self.hit('param:direction=' + str(d))
            if d == 'out' and self.p(0.4):
                a.append(('caller-allocates', self.rng.choice(['1', '1', '0'])))
                self.hit('param:caller-allocates')
            a.append(('transfer-ownership', self.rng.choice(['none', 'none', 'full', 'container'])))
            if self.p(0.2):
                a.append(('nullable', self.rng.choice(['1', '1', '0'])))
                self.hit('param:nullable')
            if self.p(0.15):
                a.append(('optional', self.rng.choice(['1', '1', '0'])))
                self.hit('param:optional')
            if self.p(0.1):
                a.append(('allow-none', self.rng.choice(['1', '1', '0'])))
                self.hit('param:allow-none:' + (d or 'in'))
            if self.p(0.1):
                a.append(('skip', self.rng.choice(['1', '1', '0'])))
                self.hit('param:skip')
            is_cb = self.p(0.2) and (self.names['callback'] or (self.dep and self.dep['names'].get('callback')))
            if is_cb:
                if self.p(0.85):
                    a.append(('scope', self.rng.choice(['call', 'async', 'notified', 'forever'])))
                    self.hit('param:scope')
                if self.p(0.7):
                    a.append(('closure', str(self.rng.choice([0, 1, 2, i, n - 1, 126, 127]) if n else 0)))
                    self.hit('param:closure')
                if self.p(0.5):
                    a.append(('destroy', str(self.rng.choice([0, 1, 2, i, n - 1, 127]) if n else 0)))
                    self.hit('param:destroy')
            elif self.p(0.05):
                a.append(('closure', str(self.rng.randint(0, max(0, n - 1)))))   # the user_data side
                self.hit('param:closure-on-data')
            p = E('parameter', a)
            self.docs(p)
            self.attributes(p, 0.12, 'parameter')
            if is_cb:
                ref = self.iface_ref(('callback',))
                p.add(E('type', [('name', ref[1]), ('c:type', ref[2] + ('*' if out else ''))]))
            elif self.allow_varargs and self.p(0.3):
                p.add(E('varargs'))
                self.hit('param:varargs')
                ps.add(p)
                break
            else:
                p.add(self.gen_type(0, 'param', out))
            ps.add(p)
        return ps

    def gen_callable(self, tag, name, container=None, method_of=None, label=None, extra_attrs=()):
        a = [('name', name)]
        if tag != 'callback' and tag != 'glib:signal' and tag != 'virtual-method':
            a.append(('c:identifier', '%s_%s' % (self.ns.lower(), name) if container is None
                      else '%s_%s_%s' % (self.ns.lower(), container.lower(), name)))
        a.extend(extra_attrs)
        self.info_attrs(a, tag)
        if tag != 'glib:signal' and self.p(0.15):
            a.append(('throws', self.rng.choice(['1', '1', '0'])))
            self.hit('throws:' + tag)
        el = E(tag, a)
        self.docs(el)
        self.attributes(el, 0.2, tag)
        nparams = self.rng.choice([0, 0, 1, 1, 2, 3, 4, 6])
        if self.p(0.02):
            nparams = self.rng.randint(10, 40)
        self.hit('nparams=%s' % (nparams if nparams < 7 else 'many'))
        rv = self.gen_return(tag)
        if tag == 'constructor':
            # a constructor returns an instance of its container (g_typelib_validate insists on an interface type)
            rv.children = [c for c in rv.children if c.tag not in ('type', 'array')]
            rv.add(E('type', [('name', container), ('c:type', self.ns + container + '*')]))
        ps = self.gen_params(nparams, method_of)
        if self.p(0.5):
            el.add(rv)
            if nparams or method_of or self.p(0.3):
                el.add(ps)
        else:
            if nparams or method_of or self.p(0.3):
                el.add(ps)
            el.add(rv)
        return el

    # ---- top-level kinds
    def gen_function(self):
        name = self.fresh(self.rng.choice(['do', 'get', 'make', 'run']))
        extra = []
        if self.p(0.04):
            extra.append(('shadows', self.fresh('shadowed')))
            self.hit('function:shadows')
        if self.p(0.04):
            extra.append(('moved-to', 'other_name'))
        self.top.append(self.gen_callable('function', name, extra_attrs=extra))
        self.hit('top:function')

    def gen_hidden(self):
        """elements that are not API: non-introspectable, shadowed, macros, inline functions, doc sections"""
        k = self.rng.choice(['intro0', 'shadowed', 'macro', 'inline', 'docsection', 'intro0-class'])
        if k == 'intro0':
            self.allow_varargs = True
            el = self.gen_callable('function', self.fresh('hidden'), extra_attrs=[('introspectable', '0')])
            self.allow_varargs = False
        elif k == 'shadowed':
            el = self.gen_callable('function', self.fresh('shadowed_fn'), extra_attrs=[('shadowed-by', 'x')])
        elif k == 'macro':
            el = E('function-macro', [('name', self.fresh('MACRO')), ('c:identifier', 'FOO_MACRO'), ('introspectable', '0')],
                   [E('parameters', [], [E('parameter', [('name', 'a')])])])
        elif k == 'inline':
            el = E('function-inline', [('name', self.fresh('inl')), ('c:identifier', 'foo_inl')],
                   [E('return-value', [('transfer-ownership', 'none')], [E('type', [('name', 'none')])])])
        elif k == 'docsection':
            el = E('docsection', [('name', self.fresh('sec'))], [E('doc', [('xml:space', 'preserve'), ('filename', 'x'), ('line', '1')])])
        else:
            el = E('class', [('name', self.fresh('HiddenClass')), ('introspectable', '0'), ('glib:type-name', 'X'),
                             ('glib:get-type', 'x_get_type')], [E('field', [('name', 'f')], [E('type', [('name', 'gint')])])])
        self.top.append(el)
        self.hit('top:hidden:' + k)

    def gen_callback(self):
        name = self.fresh('Callback')
        extra = [('c:type', self.ns + name)] if self.p(0.8) else []
        self.top.append(self.gen_callable('callback', name, extra_attrs=extra))
        self.names['callback'].append(name)
        self.hit('top:callback')

    def gen_alias(self, kind=None):
        """kind: basic | iface | precord (a typedef of a `typedef struct _X *X` record) | chain (alias of an alias)"""
        name = self.fresh('Alias')
        if kind is None:
            kind = self.rng.choice(['basic', 'basic', 'basic', 'iface', 'iface', 'precord', 'precord', 'chain', 'chain'])
        known = [(None, a, k) for a, k in self.aliases]
        if self.dep:
            known += [(self.dep['ns'], a, k) for a, k in self.dep['names'].get('alias', [])]
        if kind == 'chain' and not known:
            kind = 'precord'
        if kind == 'basic':
            target = self.rng.choice(['gint32', 'utf8', 'guint64', 'gpointer', 'gdouble'])
        elif kind == 'chain':
            ans, al, akind = self.rng.choice(known)
            target = al if ans is None else '%s.%s' % (ans, al)
            kind = 'chain>' + akind.split('>')[-1]           # remembers what the chain ends in
        elif kind == 'precord':
            if not self.names['precord'] and not (self.dep and self.dep['names'].get('precord')):
                self.gen_record(force_pointer=True)
            target = self.iface_ref(('precord',))[1]
        else:
            ref = self.iface_ref(('class', 'record', 'enum', 'interface'))
            target = ref[1] if ref else 'gint32'
            kind = 'iface' if ref else 'basic'
        al = E('alias', [('name', name), ('c:type', self.ns + name)])
        self.docs(al)
        self.attributes(al, 0.2, 'alias')
        al.add(E('type', [('name', target), ('c:type', 'x')]))
        self.top.append(al)
        self.aliases.append((name, kind))
        self.hit('top:alias:' + kind + (':xns' if '.' in target else ''))

    def gen_field(self, container_kind, allow_callback):
        name = self.ident()
        a = [('name', name)]
        r = self.rng.random()
        if r < 0.2:
            a.append(('readable', '0'))
            a.append(('private', '1'))
            self.hit('field:readable=0')
        elif r < 0.3 and self.profile.get('readable1', True):
            a.append(('readable', '1'))
            self.hit('field:readable=1')
        if self.p(0.3):
            a.append(('writable', self.rng.choice(['1', '1', '0'])))
            self.hit('field:writable')
        bits = None
        if self.p(0.12):
            bits = self.rng.choice([1, 2, 3, 7, 8, 31])
            a.append(('bits', str(bits)))
            self.hit('field:bits')
        if self.p(0.03):
            a.append(('introspectable', '0'))
            self.hit('field:introspectable=0')
        f = E('field', a)
        self.docs(f)
        self.attributes(f, 0.1, 'field')
        if allow_callback and self.p(0.2) and bits is None:
            cb = self.gen_callable('callback', name)
            f.add(cb)
            self.hit('field:callback:' + container_kind)
        elif bits is not None:
            f.add(E('type', [('name', 'guint'), ('c:type', 'guint')]))
        else:
            t = self.gen_field_type()
            f.add(t)
        return name, f

    def gen_field_type(self):
        # by-value references must not form cycles: only pointers to named types, except enums
        t = self.gen_type(1, 'field')
        return t

    def unique_members(self, n, make):
        used = set()
        out = []
        for _ in range(n):
            name, el = make()
            if name in used:
                continue
            used.add(name)
            out.append(el)
        return out

    def count(self):
        return self.rng.choice([0, 0, 1, 1, 1, 2, 3, 5])

    def gen_methods(self, el, container, kinds=('method', 'constructor', 'function')):
        names = []
        for _ in range(self.count()):
            tag = self.rng.choice(kinds)
            name = self.fresh(self.rng.choice(['new', 'get_x', 'set_x', 'frob', 'ref']))
            el.add(self.gen_callable(tag, name, container=container,
                                     method_of=container if tag == 'method' else None))
            names.append((tag, name))
            self.hit('member:' + tag)
        return names

    def gtype_attrs(self, a, name, rate):
        if self.p(rate):
            a.append(('glib:type-name', self.ns + name))
            a.append(('glib:get-type', '%s_%s_get_type' % (self.ns.lower(), name.lower())))
            return True
        return False

    def gen_record(self, gtype_struct_for=None, name=None, force_pointer=False):
        name = name or self.fresh('Rec')
        a = [('name', name)]
        if self.p(0.8):
            a.append(('c:type', self.ns + name))
        self.info_attrs(a, 'record')
        self.gtype_attrs(a, name, 0.3)
        if gtype_struct_for:
            a.append(('glib:is-gtype-struct-for', gtype_struct_for))
            self.hit('record:gtype-struct')
        if self.p(0.08):
            a.append(('foreign', self.rng.choice(['1', '1', '0'])))
            self.hit('record:foreign')
        ptr = False
        if force_pointer or self.p(0.06):
            a.append((self.rng.choice(['disguised', 'pointer']), '1'))
            ptr = True
            self.hit('record:pointer/disguised')
        if self.p(0.05):
            a.append(('opaque', '1'))
        if self.p(0.15):
            a.append(('copy-function', '%s_%s_copy' % (self.ns.lower(), name.lower())))
            self.hit('record:copy-function')
        if self.p(0.15):
            a.append(('free-function', '%s_%s_free' % (self.ns.lower(), name.lower())))
            self.hit('record:free-function')
        el = E('record', a)
        self.docs(el)
        self.attributes(el, 0.2, 'record')
        nf = self.count()
        for f in self.unique_members(nf, lambda: self.gen_field('record', True)):
            el.add(f)
        self.hit('record:nfields=%d' % min(nf, 3))
        self.gen_methods(el, name)
        self.top.append(el)
        self.names['precord' if ptr else 'record'].append(name)
        self.hit('top:record')
        return name

    def gen_union(self):
        name = self.fresh('Uni')
        a = [('name', name), ('c:type', self.ns + name)]
        self.info_attrs(a, 'union')
        self.gtype_attrs(a, name, 0.3)
        if self.p(0.15):
            a.append(('copy-function', 'u_copy'))
        if self.p(0.15):
            a.append(('free-function', 'u_free'))
        el = E('union', a)
        self.docs(el)
        self.attributes(el, 0.2, 'union')
        fields = self.unique_members(self.count(), lambda: self.gen_field('union', True))
        for f in fields:
            el.add(f)
        self.gen_methods(el, name)
        self.top.append(el)
        self.names['union'].append(name)
        self.hit('top:union')

    def gen_boxed(self):
        name = self.fresh('Boxed')
        a = [('glib:name', name), ('glib:type-name', self.ns + name), ('glib:get-type', 'boxed_get_type')]
        self.info_attrs(a, 'boxed')
        el = E('glib:boxed', a)
        self.attributes(el, 0.2, 'boxed')
        self.gen_methods(el, name, kinds=('function', 'function', 'method', 'constructor'))
        self.top.append(el)
        self.names['boxed'].append(name)
        self.hit('top:boxed')

    def gen_enum(self):
        flags = self.p(0.4)
        name = self.fresh('Flags' if flags else 'Enum')
        a = [('name', name), ('c:type', self.ns + name)]
        self.info_attrs(a, 'enum')
        self.gtype_attrs(a, name, 0.5)
        if not flags and self.p(0.2):
            a.append(('glib:error-domain', '%s-%s-quark' % (self.ns.lower(), name.lower())))
            self.hit('enum:error-domain')
        el = E('bitfield' if flags else 'enumeration', a)
        self.docs(el)
        self.attributes(el, 0.2, 'enum')
        n = self.rng.choice([0, 1, 2, 3, 5, 9])
        self.hit('enum:nvalues=%d' % min(n, 3))
        for i in range(n):
            r = self.rng.random()
            if flags:
                v = self.rng.choice([0, 1 << i, 1 << self.rng.randint(0, 31), 0xFFFFFFFF, 0x80000000])
            elif r < 0.6:
                v = i
            elif r < 0.75:
                v = -self.rng.randint(1, 1000)
            else:
                v = self.rng.choice([-2147483648, 2147483647, 2147483648, 4294967295, -1, 255, 256, 65535, 65536, -129])
            if v < 0:
                self.hit('value:negative')
            elif v >= 2 ** 31:
                self.hit('value:>=2^31')
            ma = [('name', 'v%d' % i), ('value', str(v)), ('c:identifier', '%s_%s_V%d' % (self.ns.upper(), name.upper(), i))]
            if self.p(0.2):
                ma.append(('glib:nick', 'v%d' % i))
            self.info_attrs(ma, 'member')
            if self.p(0.08) and not any(k == 'introspectable' for k, _v in ma):
                ma.append(('introspectable', '0'))      # a (skip)ped member, anywhere in the list
                self.hit('member:introspectable=0')
            m = E('member', ma)
            self.docs(m)
            self.attributes(m, 0.08, 'member')
            el.add(m)
        for _ in range(self.rng.choice([0, 0, 0, 1, 2])):
            el.add(self.gen_callable('function', self.fresh('from_x'), container=name))
            self.hit('enum:function')
        self.top.append(el)
        self.names['flags' if flags else 'enum'].append(name)
        self.hit('top:' + ('bitfield' if flags else 'enumeration'))

    def gen_constant_el(self, name):
        kind = self.rng.choice(['int', 'int', 'uint', 'bool', 'float', 'double', 'utf8', 'utf8', 'filename', 'alias-int'])
        if kind in ('int', 'uint', 'alias-int'):
            if kind == 'alias-int':
                tname = self.rng.choice(['gint', 'guint', 'glong', 'gulong', 'gsize', 'gssize', 'gchar', 'guchar', 'gshort', 'gushort'])
            elif kind == 'int':
                tname = self.rng.choice(['gint8', 'gint16', 'gint32', 'gint64'])
            else:
                tname = self.rng.choice(['guint8', 'guint16', 'guint32', 'guint64'])
            lo, hi, _n = INT_RANGE[BASIC[tname][0]]
            v = str(self.rng.choice([lo, hi, 0, 1, min(hi, 42), max(lo, -7) if lo < 0 else 7,
                                     self.rng.randint(lo, hi)]))
        elif kind == 'bool':
            tname, v = 'gboolean', self.rng.choice(['true', 'false'])
        elif kind in ('float', 'double'):
            tname = 'gfloat' if kind == 'float' else 'gdouble'
            v = self.rng.choice(['0.000000', '1.500000', '-2.250000', '3.141593', '1e10', '-0.0', '123456.789'])
        else:
            tname = kind
            v = self.rng.choice(['', 'hello', 'a b c', 'ünï', 'x' * 3, 'y' * 4, 'z' * 257, '/usr/share', 'q"uote&<>'])
        self.hit('constant:' + tname)
        a = [('name', name), ('value', v)]
        if self.p(0.6):
            a.append(('c:type', self.ns.upper() + '_' + name))
        self.info_attrs(a, 'constant')
        c = E('constant', a)
        self.docs(c)
        return c, tname

    def gen_constant(self):
        name = self.fresh('CONST_')
        c, tname = self.gen_constant_el(name)
        self.attributes(c, 0.15, 'constant')
        c.add(E('type', [('name', tname), ('c:type', tname)]))
        self.top.append(c)
        self.hit('top:constant')

    def gen_iface_members(self, el, name, is_class):
        # properties
        props = []
        for _ in range(self.count()):
            pn = self.fresh('prop-')
            props.append(pn)
        methods = self.gen_methods(el, name, kinds=('method', 'method', 'function', 'constructor') if is_class
                                   else ('method', 'method', 'function'))
        mnames = [m[1] for m in methods if m[0] == 'method']
        # accessor links: method -> property
        linked = {}
        for c in el.children:
            if c.tag == 'method' and props and self.p(0.3):
                which = self.rng.choice(['glib:set-property', 'glib:get-property'])
                c.attrs.append((which, self.rng.choice(props)))
                self.hit('method:' + which)
            elif c.tag == 'method' and self.p(0.03):
                c.attrs.append((self.rng.choice(['glib:set-property', 'glib:get-property']), 'no-such-property'))
                self.hit('method:accessor-of-missing-property')
        for pn in props:
            a = [('name', pn)]
            self.info_attrs(a, 'property')
            if self.p(0.1) and not any(k == 'introspectable' for k, _v in a):
                a.append(('introspectable', '0'))       # its accessors keep their glib:get/set-property link
                self.hit('property:introspectable=0')
            r = self.rng.random()
            if r < 0.2:
                a.append(('readable', '0'))
            elif r < 0.3:
                a.append(('readable', '1'))
            if self.p(0.5):
                a.append(('writable', self.rng.choice(['1', '1', '0'])))
            if self.p(0.25):
                a.append(('construct', self.rng.choice(['1', '1', '0'])))
            if self.p(0.2):
                a.append(('construct-only', self.rng.choice(['1', '1', '0'])))
            if self.p(0.7):
                a.append(('transfer-ownership', self.rng.choice(['none', 'none', 'full', 'container'])))
            if mnames and self.p(0.3):
                a.append(('setter', self.rng.choice(mnames)))
                self.hit('property:setter')
            if mnames and self.p(0.3):
                a.append(('getter', self.rng.choice(mnames)))
                self.hit('property:getter')
            if self.p(0.1):
                a.append(('default-value', 'NULL'))
            p = E('property', a)
            self.docs(p)
            self.attributes(p, 0.1, 'property')
            p.add(self.gen_type(1, 'property'))
            el.add(p)
            self.hit('member:property')
        for _ in range(self.count()):
            sn = self.fresh('sig-')
            extra = []
            if self.p(0.6):
                extra.append(('when', self.rng.choice(['first', 'last', 'cleanup'])))
            elif self.p(0.15):
                # what a dump can contain besides a run phase, other spellings, an empty value
                extra.append(('when', self.rng.choice(['must-collect', 'FIRST', 'Cleanup', 'LAST', 'no-recurse', ''])))
                self.hit('signal:when=' + extra[-1][1])
            for k in ('no-recurse', 'detailed', 'action', 'no-hooks'):
                if self.p(0.2):
                    extra.append((k, self.rng.choice(['1', '1', '0'])))
            if self.p(0.1):
                extra.append(('emitter', 'emit_it'))
            el.add(self.gen_callable('glib:signal', sn, extra_attrs=extra))
            self.hit('member:signal')
        for _ in range(self.count()):
            vn = self.fresh('vfunc_')
            extra = []
            if mnames and self.p(0.4):
                extra.append(('invoker', self.rng.choice(mnames)))
                self.hit('vfunc:invoker')
            el.add(self.gen_callable('virtual-method', vn, method_of=name, extra_attrs=extra))
            self.hit('member:vfunc')
        for _ in range(self.rng.choice([0, 0, 1, 2])):
            c, tname = self.gen_constant_el(self.fresh('CC_'))
            self.attributes(c, 0.1, 'class-constant')
            c.add(E('type', [('name', tname)]))
            el.add(c)
            self.hit('member:constant')

    def gen_interface(self):
        name = self.fresh('Iface')
        a = [('name', name), ('glib:type-name', self.ns + name),
             ('glib:get-type', '%s_%s_get_type' % (self.ns.lower(), name.lower()))]
        if self.p(0.7):
            a.append(('c:type', self.ns + name))
            a.append(('c:symbol-prefix', name.lower()))
        self.info_attrs(a, 'interface')
        ts = None
        if self.p(0.3):
            ts = name + 'Iface'
            a.append(('glib:type-struct', ts))
            self.hit('interface:type-struct')
        el = E('interface', a)
        self.docs(el)
        self.attributes(el, 0.2, 'interface')
        cands = list(self.names['interface']) + list(self.names['class'])
        if self.dep:
            cands += ['%s.%s' % (self.dep['ns'], n) for n in self.dep['names'].get('interface', []) + self.dep['names'].get('class', [])]
        k = self.rng.choice([0, 0, 1, 1, 2, 3, 5])
        for pr in self.rng.sample(cands, min(k, len(cands))):
            el.add(E('prerequisite', [('name', pr)]))
        self.hit('interface:nprereq=%d' % min(k, len(cands)))
        self.gen_iface_members(el, name, False)
        self.top.append(el)
        self.names['interface'].append(name)
        self.hit('top:interface')
        if ts:
            self.gen_record(gtype_struct_for=name, name=ts)

    def gen_class(self):
        name = self.fresh('Obj')
        a = [('name', name), ('glib:type-name', self.ns + name),
             ('glib:get-type', '%s_%s_get_type' % (self.ns.lower(), name.lower()))]
        if self.p(0.7):
            a.append(('c:type', self.ns + name))
            a.append(('c:symbol-prefix', name.lower()))
        self.info_attrs(a, 'class')
        parents = list(self.names['class'])
        if self.dep:
            parents += ['%s.%s' % (self.dep['ns'], n) for n in self.dep['names'].get('class', [])]
        if parents and self.p(0.8):
            a.append(('parent', self.rng.choice(parents)))
            self.hit('class:parent' + (':xns' if '.' in a[-1][1] else ''))
        ts = None
        if self.p(0.4):
            ts = name + 'Class'
            a.append(('glib:type-struct', ts))
            self.hit('class:type-struct')
        if self.p(0.2):
            a.append(('abstract', self.rng.choice(['1', '1', '0'])))
            self.hit('class:abstract')
        if self.p(0.1):
            a.append(('final', self.rng.choice(['1', '1', '0'])))
            self.hit('class:final')
        if self.p(0.12):
            fv = '1' if self.p(0.85) or not self.profile.get('deprecated0', True) else '0'
            a.append(('glib:fundamental', fv))
            self.hit('class:fundamental=' + fv)
            for k in ('glib:ref-func', 'glib:unref-func', 'glib:set-value-func', 'glib:get-value-func'):
                if self.p(0.7):
                    a.append((k, '%s_%s_%s' % (self.ns.lower(), name.lower(), k.split(':')[1].replace('-', '_'))))
        el = E('class', a)
        self.docs(el)
        self.attributes(el, 0.2, 'class')
        ifs = list(self.names['interface'])
        if self.dep:
            ifs += ['%s.%s' % (self.dep['ns'], n) for n in self.dep['names'].get('interface', [])]
        k = self.rng.choice([0, 0, 1, 1, 2, 3, 4, 5])
        chosen = self.rng.sample(ifs, min(k, len(ifs)))
        for i in chosen:
            el.add(E('implements', [('name', i)]))
        self.hit('class:nifaces=%d' % len(chosen))
        for f in self.unique_members(self.count(), lambda: self.gen_field('class', True)):
            el.add(f)
        self.gen_iface_members(el, name, True)
        if self.p(0.5):
            self.rng.shuffle(el.children)          # member kinds interleaved in document order
            self.hit('class:shuffled-members')
        self.top.append(el)
        self.names['class'].append(name)
        self.hit('top:class')
        if ts:
            self.gen_record(gtype_struct_for=name, name=ts)

    KINDS = ['function', 'function', 'callback', 'record', 'record', 'union', 'boxed', 'enum', 'enum', 'constant',
             'constant', 'class', 'class', 'interface', 'alias', 'alias', 'hidden']

    def build(self, n_top, shared_library='default', kinds=None):
        kinds = kinds or self.KINDS
        for _ in range(n_top):
            k = self.rng.choice(kinds)
            getattr(self, 'gen_' + k)()
        a = [('name', self.ns), ('version', self.version)]
        if shared_library == 'default':
            r = self.rng.random()
            if r < 0.6:
                a.append(('shared-library', 'lib%s.so.0' % self.ns.lower()))
            elif r < 0.8:
                a.append(('shared-library', 'liba.so.1,libb-2.0.so.0,' + 'libverylongname' * 8 + '.so'))
            elif r < 0.85:
                a.append(('shared-library', ''))
        elif shared_library is not None:
            a.append(('shared-library', shared_library))
        r = self.rng.random()
        if r < 0.7:
            a.append(('c:identifier-prefixes', self.ns))
            a.append(('c:symbol-prefixes', self.ns.lower()))
        elif r < 0.85:
            a.append(('c:prefix', self.ns))
        nsel = E('namespace', a, self.top)
        self.reorder_attributes(nsel)
        return nsel

    AFTER_TYPE_TAGS = ('parameter', 'return-value', 'field', 'property', 'constant')

    def reorder_attributes(self, el):
        """now and then the <attribute> children of a parameter / return value / field / property / constant are
        written AFTER its type (or callback) child -- valid by the schema (the children are interleaved), though
        the scanner writes them first"""
        for c in el.children:
            self.reorder_attributes(c)
        if el.tag in self.AFTER_TYPE_TAGS:
            at = [c for c in el.children if c.tag == 'attribute']
            ty = [i for i, c in enumerate(el.children) if c.tag in ('type', 'array', 'callback')]
            if at and ty and self.p(0.025):
                moved = at if self.p(0.6) else at[len(at) // 2:]
                rest = [c for c in el.children if not any(c is m for m in moved)]
                k = max(i for i, c in enumerate(rest) if c.tag in ('type', 'array', 'callback')) + 1
                el.children = rest[:k] + moved + rest[k:]
                self.hit('attributes:after-type:' + el.tag)

    def describe(self):
        names = {k: list(v) for k, v in self.names.items()}
        names['alias'] = [list(a) for a in self.aliases]
        return {'ns': self.ns, 'version': self.version, 'names': names}

# =====================================================================================
# part 2: running the real compiler, the Lean decoder, the C readers; comparison; checks
# =====================================================================================
import base64
import concurrent.futures
import hashlib
import json
import os
import re
import subprocess
import sys

from core import REPO, VERIF, Counter, HarnessError

PENDING_FINDINGS = {
    # key -> what.  Each key names a CLASS of inputs recognised by the classifier (explain_with_quirks): the decoded API
    # must equal the schema API with exactly that named deviation applied; any other difference is a VIOLATION.
    # (the keys are listed in /verif/known_findings.json; see the final report of this check for replay and patch)
    key: what for key, what in QUIRKS.values()
}

TRANSFER = {(False, False): 'none', (False, True): 'container', (True, False): 'full', (True, True): 'full+container'}


def load_enum_tables(ctx):
    """tag / blob type numbering from the table the translator regenerated this run"""
    path = os.path.join(VERIF, 'lean', 'GIVerif', 'Gen', 'TypelibLayout.lean')
    with open(path, encoding='utf-8') as f:
        text = f.read()
    tabs = {}
    for en, name, val in re.findall(r'\("(\w+)", "(\w+)", (\d+)\)', text):
        tabs.setdefault(en, {})[int(val)] = name
    tags = {v: n[len('GI_TYPE_TAG_'):].lower() for v, n in tabs.get('GITypeTag', {}).items()}
    blobs = {v: n[len('BLOB_TYPE_'):].lower() for v, n in tabs.get('GTypelibBlobType', {}).items()}
    if len(tags) < 20 or len(blobs) < 10:
        ctx.broken.append('Gen/TypelibLayout.lean no longer lists GITypeTag / GTypelibBlobType enumerators')
    return tags, blobs


def section_ids():
    """SectionType numbering from the regenerated table (GI_SECTION_DIRECTORY_INDEX is 1 in the published format)"""
    path = os.path.join(VERIF, 'lean', 'GIVerif', 'Gen', 'TypelibLayout.lean')
    with open(path, encoding='utf-8') as f:
        text = f.read()
    return {name: int(val) for name, val in re.findall(r'\("SectionType", "(\w+)", (\d+)\)', text)}


# ------------------------------------------------------------------ decoded -> canonical
class Canon(object):
    def __init__(self, raw, tags, blobs):
        self.raw = raw
        self.tags = tags
        self.blobs = blobs
        self.ns = raw['strings']['namespace']

    def name_ref(self, s):
        if s is None:
            return None
        if isinstance(s, str) and s.startswith(self.ns + '.'):
            return s[len(self.ns) + 1:]
        return s

    def attrs(self, a):
        return sorted([k, v] for k, v in a)

    def type(self, t):
        tag = self.tags.get(t['tag'], 'tag%d' % t['tag'])
        if t['blob'] == 'SimpleTypeBlob':
            return {'tag': tag, 'pointer': t['pointer']}
        if t['blob'] == 'ArrayTypeBlob':
            return {'tag': tag, 'array_type': t['array_type'], 'pointer': t['pointer'], 'elem': self.type(t['elem']),
                    'has_length': t['has_length'], 'has_size': t['has_size'], 'zero_terminated': t['zero_terminated'],
                    'dimension': t['dimension']}
        if t['blob'] == 'InterfaceTypeBlob':
            return {'tag': tag, 'pointer': t['pointer'], 'name': self.name_ref(t['iface'])}
        if t['blob'] == 'ParamTypeBlob':
            return {'tag': tag, 'pointer': t['pointer'], 'params': [self.type(p) for p in t['params']]}
        if t['blob'] == 'ErrorTypeBlob':
            return {'tag': tag, 'pointer': t['pointer']}
        return {'tag': 'unknown:' + t['blob']}

    def transfer(self, full, container):
        return TRANSFER[(bool(full), bool(container))]

    def arg(self, a):
        return {'name': a['name'], 'in': a['in'], 'out': a['out'], 'caller_allocates': a['caller_allocates'],
                'nullable': a['nullable'], 'optional': a['optional'], 'skip': a['skip'],
                'transfer': self.transfer(a['transfer_ownership'], a['transfer_container_ownership']),
                'scope': a['scope'], 'closure': a['closure'], 'destroy': a['destroy'], 'type': self.type(a['type']),
                'attrs': self.attrs(a['attributes'])}

    def sig(self, s):
        return {'ret': self.type(s['return_type']), 'may_return_null': s['may_return_null'],
                'transfer': self.transfer(s['caller_owns_return_value'], s['caller_owns_return_container']),
                'skip_return': s['skip_return'], 'ret_attrs': self.attrs(s['return_attributes']),
                'instance_transfer': s['instance_transfer_ownership'], 'throws': s['throws'],
                'args': [self.arg(a) for a in s['arguments']]}

    def function(self, f, props=None):
        d = {'kind': 'function', 'name': f['name'], 'symbol': f['symbol'], 'deprecated': f['deprecated'],
             'throws': f['throws'], 'is_static': f['is_static'], 'constructor': f['constructor'],
             'setter': f['setter'], 'getter': f['getter'], 'prop': None, 'attrs': self.attrs(f['attributes']),
             'sig': self.sig(f['signature'])}
        if f['setter'] or f['getter']:
            i = f['index']
            d['prop'] = props[i]['name'] if props is not None and i < len(props) else 'index:%d' % i
        elif f['index'] != 0:
            d['prop'] = 'index:%d' % f['index']
        return d

    def callback(self, c):
        return {'kind': 'callback', 'name': c['name'], 'deprecated': c['deprecated'], 'attrs': self.attrs(c['attributes']),
                'sig': self.sig(c['signature'])}

    def field(self, f):
        d = {'name': f['name'], 'readable': f['readable'], 'writable': f['writable'], 'bits': f['bits'],
             'attrs': self.attrs(f['attributes'])}
        if 'callback' in f:
            d['callback'] = self.callback(f['callback'])
        else:
            d['type'] = self.type(f['type'])
        return d

    def registered(self, n, d):
        d['gtype_name'] = n['gtype_name']
        d['gtype_init'] = n['gtype_init']

    def struct(self, n, kind):
        d = {'kind': kind, 'name': n['name'], 'deprecated': n['deprecated'], 'is_gtype_struct': n['is_gtype_struct'],
             'foreign': n['foreign'], 'copy_func': n['copy_func'], 'free_func': n['free_func'],
             'unregistered': n['unregistered']}
        self.registered(n, d)
        d['fields'] = [self.field(f) for f in n['fields']]
        d['methods'] = [self.function(m) for m in n['methods']]
        d['attrs'] = self.attrs(n['attributes'])
        return d

    def union(self, n):
        d = {'kind': 'union', 'name': n['name'], 'deprecated': n['deprecated'], 'copy_func': n['copy_func'],
             'free_func': n['free_func'], 'unregistered': n['unregistered']}
        self.registered(n, d)
        d['fields'] = [self.field(f) for f in n['fields']]
        d['methods'] = [self.function(m) for m in n['methods']]
        d['attrs'] = self.attrs(n['attributes'])
        return d

    def enum(self, n, kind):
        d = {'kind': kind, 'name': n['name'], 'deprecated': n['deprecated'], 'error_domain': n['error_domain'],
             'unregistered': n['unregistered']}
        self.registered(n, d)
        d['values'] = [{'name': v['name'], 'value': v['value'], 'deprecated': v['deprecated'],
                        'attrs': self.attrs(v['attributes'])} for v in n['values']]
        d['methods'] = [self.function(m) for m in n['methods']]
        d['attrs'] = self.attrs(n['attributes'])
        return d

    def constant(self, n):
        return {'kind': 'constant', 'name': n['name'], 'deprecated': n['deprecated'], 'type': self.type(n['type']),
                'value_bytes': n['value_bytes'], 'attrs': self.attrs(n['attributes'])}

    def prop(self, p, methods):
        def acc(i):
            if i == 0x3ff:
                return None
            return methods[i]['name'] if i < len(methods) else 'index:%d' % i
        return {'name': p['name'], 'deprecated': p['deprecated'], 'readable': p['readable'], 'writable': p['writable'],
                'construct': p['construct'], 'construct_only': p['construct_only'],
                'transfer': self.transfer(p['transfer_ownership'], p['transfer_container_ownership']),
                'setter': acc(p['setter']), 'getter': acc(p['getter']), 'type': self.type(p['type']),
                'attrs': self.attrs(p['attributes'])}

    def signal(self, s):
        return {'name': s['name'], 'deprecated': s['deprecated'], 'run_first': s['run_first'], 'run_last': s['run_last'],
                'run_cleanup': s['run_cleanup'], 'no_recurse': s['no_recurse'], 'detailed': s['detailed'],
                'action': s['action'], 'no_hooks': s['no_hooks'], 'attrs': self.attrs(s['attributes']),
                'sig': self.sig(s['signature'])}

    def vfunc(self, v, methods):
        i = v['invoker']
        inv = None if i == 0x3ff else (methods[i]['name'] if i < len(methods) else 'index:%d' % i)
        return {'name': v['name'], 'throws': v['throws'], 'invoker': inv, 'attrs': self.attrs(v['attributes']),
                'sig': self.sig(v['signature'])}

    def iface_members(self, n, d):
        d['properties'] = [self.prop(p, n['methods']) for p in n['properties']]
        d['methods'] = [self.function(m, n['properties']) for m in n['methods']]
        d['signals'] = [self.signal(s) for s in n['signals']]
        d['vfuncs'] = [self.vfunc(v, n['methods']) for v in n['vfuncs']]
        d['constants'] = [self.constant(c) for c in n['constants']]

    def object(self, n):
        d = {'kind': 'object', 'name': n['name'], 'deprecated': n['deprecated'], 'abstract': n['abstract'],
             'final': n['final_'], 'fundamental': n['fundamental'], 'parent': self.name_ref(n['parent_name']),
             'gtype_struct': self.name_ref(n['gtype_struct_name']), 'ref_func': n['ref_func'],
             'unref_func': n['unref_func'], 'set_value_func': n['set_value_func'], 'get_value_func': n['get_value_func']}
        self.registered(n, d)
        d['interfaces'] = [self.name_ref(i['name']) for i in n['interfaces']]
        d['fields'] = [self.field(f) for f in n['fields']]
        self.iface_members(n, d)
        d['attrs'] = self.attrs(n['attributes'])
        return d

    def interface(self, n):
        d = {'kind': 'interface', 'name': n['name'], 'deprecated': n['deprecated'],
             'gtype_struct': self.name_ref(n['gtype_struct_name'])}
        self.registered(n, d)
        d['prerequisites'] = [self.name_ref(i['name']) for i in n['prerequisites']]
        self.iface_members(n, d)
        d['attrs'] = self.attrs(n['attributes'])
        return d

    def api(self):
        raw = self.raw
        entries, xrefs, own = [], [], []
        for e in raw['entries']:
            if not e['local']:
                if e['namespace'] != self.ns:
                    xrefs.append('%s.%s' % (e['namespace'], e['name']))
                else:
                    own.append(e['name'])
                continue
            n = e['node']
            k = self.blobs.get(e['blob_type'], 'type%d' % e['blob_type'])
            if k == 'function':
                entries.append(self.function(n))
            elif k == 'callback':
                entries.append(self.callback(n))
            elif k in ('struct', 'boxed'):
                entries.append(self.struct(n, k))
            elif k == 'union':
                entries.append(self.union(n))
            elif k in ('enum', 'flags'):
                entries.append(self.enum(n, k))
            elif k == 'object':
                entries.append(self.object(n))
            elif k == 'interface':
                entries.append(self.interface(n))
            elif k == 'constant':
                entries.append(self.constant(n))
            else:
                entries.append({'kind': k, 'name': e['name']})
            if e['name'] != n.get('name'):
                entries[-1]['dir_name'] = e['name']
        deps = raw['strings']['dependencies']
        return {'namespace': raw['strings']['namespace'], 'nsversion': raw['strings']['nsversion'],
                'shared_library': raw['strings']['shared_library'], 'c_prefix': raw['strings']['c_prefix'],
                'dependencies': sorted(deps.split('|')) if deps else [], 'entries': entries, 'xrefs': sorted(xrefs),
                'own_namespace_xrefs': sorted(own)}


def diff(a, b, path='', out=None, limit=12):
    """differences expected(a) vs decoded(b) as 'path: expected X got Y'"""
    if out is None:
        out = []
    if len(out) >= limit:
        return out
    if isinstance(a, dict) and isinstance(b, dict):
        for k in sorted(set(a) | set(b)):
            if k not in a:
                out.append('%s.%s: unexpected %r' % (path, k, b[k]))
            elif k not in b:
                out.append('%s.%s: missing (expected %r)' % (path, k, a[k]))
            else:
                diff(a[k], b[k], '%s.%s' % (path, k), out, limit)
    elif isinstance(a, list) and isinstance(b, list) and not (a and not isinstance(a[0], (dict, list))) \
            and not (b and not isinstance(b[0], (dict, list))):
        if len(a) != len(b):
            out.append('%s: expected %d items %s got %d %s' % (path, len(a), _names(a), len(b), _names(b)))
        for i, (x, y) in enumerate(zip(a, b)):
            label = x.get('name', i) if isinstance(x, dict) else i
            diff(x, y, '%s[%s]' % (path, label), out, limit)
    elif a != b:
        out.append('%s: expected %r got %r' % (path, _short(a), _short(b)))
    return out


def _names(l):
    return [x.get('name') if isinstance(x, dict) else x for x in l][:8]


def _short(x):
    s = repr(x)
    return x if len(s) < 200 else s[:200] + '...'


# ------------------------------------------------------------------ structural checks on the raw decode
def walk_nodes(x, out):
    if isinstance(x, dict):
        if 'blob' in x and 'at' in x:
            out.append(x)
        for v in x.values():
            walk_nodes(v, out)
    elif isinstance(x, list):
        for v in x:
            walk_nodes(v, out)


ZERO_FIELDS = ('reserved', 'reserved2', 'reserved3', 'reserved4', 'padding')


def structural_problems(raw, data, sizes):
    """'header blob sizes and section offsets agree with the format, all offsets aligned and inside the file'"""
    probs = []
    h = raw['header']
    n = len(data)
    if h['size'] != n:
        probs.append('header.size %d differs from the file size %d' % (h['size'], n))
    for member, struct in sizes['header_members'].items():
        if h.get(member) != sizes['sizeof'].get(struct):
            probs.append('header.%s = %r, sizeof (%s) = %r' % (member, h.get(member), struct, sizes['sizeof'].get(struct)))
    if h.get('error_domain_blob_size') != 16:
        probs.append('header.error_domain_blob_size = %r, the format keeps the constant 16 there' % h.get('error_domain_blob_size'))
    for k in ('directory', 'attributes', 'sections'):
        if h[k] % 4 or h[k] > n:
            probs.append('header.%s = %d is not 4-aligned inside the file' % (k, h[k]))
    for k in ('dependencies', 'namespace', 'nsversion', 'shared_library', 'c_prefix'):
        if h[k] >= n or h[k] % 4:
            probs.append('header.%s = %d is not an aligned offset inside the file' % (k, h[k]))
    if h['directory'] + h['n_entries'] * h['entry_blob_size'] > n:
        probs.append('directory runs past the end of the file')
    if h['attributes'] + h['n_attributes'] * h['attribute_blob_size'] > n:
        probs.append('attribute table runs past the end of the file')
    if h['major_version'] != sizes['major'] or h['minor_version'] != 0:
        probs.append('format version %d.%d' % (h['major_version'], h['minor_version']))
    if any(raw['padding']):
        probs.append('header padding is not zero')
    locs = [e['local'] for e in raw['entries']]
    nl = sum(1 for x in locs if x)
    if nl != h['n_local_entries'] or locs != [True] * nl + [False] * (len(locs) - nl):
        probs.append('n_local_entries %d but local flags %r' % (h['n_local_entries'], locs[:20]))
    for s in raw['sections']:
        if s['offset'] % 4 or s['offset'] >= n or s['offset'] < h['attributes'] + h['n_attributes'] * h['attribute_blob_size']:
            probs.append('section %d offset %d not aligned / not after the attributes / outside the file' % (s['id'], s['offset']))
    nodes = []
    walk_nodes(raw['entries'], nodes)
    for x in nodes:
        if x['at'] % 4 or x['at'] >= n:
            probs.append('%s at %d is not 4-aligned inside the file' % (x['blob'], x['at']))
        for z in ZERO_FIELDS:
            if x.get(z):
                probs.append('%s at %d: %s = %r is not zero' % (x['blob'], x['at'], z, x[z]))
        if 'end' in x and x['end'] > n:
            probs.append('%s at %d extends to %d past the end' % (x['blob'], x['at'], x['end']))
    # directory entry blobs do not overlap each other
    spans = sorted((e['node']['at'], e['node'].get('end', e['node']['at']), e['name']) for e in raw['entries'] if e['local'])
    for (a0, a1, an), (b0, b1, bn) in zip(spans, spans[1:]):
        if a1 > b0:
            probs.append('blob of %s [%d,%d) overlaps blob of %s starting at %d' % (an, a0, a1, bn, b0))
    offs = [a[0] for a in raw['attribute_table']]
    if offs != sorted(offs):
        probs.append('attribute table is not sorted by offset')
    known = set(x['at'] for x in nodes)
    for o in offs:
        if o not in known:
            probs.append('attribute refers to offset %d where no decoded blob starts' % o)
    return probs[:10]


# ------------------------------------------------------------------ C side
C_FIELDS_TEMPLATE = r'''
#include <stdio.h>
#include <stdlib.h>
#include <string.h>
#include <girepository.h>
#include "gitypelib-internal.h"
static unsigned char *data; static size_t len;
%(funcs)s
int main (int argc, char **argv)
{
  char line[4096]; char sname[256]; char path[3900]; unsigned long off;
  while (fgets (line, sizeof line, stdin))
    {
      if (line[0] == 'F')
        {
          FILE *f; long n;
          sscanf (line, "F %%3899s", path);
          free (data); data = NULL; len = 0;
          f = fopen (path, "rb"); if (!f) { printf ("NOFILE\n"); continue; }
          fseek (f, 0, SEEK_END); n = ftell (f); fseek (f, 0, SEEK_SET);
          data = malloc (n + 64); memset (data, 0, n + 64); len = fread (data, 1, n, f); fclose (f);
          continue;
        }
      if (sscanf (line, "S %%255s %%lu", sname, &off) != 2) { printf ("BAD\n"); continue; }
%(dispatch)s
      printf ("UNKNOWN\n");
    }
  return 0;
}
'''


def build_c_fields(ctx, cb, layouts):
    """a C program that reads every member of a blob through /repo's own struct definitions"""
    funcs, dispatch = [], []
    for s, lay in layouts.items():
        if not lay['fields']:
            continue
        body = ['static void dump_%s (unsigned long off) {' % s,
                '  %s *b; if (off + sizeof (%s) > len) { printf ("OOB\\n"); return; }' % (s, s),
                '  b = (%s *) (data + off);' % s]
        for name, _first, width in lay['fields']:
            mask = (1 << width) - 1
            body.append('  printf ("%%llu ", ((unsigned long long) b->%s) & 0x%xULL);' % (name, mask))
        body.append('  printf ("\\n"); }')
        funcs.append('\n'.join(body))
        dispatch.append('      if (strcmp (sname, "%s") == 0) { dump_%s (off); continue; }' % (s, s))
    src = C_FIELDS_TEMPLATE % {'funcs': '\n'.join(funcs), 'dispatch': '\n'.join(dispatch)}
    path = os.path.join(ctx.scratch, 'c06_fields.c')
    with open(path, 'w') as f:
        f.write(src)
    return cb.link('c06_fields', path)


class Pipeline(object):
    """everything needed to push one GIR through the real compiler and the readers"""

    @staticmethod
    def start_c_build(ctx):
        """compile /repo's C sources in the background (it does not touch lean/), so that it overlaps the proof step"""
        import cbuild
        ex = concurrent.futures.ThreadPoolExecutor(max_workers=1)
        fut = ex.submit(lambda: cbuild.CBuild(os.path.join(ctx.scratch, 'cobj')).compile_all())
        ex.shutdown(wait=False)
        return fut

    def __init__(self, ctx, cb_future=None):
        import cbuild
        self.ctx = ctx
        self.cbuild = cbuild
        if cb_future is not None:
            self.cb = cb_future.result()          # re-raises a HarnessError of the build
        else:
            self.cb = cbuild.CBuild(os.path.join(ctx.scratch, 'cobj')).compile_all()
        self.compiler = self.cb.compiler()
        self.tags, self.blobs = load_enum_tables(ctx)
        self.validate = None
        self.cfields = None
        self.smoke = None
        try:
            self.validate = self.cb.cdriver('c06_validate')
        except HarnessError as e:
            ctx.broken.append('correspondence c06.validate: cdrivers/c06_validate.c no longer builds against /repo '
                              '(g_typelib_validate / gitypelib-internal.h changed): %s' % str(e)[-300:])
        try:
            self.smoke = self.cb.cdriver('smoke')
        except HarnessError as e:
            ctx.notes.append('public-API smoke driver does not build: %s' % str(e)[-200:])
        # layouts as the Lean model sees them
        names = ['Header', 'Section', 'DirEntry', 'SimpleTypeBlobFlags', 'ArgBlob', 'SignatureBlob', 'CommonBlob',
                 'FunctionBlob', 'CallbackBlob', 'InterfaceTypeBlob', 'ArrayTypeBlob', 'ParamTypeBlob', 'ErrorTypeBlob',
                 'ValueBlob', 'FieldBlob', 'RegisteredTypeBlob', 'StructBlob', 'UnionBlob', 'EnumBlob', 'PropertyBlob',
                 'SignalBlob', 'VFuncBlob', 'ObjectBlob', 'InterfaceBlob', 'ConstantBlob', 'AttributeBlob']
        res = ctx.driver.batch([{'op': 'c06.layout', 'struct': s} for s in names])
        self.layouts = dict(zip(names, res))
        try:
            self.cfields = build_c_fields(ctx, self.cb, self.layouts)
        except HarnessError as e:
            ctx.broken.append('correspondence c06.fields: the C struct reader no longer builds against '
                              'gitypelib-internal.h (a member the generated layout names is gone): %s' % str(e)[-300:])
        self.sizes = self.read_sizes()
        import itertools
        self._dir_counter = itertools.count(1)

    def read_sizes(self):
        path = os.path.join(VERIF, 'lean', 'GIVerif', 'Gen', 'TypelibConsts.lean')
        with open(path, encoding='utf-8') as f:
            text = f.read()
        m = re.search(r'def headerBlobSizeWritten[^\n]*:= \[(.*?)\]\n', text, re.S)
        members = {}
        for member, struct_, _lit in re.findall(r'\("(\w+)", "(\w*)", (\d+)\)', m.group(1) if m else ''):
            if struct_:
                members[member] = struct_
        m = re.search(r'def majorVersionWritten : Nat := (\d+)', text)
        return {'header_members': members, 'sizeof': {s: l['size'] for s, l in self.layouts.items()},
                'major': int(m.group(1)) if m else -1}

    def newdir(self):
        n = next(self._dir_counter)          # called from worker threads
        d = os.path.join(self.ctx.scratch, 'g%06d' % n)
        os.makedirs(d)
        return d

    def compile(self, workdir, ns, version, text, shared_library_option=None, twice=True):
        """-> dict(rc, stderr, data, identical)"""
        gir = os.path.join(workdir, '%s-%s.gir' % (ns, version))
        with open(gir, 'w', encoding='utf-8') as f:
            f.write(text)
        out = os.path.join(workdir, '%s-%s.typelib' % (ns, version))
        rc, so, se = self.cbuild.run_compiler(self.compiler, gir, out, includedirs=[workdir],
                                              shared_library=shared_library_option)
        res = {'rc': rc, 'stderr': se, 'stdout': so, 'path': out, 'data': None, 'identical': None}
        if rc == 0 and os.path.exists(out):
            with open(out, 'rb') as f:
                res['data'] = f.read()
            if twice:
                out2 = out + '.second'
                rc2, _so2, se2 = self.cbuild.run_compiler(self.compiler, gir, out2, includedirs=[workdir],
                                                          shared_library=shared_library_option)
                if rc2 == 0 and os.path.exists(out2):
                    with open(out2, 'rb') as f:
                        res['identical'] = f.read() == res['data']
                    os.unlink(out2)
                else:
                    res['identical'] = False
        return res

    def decode_many(self, datas, with_fields=False):
        reqs = [{'op': 'c06.decode', 'b64': base64.b64encode(d).decode('ascii'),
                 'with_fields': bool(with_fields and len(d) < 1000000)} for d in datas]
        return self.ctx.driver.batch(reqs)

    def c_fields_many(self, jobs):
        """jobs: [(path, [(struct, offset)])] -> list (per job) of lists of value lists"""
        if self.cfields is None:
            return None
        inp = []
        for path, items in jobs:
            inp.append('F %s\n' % path)
            inp.extend('S %s %d\n' % (s_, o) for s_, o in items)
        p = subprocess.run([self.cfields], input=''.join(inp).encode(), stdout=subprocess.PIPE, stderr=subprocess.PIPE,
                           timeout=1200)
        lines = p.stdout.decode().splitlines()
        out, k = [], 0
        for path, items in jobs:
            cur = []
            for _ in items:
                ln = lines[k] if k < len(lines) else 'CRASH'
                k += 1
                try:
                    cur.append([int(x) for x in ln.split()])
                except ValueError:
                    cur.append(None)
            out.append(cur)
        return out

    def c_validate(self, paths):
        if self.validate is None or not paths:
            return None
        out = []
        for i in range(0, len(paths), 200):
            p = subprocess.run([self.validate] + paths[i:i + 200], stdout=subprocess.PIPE, stderr=subprocess.PIPE,
                               timeout=600, env=dict(os.environ, ASAN_OPTIONS='detect_leaks=0'))
            lines = p.stdout.decode('utf-8', 'replace').splitlines()
            if len(lines) != len(paths[i:i + 200]):
                lines += ['CRASH rc=%d %s' % (p.returncode, p.stderr.decode('utf-8', 'replace')[-200:])] * \
                         (len(paths[i:i + 200]) - len(lines))
            out.extend(lines)
        return out

    def c_fields(self, path, items):
        """items: [(struct, offset)] -> list of value lists (or None)"""
        if self.cfields is None:
            return None
        inp = 'F %s\n' % path + ''.join('S %s %d\n' % it for it in items)
        p = subprocess.run([self.cfields], input=inp.encode(), stdout=subprocess.PIPE, stderr=subprocess.PIPE, timeout=600)
        lines = p.stdout.decode().splitlines()
        out = []
        for ln in lines:
            try:
                out.append([int(x) for x in ln.split()])
            except ValueError:
                out.append(None)
        while len(out) < len(items):
            out.append(None)
        return out

    def public_names(self, workdir, ns):
        if self.smoke is None:
            return None
        p = subprocess.run([self.smoke, workdir, ns], stdout=subprocess.PIPE, stderr=subprocess.PIPE, timeout=120,
                           env=dict(os.environ, ASAN_OPTIONS='detect_leaks=0'))
        if p.returncode != 0:
            return 'FAILED rc=%d %s' % (p.returncode, (p.stdout + p.stderr).decode('utf-8', 'replace')[-300:])
        out = []
        for ln in p.stdout.decode('utf-8', 'replace').splitlines()[1:]:
            m = re.match(r'^\d+ (.*) type=(\d+)$', ln)
            if m:
                out.append((m.group(1), int(m.group(2))))
        return out


def classify_rejection(res):
    """parse-level rejection (the GIR is outside 'GIRs the compiler accepts') vs a failure after parsing"""
    se = res['stderr']
    if res['rc'] == 1 and ('error parsing file' in se or re.search(r'\.gir:\d*:? ?(In .*: )?error: ', se)
                           or 'Failed to parse' in se):
        return 'rejected'
    return 'crashed'


def explain_with_quirks(case, actual):
    """-> (diffs_vs_schema, subset of the named pending deviations that explains the decoded API exactly, or None)"""
    import itertools
    orc = Oracle(case['gir'], case.get('deps', ()))
    opt = case.get('shlib_option')
    exp = orc.api(opt, quirks=())
    if exp == actual:
        return [], ()
    d0 = diff(exp, actual)
    allq = sorted(QUIRKS)
    for size in range(1, len(allq) + 1):           # smallest explaining subset first
        for sub in itertools.combinations(allq, size):
            if orc.api(opt, quirks=sub) == actual:
                return d0, sub
    return d0, None


# =====================================================================================
# part 3: cases, judging, run / replay
# =====================================================================================
def register_pending(ctx):
    for key, what in PENDING_FINDINGS.items():
        if ctx.is_known(key) is None:
            ctx.known.append({'property': 'C06', 'status': 'known', 'key': key, 'what': what, 'pending': True})


def make_dep(rng, idx):
    ns = 'Dep%d' % idx
    g = Gen(rng, ns, '1.0', dep=None, profile={})
    nsel = g.build(rng.randint(6, 14), kinds=['class', 'class', 'interface', 'interface', 'record', 'union', 'enum', 'enum',
                                               'callback', 'boxed', 'function', 'constant'])
    # make sure every kind exists
    for k, fn in (('class', g.gen_class), ('interface', g.gen_interface), ('record', g.gen_record),
                  ('enum', g.gen_enum), ('callback', g.gen_callback)):
        if not g.names[k]:
            fn()
    # typedefs of pointer records, directly and through a chain, for the namespaces that include this one
    g.gen_alias('precord')
    g.gen_alias('chain')
    g.gen_alias('iface')
    nsel.children = g.top
    text = render_repository([], nsel)
    return {'ns': ns, 'version': '1.0', 'gir': text, 'names': g.describe()['names'], 'cover': g.cover}


def make_tail_case(rng, idx):
    """a small namespace (no directory index section, no attributes) whose LAST entry is a container ending in a
    function without parameters: the out-of-line type blob of its return value is then the very last thing in the
    file -- the place where a reader or validator that assumes more bytes than the blob has runs off the end"""
    ns = 'Tail%d' % idx
    cover = {}
    top = []
    for i in range(rng.choice([1, 1, 1, 1, 0, 2, 3, 4])):      # two entries: the perfect hash (directory index) is not built
        k = rng.choice(['record', 'enum', 'constant', 'function'])
        if k == 'record':
            top.append(E('record', [('name', 'R%d' % i), ('c:type', '%sR%d' % (ns, i))]))
        elif k == 'enum':
            top.append(E('enumeration', [('name', 'E%d' % i), ('c:type', '%sE%d' % (ns, i))],
                         [E('member', [('name', 'a'), ('value', '0'), ('c:identifier', 'A%d' % i)])]))
        elif k == 'constant':
            top.append(E('constant', [('name', 'K%d' % i), ('value', '1')], [E('type', [('name', 'gint32')])]))
        else:
            top.append(E('function', [('name', 'f%d' % i), ('c:identifier', 'tail_f%d' % i)],
                         [E('return-value', [('transfer-ownership', 'none')], [E('type', [('name', 'none')])])]))
    kind = rng.choice(['boxed', 'boxed', 'record', 'union', 'class', 'interface'])
    name = 'Last'
    cname = ns + name
    gt = [('glib:type-name', cname), ('glib:get-type', 'tail_last_get_type')]
    last = {'boxed': E('glib:boxed', [('glib:name', name)] + gt),
            'record': E('record', [('name', name), ('c:type', cname)] + (gt if rng.random() < 0.5 else [])),
            'union': E('union', [('name', name), ('c:type', cname)]),
            'class': E('class', [('name', name)] + gt),
            'interface': E('interface', [('name', name)] + gt)}[kind]

    def fn(tag, fname, ret):
        f = E(tag, [('name', fname), ('c:identifier', 'tail_last_%s' % fname)])
        f.add(E('return-value', [('transfer-ownership', rng.choice(['none', 'full']))], [ret]))
        if tag == 'method':
            f.add(E('parameters', [], [E('instance-parameter', [('name', 'self'), ('transfer-ownership', 'none')],
                                         [E('type', [('name', name), ('c:type', cname + '*')])])]))
        return f
    self_t = lambda: E('type', [('name', name), ('c:type', cname + '*')])
    for i in range(rng.choice([0, 0, 1, 2])):
        last.add(fn('method', 'm%d' % i, E('type', [('name', 'none'), ('c:type', 'void')])))
    final = rng.choice(['constructor', 'constructor', 'constructor', 'function', 'method'] if kind != 'interface'
                       else ['function', 'method'])
    ret = self_t() if final == 'constructor' else rng.choice([
        self_t(), E('type', [('name', 'GLib.List'), ('c:type', 'GList*')], [E('type', [('name', 'utf8')])]),
        E('array', [('zero-terminated', '1'), ('c:type', 'gchar**')], [E('type', [('name', 'utf8')])]),
        E('type', [('name', 'GLib.Error'), ('c:type', 'GError*')])])
    last.add(fn(final, 'last', ret))
    top.append(last)
    cover['tail:%s:%s' % (kind, final)] = 1
    a = [('name', ns), ('version', '1.0'), ('shared-library', 'libtail.so')]
    text = render_repository([], E('namespace', a, top))
    return {'ns': ns, 'version': '1.0', 'gir': text, 'deps': [], 'dep_ids': [], 'shlib_option': None, 'cover': cover,
            'origin': 'generated'}


def make_case(rng, idx, deps, size=None):
    use_dep = rng.random() < 0.7 and deps
    chosen = []
    if use_dep:
        chosen = rng.sample(deps, 1 if rng.random() < 0.8 else min(2, len(deps)))
    ns = rng.choice(['Foo', 'Bar', 'Gi', 'X', 'VeryLongNamespaceName' * 3]) + ('%d' % idx if rng.random() < 0.5 else '')
    version = rng.choice(['1.0', '2.0', '0.1', '3'])
    g = Gen(rng, ns, version, dep=chosen[0] if chosen else None)
    n_top = size if size is not None else rng.choice([0, 1, 2, 3, 5, 8, 12, 20])
    nsel = g.build(n_top)
    extra_top = []
    if rng.random() < 0.3:
        extra_top.append(E('package', [('name', 'foo-1.0')]))
    if rng.random() < 0.3:
        extra_top.append(E('c:include', [('name', 'foo/foo.h')]))
    if rng.random() < 0.1:
        extra_top.append(E('doc:format', [('name', 'gi-docgen')]))
    text = render_repository([(d['ns'], d['version']) for d in chosen], nsel, extra_top)
    shlib_opt = None
    if rng.random() < 0.12:
        shlib_opt = rng.choice(['libopt.so.1', 'libone.so,libtwo.so'])
    return {'ns': ns, 'version': version, 'gir': text, 'deps': [d['gir'] for d in chosen],
            'dep_ids': [(d['ns'], d['version']) for d in chosen], 'shlib_option': shlib_opt, 'cover': g.cover,
            'origin': 'generated'}


def limit_cases(rng, tier):
    """counts near the 16-bit / 7-bit limits of the format (thorough), smaller in quick"""
    cases = []

    def ns_text(ns, body):
        nsel = E('namespace', [('name', ns), ('version', '1.0'), ('shared-library', 'lib.so')], body)
        return render_repository([], nsel)

    def const(i):
        return E('constant', [('name', 'C%d' % i), ('value', str(i))], [E('type', [('name', 'gint32')])])

    def simple_fn(name, nparams, closure=None):
        ps = E('parameters')
        for i in range(nparams):
            a = [('name', 'p%d' % i), ('transfer-ownership', 'none')]
            if closure is not None and i == 0:
                a += [('closure', str(closure[0])), ('destroy', str(closure[1])), ('scope', 'notified')]
            ps.add(E('parameter', a, [E('type', [('name', 'gint32')])]))
        return E('function', [('name', name), ('c:identifier', 'l_' + name)],
                 [E('return-value', [('transfer-ownership', 'none')], [E('type', [('name', 'none')])]), ps])

    # above ~25 000 entries the directory index section exceeds 64 KiB (a 16-bit size variable aborted there)
    n_entries = 65535 if tier == 'thorough' else 30000
    cases.append({'ns': 'LimE', 'version': '1.0', 'gir': ns_text('LimE', [const(i) for i in range(n_entries)]),
                  'deps': [], 'dep_ids': [], 'shlib_option': None, 'origin': 'limit:n_entries=%d' % n_entries, 'twice': False})
    nargs = 65535 if tier == 'thorough' else 300
    cases.append({'ns': 'LimA', 'version': '1.0',
                  'gir': ns_text('LimA', [simple_fn('many', nargs, closure=(127, 126)), simple_fn('few', 128, closure=(126, 127))]),
                  'deps': [], 'dep_ids': [], 'shlib_option': None, 'origin': 'limit:n_arguments=%d closure=127' % nargs,
                  'twice': tier != 'thorough'})     # determinism is judged on the thousands of ordinary documents
    nmemb = 65535 if tier == 'thorough' else 700
    fields = [E('field', [('name', 'f%d' % i), ('writable', '1')], [E('type', [('name', 'guint8')])]) for i in range(nmemb)]
    vals = [E('member', [('name', 'v%d' % i), ('value', str(i)), ('c:identifier', 'V%d' % i)]) for i in range(nmemb)]
    ifs = [E('interface', [('name', 'I%d' % i), ('glib:type-name', 'LimMI%d' % i), ('glib:get-type', 'i%d_get_type' % i)])
           for i in range(min(nmemb, 4001))]
    cls = E('class', [('name', 'Big'), ('glib:type-name', 'LimMBig'), ('glib:get-type', 'big_get_type')],
            [E('implements', [('name', 'I%d' % i)]) for i in range(len(ifs))])
    cases.append({'ns': 'LimM', 'version': '1.0',
                  'gir': ns_text('LimM', [E('record', [('name', 'R')], fields), E('enumeration', [('name', 'En'), ('c:type', 'En')], vals)]
                                 + ifs + [cls]),
                  'deps': [], 'dep_ids': [], 'shlib_option': None, 'origin': 'limit:n_fields/n_values=%d n_interfaces=%d' % (nmemb, len(ifs)),
                  'twice': tier != 'thorough'})
    long_s = 'S' * (70000 if tier == 'thorough' else 9000)
    f = simple_fn('n' + 'x' * 2000, 1)
    f.children.insert(0, E('attribute', [('name', 'long'), ('value', long_s)]))
    cases.append({'ns': 'LimS', 'version': '1.0', 'gir': ns_text('LimS', [f, E('constant', [('name', 'LS'), ('value', long_s)],
                                                                                 [E('type', [('name', 'utf8')])])]),
                  'deps': [], 'dep_ids': [], 'shlib_option': None, 'origin': 'limit:long-strings'})
    return cases


def load_corpus():
    out = []
    cpath = os.path.join(VERIF, 'corpus', 'C06')
    if os.path.isdir(cpath):
        for fn in sorted(os.listdir(cpath)):
            if fn.endswith('.json'):
                with open(os.path.join(cpath, fn), encoding='utf-8') as f:
                    for c in json.load(f):
                        c.setdefault('deps', [])
                        c.setdefault('dep_ids', [])
                        c.setdefault('shlib_option', None)
                        c['origin'] = 'corpus:' + fn
                        out.append(c)
    return out


def replay_obj(case, extra=None):
    r = {'kind': 'gir', 'ns': case['ns'], 'version': case['version'], 'gir': case['gir'], 'deps': list(case.get('deps', [])),
         'dep_ids': [list(x) for x in case.get('dep_ids', [])], 'shlib_option': case.get('shlib_option'),
         'how': 'write each dep as <ns>-<version>.gir and the GIR as %s-%s.gir into one directory, run '
                'g-ir-compiler --includedir DIR -o X.typelib DIR/%s-%s.gir, decode X.typelib field by field'
                % (case['ns'], case['version'], case['ns'], case['version'])}
    if len(r['gir']) > 400000:
        r['gir'] = r['gir'][:2000] + '\n... (%d bytes; origin %s) ...' % (len(case['gir']), case.get('origin'))
    if extra:
        r.update(extra)
    return r


def shrink_case(pipe, case, still_fails, budget=60):
    """drop top-level elements / members while the failure persists (failing-input search around a disagreement)"""
    try:
        root = ET.fromstring(case['gir'])
    except ET.ParseError:
        return case
    ET.register_namespace('', CORE)
    ET.register_namespace('c', CNS)
    ET.register_namespace('glib', GLIBNS)
    best = case
    nsel = root.find(q('namespace'))
    changed = True
    while changed and budget > 0:
        changed = False
        for parent in [nsel] + list(nsel):
            for child in list(parent):
                if budget <= 0:
                    break
                idx = list(parent).index(child)
                parent.remove(child)
                text = ET.tostring(root, encoding='unicode')
                cand = dict(best, gir=text)
                budget -= 1
                ok = False
                try:
                    ok = still_fails(cand)
                except Exception:
                    ok = False
                if ok:
                    best = cand
                    changed = True
                else:
                    parent.insert(idx, child)
    return best


class Judge(object):
    def __init__(self, ctx, pipe, cnt):
        self.ctx = ctx
        self.pipe = pipe
        self.cnt = cnt
        self.samples = []
        self.n_corr = 0
        self.blobs_compared = 0
        self.stderr_samples = []
        import threading
        self.dep_cache = {}
        self.dep_lock = threading.Lock()
        self.extent_reqs = []
        self.extent_meta = []
        self.area_reqs = []
        self.area_meta = []
        self.dirindex_reqs = []
        self.dirindex_meta = []
        self.dirindex_id = section_ids().get('GI_SECTION_DIRECTORY_INDEX', 1)

    def prepare(self, case):
        """compile deps and the case; returns the per-case record"""
        pipe = self.pipe
        d = pipe.newdir()
        rec = {'case': case, 'dir': d}
        for (dns, dver), dtext in zip(case.get('dep_ids', []), case.get('deps', [])):
            key = (dns, dver, hashlib.sha1(dtext.encode('utf-8')).hexdigest())
            with self.dep_lock:
                if key not in self.dep_cache:
                    dd = pipe.newdir()
                    self.dep_cache[key] = pipe.compile(dd, dns, dver, dtext, twice=False)
                r = self.dep_cache[key]
            if r['data'] is None:
                rec['dep_failed'] = '%s-%s: rc=%d %s' % (dns, dver, r['rc'], r['stderr'][-300:])
                continue
            with open(os.path.join(d, '%s-%s.gir' % (dns, dver)), 'w', encoding='utf-8') as f:
                f.write(dtext)
            os.symlink(r['path'], os.path.join(d, '%s-%s.typelib' % (dns, dver)))
        rec['res'] = pipe.compile(d, case['ns'], case['version'], case['gir'], case.get('shlib_option'),
                                  twice=case.get('twice', True))
        # third reading of the same bytes: the public repository API (done here: this runs in the worker pool)
        rec['public'] = None
        if rec['res']['data'] is not None and len(rec['res']['data']) < 400000 and not case.get('no_public'):
            rec['public'] = pipe.public_names(d, case['ns'])
        return rec

    def api_key(self, case, what):
        return 'api:%s:%s' % (hashlib.sha1(case['gir'].encode('utf-8')).hexdigest()[:12], what)

    def judge_compile(self, rec):
        """-> True when there is a typelib to look at"""
        ctx, cnt, case, res = self.ctx, self.cnt, rec['case'], rec['res']
        if 'dep_failed' in rec:
            cnt.hit('outside:dependency-not-compiled')
            ctx.notes.append('dependency did not compile: ' + rec['dep_failed'][:300])
            return False
        if res['data'] is None:
            kind = classify_rejection(res)
            if kind == 'rejected':
                cnt.hit('outside:rejected-by-the-compiler')
                if len(self.stderr_samples) < 5:
                    self.stderr_samples.append(res['stderr'][-300:])
                if case.get('origin', '').startswith(('corpus', 'limit')):
                    ctx.report_failure(self.api_key(case, 'rejected'),
                                       'a GIR of the fixed corpus / limit set that the unchanged compiler accepts is now '
                                       'rejected: rc=%d %s' % (res['rc'], res['stderr'][-400:]), replay_obj(case))
                return False
            cnt.hit('fail:compiler-crashed')
            ctx.report_failure(self.api_key(case, 'crash'),
                               'g-ir-compiler parsed the GIR and then failed while writing/validating the typelib: rc=%d %s'
                               % (res['rc'], res['stderr'][-600:]), replay_obj(case))
            return False
        if res['stderr'].strip():
            cnt.hit('note:stderr-not-empty')
            if len(self.stderr_samples) < 5:
                self.stderr_samples.append(res['stderr'][-300:])
        if res['identical'] is False:
            cnt.hit('fail:not-deterministic')
            ctx.report_failure(self.api_key(case, 'nondeterministic'),
                               'compiling the same GIR twice gave different bytes', replay_obj(case))
        return True

    def judge_decoded(self, rec, dec, cval, public):
        ctx, cnt, pipe, case = self.ctx, self.cnt, self.pipe, rec['case']
        data = rec['res']['data']
        if cval is not None:
            if cval.startswith('OK'):
                cnt.hit('validate:ok')
            else:
                cnt.hit('fail:validate')
                ctx.report_failure(self.api_key(case, 'validate'),
                                   'g_typelib_validate rejects the typelib the compiler wrote: ' + cval[:300], replay_obj(case))
        if 'error' in dec:
            cnt.hit('fail:decode-error')
            ctx.report_failure(self.api_key(case, 'decode'),
                               'the field-by-field decoder cannot read the typelib according to the format: %r' % (dec['error'],),
                               replay_obj(case))
            return
        raw = dec['ok']
        probs = structural_problems(raw, data, pipe.sizes)
        if probs:
            cnt.hit('fail:structure')
            ctx.report_failure(self.api_key(case, 'structure'),
                               'sizes/offsets disagree with the format: ' + '; '.join(probs[:4]), replay_obj(case))
        else:
            cnt.hit('structure:ok')
        actual = Canon(raw, pipe.tags, pipe.blobs).api()
        d0, sub = explain_with_quirks(case, actual)
        if not d0:
            cnt.hit('api:equal')
        elif sub is not None:
            cnt.hit('api:equal-modulo-pending-findings')
            for k in sub:
                cnt.hit('finding:' + k)
                ctx.report_failure(QUIRKS[k][0], QUIRKS[k][1] + ' -- e.g. ' + d0[0][:200], replay_obj(case))
        else:
            cnt.hit('fail:api-differs')
            exp_q = expected_api(case['gir'], case.get('deps', ()), case.get('shlib_option'), quirks=QUIRKS.keys())
            dq = diff(exp_q, actual)
            ctx.report_failure(self.api_key(case, 'api'),
                               'the decoded typelib does not describe the API of the GIR: ' + '; '.join((dq or d0)[:4]),
                               replay_obj(case, {'differences': (dq or d0)[:12]}))
        self.collect_sizes(case, raw, data)
        # public API view of the directory (names and kinds) -- a third reading of the same bytes
        if public is not None:
            if isinstance(public, str):
                cnt.hit('public:load-failed')
                ctx.report_failure(self.api_key(case, 'public-load'),
                                   'the public repository API cannot load the typelib: ' + public[:300], replay_obj(case))
            else:
                mine = [(e['name'], e['blob_type']) for e in raw['entries'] if e['local']]
                if public != mine:
                    self.n_corr += 1
                    if self.n_corr <= 3:
                        ctx.broken.append('correspondence c06.decode differs from the public API (g_irepository_get_info) '
                                          'on the directory of %s: C %r, decoder %r' % (case['ns'], public[:5], mine[:5]))
                else:
                    cnt.hit('public:directory-agrees')
        # C struct view of every blob the decoder visited: compared per chunk in compare_fields
        nodes = []
        walk_nodes(raw['entries'], nodes)
        if len(self.samples) < 3 and case.get('origin') == 'generated' and len(case['gir']) < 6000:
            self.samples.append({'gir': case['gir'], 'n_entries': len(raw['entries']), 'typelib_bytes': len(data)})
        cnt.case(['gir', case['gir']], nontrivial=len(raw['entries']) > 0)
        cnt.hit('entries', len(raw['entries']))
        cnt.hit('blobs', len(nodes))
        for e in raw['entries']:
            cnt.hit('entry:' + (pipe.blobs.get(e['blob_type'], '?') if e['local'] else 'xref'))

    def compare_fields(self, chunk, decs):
        """every blob the decoder visited, read member by member through the generated layout (Lean) and through
        /repo's own struct definitions (C) from the same file"""
        jobs, lean = [], []
        for r, dec in zip(chunk, decs):
            fs = dec.get('fields')
            if not fs:
                continue
            if len(fs) > 6000:
                fs = fs[:3000] + self.ctx.rng.sample(fs[3000:], 3000)
            jobs.append((r['res']['path'], [(f[0], f[1]) for f in fs]))
            lean.append((r['case']['ns'], fs))
        cv = self.pipe.c_fields_many(jobs)
        if cv is None:
            return
        for (ns, fs), cvals in zip(lean, cv):
            for f, c in zip(fs, cvals):
                self.blobs_compared += 1
                lv = None if f[2] is None else [v for _n, v in f[2]]
                if c != lv:
                    self.n_corr += 1
                    if self.n_corr <= 3:
                        self.ctx.broken.append('correspondence c06.fields differs: %s at %d of %s: C structs read %r, the '
                                               'generated layout reads %r' % (f[0], f[1], ns, c, lv))
                    break

    def collect_sizes(self, case, raw, data):
        for e in raw['entries']:
            if not e['local']:
                continue
            n = e['node']
            kind = {'StructBlob': 'struct', 'UnionBlob': 'union', 'EnumBlob': 'enum', 'ObjectBlob': 'object',
                    'InterfaceBlob': 'interface'}.get(n['blob'])
            if kind is None:
                continue
            q_ = {'op': 'c06.extent', 'kind': kind}
            for k in ('n_fields', 'n_methods', 'n_functions', 'n_values', 'n_interfaces', 'n_properties', 'n_signals',
                      'n_vfuncs', 'n_constants', 'n_prerequisites'):
                if k in n:
                    q_[k] = n[k]
            q_['n_field_callbacks'] = sum(1 for f in n.get('fields', []) if 'callback' in f)
            if len(self.extent_reqs) < 20000:
                self.extent_reqs.append(q_)
                self.extent_meta.append((case['ns'], n['name'], n['end'] - n['at']))
        s = raw['strings']
        uniq = []
        for k in ('dependencies', 'namespace', 'nsversion', 'shared_library', 'c_prefix'):
            if s[k] is not None and s[k] not in uniq:
                uniq.append(s[k])
        h = raw['header']
        first = None
        if raw['entries'] and raw['entries'][0]['local']:
            first = raw['entries'][0]['offset']
        self.area_reqs.append({'op': 'c06.headerarea', 'strlens': [len(x.encode('utf-8')) for x in uniq],
                               'n_entries': h['n_entries'],
                               'passes': 2 if h['n_entries'] > h['n_local_entries'] else 1})
        self.area_meta.append((case['ns'], h['sections'], h['directory'], first))
        # the directory index section is the last thing in the file: [section offset, header.size); its first
        # 32-bit word is the builder's dirmap_offset, the 16-bit table of n_local_entries follows it
        for sct in raw['sections']:
            if sct['id'] == self.dirindex_id and sct['offset'] + 4 <= len(data):
                dirmap = struct.unpack_from('<I', data, sct['offset'])[0]
                self.dirindex_reqs.append({'op': 'c06.dirindex', 'dirmap': dirmap, 'n_local': h['n_local_entries'],
                                           'offset2': sct['offset']})
                self.dirindex_meta.append((case['ns'], sct['offset'], len(data), h['n_local_entries']))
                self.cnt.hit('section:directory-index')
                if h['n_local_entries'] >= 25000:
                    self.cnt.hit('section:directory-index>64KiB' if len(data) - sct['offset'] > 65535
                                 else 'section:directory-index:many-entries')
        if not raw['sections']:
            self.cnt.hit('section:none')

    def prepare_async(self, cases, workers=4):
        """compile `cases` in the background (the limit-size documents take tens of seconds each); -> future of recs"""
        ex = concurrent.futures.ThreadPoolExecutor(max_workers=workers)
        futs = [ex.submit(self.prepare, c) for c in cases]
        ex.shutdown(wait=False)
        return futs

    def run_cases(self, cases, workers=None, prepared=None):
        """compile (process pool of compilers), then decode / validate chunk-wise with several model-driver and
        C-reader processes at a time; the judging itself (oracle, comparison) runs in this thread, in case order"""
        import shutil
        if workers is None:
            workers = max(4, min(16, os.cpu_count() or 8))
        if prepared is not None:
            recs = [f.result() for f in prepared]
        else:
            with concurrent.futures.ThreadPoolExecutor(max_workers=workers) as ex:
                recs = list(ex.map(self.prepare, cases))
        ready = [r for r in recs if self.judge_compile(r)]
        chunks = [ready[i:i + 40] for i in range(0, len(ready), 40)]

        def read(chunk):
            decs = self.pipe.decode_many([r['res']['data'] for r in chunk], with_fields=True)
            cvals = self.pipe.c_validate([r['res']['path'] for r in chunk])
            return decs, cvals

        par = max(2, min(6, workers // 2))
        for w in range(0, len(chunks), par):
            window = chunks[w:w + par]
            with concurrent.futures.ThreadPoolExecutor(max_workers=par) as ex:
                results = list(ex.map(read, window))
            for chunk, (decs, cvals) in zip(window, results):
                for j, (r, dec) in enumerate(zip(chunk, decs)):
                    self.judge_decoded(r, dec, None if cvals is None else cvals[j], r.get('public'))
                self.compare_fields(chunk, decs)
        for r in recs:
            shutil.rmtree(r['dir'], ignore_errors=True)
        return recs


def codec_correspondence(ctx, pipe, cnt):
    """the generic codec against C: Lean writes members into zeroed/random bytes, /repo's structs read them back"""
    rng = ctx.rng
    if pipe.cfields is None:
        return
    names = [s for s, l in pipe.layouts.items() if l['fields']]
    reqs, meta = [], []
    for _ in range(ctx.n(150, 3000)):
        s = rng.choice(names)
        lay = pipe.layouts[s]
        base = rng.choice([0, 0, 4, 7, 13])
        total = base + lay['size'] + rng.choice([0, 3])
        data = [rng.randint(0, 255) if rng.random() < 0.5 else 0 for _ in range(total)]
        if rng.random() < 0.5:
            data = [0] * total
        vals = []
        for _n, _f, w in lay['fields']:
            r = rng.random()
            vals.append((1 << w) - 1 if r < 0.2 else 0 if r < 0.3 else rng.getrandbits(w))
        reqs.append({'op': 'c06.encode', 'bytes': data, 'struct': s, 'base': base, 'values': vals})
        meta.append((s, base, vals, data))
    outs = ctx.driver.batch(reqs)
    bad = 0
    cdir = os.path.join(ctx.scratch, 'codec')
    os.makedirs(cdir, exist_ok=True)
    jobs = []
    for i, ((s, base, vals, data), o) in enumerate(zip(meta, outs)):
        path = os.path.join(cdir, '%d.bin' % i)
        with open(path, 'wb') as f:
            f.write(bytes(o['bytes']))
        jobs.append((path, [(s, base)]))
    cvs = pipe.c_fields_many(jobs)
    for (s, base, vals, data), o, cvl in zip(meta, outs, cvs):
        cnt.hit('codec:encode')
        cv = cvl[0]
        lay = pipe.layouts[s]
        untouched = all(o['bytes'][i] == data[i] for i in list(range(0, base)) + list(range(base + lay['size'], len(data))))
        if cv != vals or o['back'] != vals or not untouched or len(o['bytes']) != len(data):
            bad += 1
            if bad <= 3:
                ctx.broken.append('correspondence c06.encode differs: struct %s at %d values %r: C reads %r, model reads back %r, '
                                  'bytes outside untouched=%r' % (s, base, vals, cv, o['back'], untouched))
    import shutil
    shutil.rmtree(cdir, ignore_errors=True)
    # size arithmetic: align4 / string allocation against the same expressions evaluated by C semantics
    ns = [rng.randint(0, 5000) for _ in range(200)] + list(range(0, 40))
    res = ctx.driver.batch([{'op': 'c06.align4', 'n': n} for n in ns])
    for n, r in zip(ns, res):
        cnt.hit('sizes:align4')
        if r != ((n + 3) & ~3):
            ctx.broken.append('correspondence c06.align4 differs at %d: model %d, ALIGN_VALUE %d' % (n, r, (n + 3) & ~3))
            break


def sizes_correspondence(ctx, judge, cnt):
    """extent of every directory-entry blob as the decoder walked it == the size model (mirror of _g_ir_node_get_size);
    header.sections / header.directory / first blob offset of the real file == the header-area arithmetic of the model"""
    if judge.extent_reqs:
        outs = ctx.driver.batch(judge.extent_reqs)
        bad = 0
        for (ns, name, ext), o in zip(judge.extent_meta, outs):
            cnt.hit('sizes:extent')
            if ext != o:
                bad += 1
                if bad <= 3:
                    ctx.broken.append('correspondence c06.extent differs: %s.%s walked %d bytes, size model %d' % (ns, name, ext, o))
    if judge.area_reqs:
        outs = ctx.driver.batch(judge.area_reqs)
        bad = 0
        for (ns, sections, directory, first), o in zip(judge.area_meta, outs):
            cnt.hit('sizes:headerarea')
            if (sections, directory) != (o['sections'], o['directory']) or (first is not None and first != o['first_blob']):
                bad += 1
                if bad <= 3:
                    ctx.broken.append('correspondence c06.headerarea differs: %s has sections=%d directory=%d first blob=%r, '
                                      'size model %r' % (ns, sections, directory, first, o))


def dirindex_correspondence(ctx, judge, cnt):
    """size of the directory index section of every real file == the model of add_directory_index_section with the
    width of the size variable read from girmodule.c this run (a narrower variable truncates: the model then
    predicts a failed assertion / a shorter section and this comparison, or the compiler's abort, shows it)"""
    if not judge.dirindex_reqs:
        return
    outs = ctx.driver.batch(judge.dirindex_reqs)
    bad = 0
    for (ns, off, size, n), o in zip(judge.dirindex_meta, outs):
        cnt.hit('sizes:dirindex')
        if not isinstance(o, dict) or not o.get('pack_ok') or o.get('end') != size:
            bad += 1
            if bad <= 3:
                ctx.broken.append('correspondence c06.dirindex differs: %s (%d local entries) has its directory index '
                                  'section at [%d, %d), the model of add_directory_index_section says %r' % (ns, n, off, size, o))


def start_sanitizer_runs(pipe, san_future, san_cases):
    """the ASan/UBSan build of g-ir-compiler on a sample of the documents, in the background; -> future of stderr texts"""
    import shutil
    import cbuild

    def san_one(sanc, c):
        d = pipe.newdir()
        try:
            for (dns, dver), dtext in zip(c.get('dep_ids', []), c.get('deps', [])):
                with open(os.path.join(d, '%s-%s.gir' % (dns, dver)), 'w', encoding='utf-8') as f:
                    f.write(dtext)
            gir = os.path.join(d, '%s-%s.gir' % (c['ns'], c['version']))
            with open(gir, 'w', encoding='utf-8') as f:
                f.write(c['gir'])
            rc, so, se = cbuild.run_compiler(sanc, gir, os.path.join(d, 'o.typelib'), includedirs=[d],
                                             shared_library=c.get('shlib_option'))
            return se
        finally:
            shutil.rmtree(d, ignore_errors=True)

    def all_runs():
        sanc = san_future.result().compiler()          # re-raises a HarnessError of the build
        with concurrent.futures.ThreadPoolExecutor(max_workers=4) as ex:
            return list(ex.map(lambda c: san_one(sanc, c), san_cases))

    ex = concurrent.futures.ThreadPoolExecutor(max_workers=1)
    fut = ex.submit(all_runs)
    ex.shutdown(wait=False)
    return fut


def run(ctx):
    cnt = Counter()
    register_pending(ctx)
    cb_future = Pipeline.start_c_build(ctx)
    san_future = None
    if ctx.tier == 'thorough':
        import cbuild as _cbuild
        _ex = concurrent.futures.ThreadPoolExecutor(max_workers=1)
        san_future = _ex.submit(lambda: _cbuild.CBuild(os.path.join(ctx.scratch, 'san'), sanitize=True).compile_all())
        _ex.shutdown(wait=False)
    ctx.prove(['gen_typelib_layout', 'gen_typelib_consts'], ['GIVerif.Props.C06'], 'GIVerif.Props.C06')
    ctx.log('proofs checked')
    pipe = Pipeline(ctx, cb_future)
    ctx.log('C build done')
    rng = ctx.rng
    judge = Judge(ctx, pipe, cnt)

    corpus = load_corpus()
    deps = [make_dep(rng, i) for i in range(ctx.n(3, 12))]
    dep_cases = [{'ns': d['ns'], 'version': d['version'], 'gir': d['gir'], 'deps': [], 'dep_ids': [], 'shlib_option': None,
                  'cover': d['cover'], 'origin': 'generated'} for d in deps]
    n_cases = ctx.n(150, 1200)
    cases = [make_case(rng, i, deps) for i in range(n_cases)]
    cases += [make_tail_case(rng, i) for i in range(ctx.n(24, 150))]
    san_runs, san_cases = None, []
    if san_future is not None:
        san_cases = (corpus + dep_cases + cases)[:200]
        san_runs = start_sanitizer_runs(pipe, san_future, san_cases)
    lims = limit_cases(rng, ctx.tier)
    lim_futures = judge.prepare_async(lims)          # compiled while the ordinary documents are judged
    gen_cover = {}
    for c in dep_cases + cases:
        for k, v in c.get('cover', {}).items():
            gen_cover[k] = gen_cover.get(k, 0) + v
    all_cases = corpus + dep_cases + cases
    recs = []
    for i in range(0, len(all_cases), 400):
        recs += judge.run_cases(all_cases[i:i + 400])
        ctx.log('%d / %d GIRs judged' % (min(i + 400, len(all_cases)), len(all_cases)))
    lim_recs = judge.run_cases(lims, workers=4, prepared=lim_futures)
    ctx.log('limit cases judged')
    codec_correspondence(ctx, pipe, cnt)
    sizes_correspondence(ctx, judge, cnt)
    dirindex_correspondence(ctx, judge, cnt)

    # acceptance rate of the generator: the search is void if the compiler rejects what we feed it
    n_out = cnt.counts.get('outside:rejected-by-the-compiler', 0) + cnt.counts.get('outside:dependency-not-compiled', 0)
    if n_out * 10 > len(all_cases):
        ctx.broken.append('the compiler rejects %d of %d generated GIRs (%r): the failing-input search no longer '
                          'reaches the writer' % (n_out, len(all_cases), judge.stderr_samples[:2]))

    # failing-input search around the first API disagreement: shrink it
    for v in list(ctx.violations)[:2]:
        rp = v.get('replay') or {}
        if rp.get('kind') != 'gir' or len(rp.get('gir', '')) > 200000 or not v['key'].endswith(':api'):
            continue
        case = {'ns': rp['ns'], 'version': rp['version'], 'gir': rp['gir'], 'deps': rp['deps'],
                'dep_ids': [tuple(x) for x in rp['dep_ids']], 'shlib_option': rp['shlib_option']}

        def still_fails(cand):
            rec = judge.prepare(dict(cand, twice=False, no_public=True))
            try:
                if rec['res']['data'] is None:
                    return False
                dec = pipe.decode_many([rec['res']['data']])[0]
                if 'ok' not in dec:
                    return False
                actual = Canon(dec['ok'], pipe.tags, pipe.blobs).api()
                d0, sub = explain_with_quirks(cand, actual)
                return bool(d0) and sub is None
            finally:
                import shutil
                shutil.rmtree(rec['dir'], ignore_errors=True)
        small = shrink_case(pipe, case, still_fails, budget=ctx.n(40, 150))
        if len(small['gir']) < len(case['gir']):
            v['replay']['shrunk_gir'] = small['gir']
            cnt.hit('search:shrunk')

    # ASan/UBSan build of the real C code on a sample (thorough): results of the background runs
    if san_runs is not None:
        try:
            san_out = san_runs.result()
            for c, se in zip(san_cases, san_out):
                if 'runtime error' in se or 'AddressSanitizer' in se:
                    cnt.hit('fail:sanitizer')
                    ctx.report_failure(judge.api_key(c, 'sanitizer'),
                                       'ASan/UBSan build of g-ir-compiler reports: ' + se[-500:], replay_obj(c))
            cnt.hit('sanitizer:runs', len(san_out))
        except HarnessError as e:
            ctx.notes.append('sanitizer build not available: %s' % str(e)[-200:])

    nontrivial = cnt.n_distinct()
    ctx.coverage.update({
        'evaluations': len(all_cases) + len(lims) + cnt.counts.get('codec:encode', 0),
        'distinct_nontrivial': nontrivial,
        'rule': 'seeded GIR documents (one Gen per namespace): every element kind the compiler reads x attribute '
                'combinations, cross-namespace references to generated dependency namespaces compiled first, 0/1/many '
                'members, odd interface counts, long strings, limit-size documents.  Each GIR: real g-ir-compiler (exit '
                'status, stderr, compiled twice), g_typelib_validate from C, Lean field-by-field decode, comparison with '
                'the API derived from the GIR TEXT by the schema rules, header/offset/alignment checks, the same bytes '
                'read through /repo\'s C structs and through the public repository API.  non-trivial = typelib with at '
                'least one entry; distinct by GIR text.',
        'samples': judge.samples,
        'distribution': cnt.counts,
        'generator_coverage': gen_cover,
        'blobs_compared_with_c_structs': judge.blobs_compared,
        'corpus_cases': len(corpus),
        'stderr_samples': judge.stderr_samples,
        'pending_findings': sorted(PENDING_FINDINGS),
        'notes': ctx.notes[:10],
        'exhaustive': False,
    })
    ctx.assumptions.extend([
        'the GIR -> node -> blob mapping of girparser.c / girnode.c is NOT modelled: it is validated by decoding what the '
        'real compiler wrote and comparing with the API the GIR text stands for (translation validation)',
        'struct size / alignment / field offsets and enum storage types written by giroffsets.c are decoded but not '
        'compared here (C08); the directory index section (cmph hash) is located and bounds-checked, its content is C14',
        'a type is expected to be a pointer by the rule stated in the oracle (c:type stars, one level off for out/inout '
        'parameters); GIR type names follow the scanner vocabulary; C integer type names have their x86-64 widths',
        'GIRs rejected by the compiler at parse level are outside the quantifier ("every valid GIR the compiler accepts"); '
        'a failure after parsing (abort, g_error, failed self-validation) is a failure of the property',
        'values outside the format\'s widths (enum values beyond 32 bits, closure/destroy beyond a signed byte, counts and '
        'indices beyond 16 bits, property/method indices beyond 10 bits) are not generated',
        'documents in which an <attribute> follows the <type>/<callback> child of its parameter / return value / field / '
        'property / class constant (generated now and then; corpus case P1) are judged against the schema API with '
        'exactly the known deviation attribute-after-type-child applied: any other difference is a violation',
        'vfunc must-chain-up/override/is-class-closure/offset and signal has-class-closure are not GIR schema attributes '
        '(docs/gir-1.2.rnc) and are not generated; async-func/sync-func/finish-func are not read by this compiler version',
    ])


def replay(ctx, rep):
    register_pending(ctx)
    r = rep['replay']
    if r.get('kind') != 'gir':
        print('nothing to replay (the failure was a proof / correspondence break): %r' % (rep.get('no_longer_checks'),))
        return 2
    pipe = Pipeline(ctx)
    cnt = Counter()
    judge = Judge(ctx, pipe, cnt)
    case = {'ns': r['ns'], 'version': r['version'], 'gir': r['gir'], 'deps': r.get('deps', []),
            'dep_ids': [tuple(x) for x in r.get('dep_ids', [])], 'shlib_option': r.get('shlib_option'), 'origin': 'replay'}
    judge.run_cases([case], workers=1)
    print('distribution: %s' % json.dumps(cnt.counts, sort_keys=True))
    for v in ctx.violations:
        print('FAILS: ' + v['what'][:1500])
    for h in ctx.known_hits:
        print('KNOWN-FINDING: property=C06 %s [%s]' % (h['what'], h['key']))
    return 1 if (ctx.violations or ctx.known_hits) else 0
